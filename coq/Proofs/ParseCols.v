(* C19 -- the parser's column bookkeeping.  Every token the parser reads is handed over with the character range it occupies
   in the listed text of the line (the concatenation of the token texts), blanks included; a line-number operand read at such a
   position gets exactly the range of its digits. *)
From BL Require Import Base.Prelude Base.Floats Base.Decimal Lang.Token Lang.Ast Mach.Func Lang.Parse.
From Coq Require Import Lia.
Local Open Scope N_scope.

Definition width (t : token) : N := lenN (token_str t).
Definition widths (ts : list token) : N := lenN (tokens_str ts).

Lemma widths_app : forall a b, widths (a ++ b) = widths a + widths b.
Proof. intros a b. unfold widths, tokens_str, lenN. rewrite flat_map_app, app_length. lia. Qed.
Lemma widths_cons : forall t r, widths (t :: r) = width t + widths r.
Proof. intros t r. unfold widths, width, tokens_str, lenN. cbn [flat_map]. rewrite app_length. lia. Qed.
Lemma widths_nil : widths [] = 0. Proof. reflexivity. Qed.

Definition is_blank (t : token) : bool := match t with TWs _ => true | _ => false end.

(* the scan for the next token: it is found behind blanks only, and the two columns are the ends of what lies before it and of it *)
Lemma next_raw_spec : forall toks ce t r rem' cs ce',
  next_raw toks false ce = (Some t, r, rem', cs, ce') ->
  exists ws, toks = ws ++ t :: r /\ forallb is_blank ws = true /\ is_blank t = false /\ is_rem_tok t = false
             /\ rem' = false /\ cs = ce + widths ws /\ ce' = cs + width t.
Proof.
  induction toks as [| x toks IH]; intros ce t r rem' cs ce' H; cbn [next_raw] in H; [discriminate |].
  cbn [orb] in H. destruct (is_rem_tok x) eqn:Er.
  - (* after a remark word nothing is returned any more *)
    exfalso. clear IH. revert H. generalize ce. induction toks as [| y toks IH2]; intros ce0 H; cbn [next_raw] in H; [discriminate |].
    cbn [orb] in H. apply (IH2 ce0). exact H.
  - destruct x; try (injection H as <- <- <- <- <-; exists []; cbn [app forallb]; rewrite widths_nil;
                     repeat split; try reflexivity; try assumption; unfold width; lia).
    apply IH in H. destruct H as [ws (E & Hb & Ht & Hr & Hrem & Hcs & Hce)].
    exists (TWs n :: ws). rewrite E. cbn [app forallb is_blank andb]. rewrite widths_cons. unfold width.
    repeat split; try assumption. lia.
Qed.

(* the parser's position in the token list `all` of the line *)
Definition Pos (all : list token) (st : pst) : Prop :=
  p_rem st = false /\
  match p_peek st with
  | None => exists before, all = before ++ p_toks st /\ p_ce st = widths before
  | Some t => exists before, all = before ++ t :: p_toks st /\ p_cs st = widths before /\ p_ce st = widths before + width t
  end.

Lemma pos_start : forall toks, Pos toks (mkP toks None false 0 0).
Proof. intros toks. split; [reflexivity |]. exists []. split; reflexivity. Qed.

(* taking a token: it sits at [p_cs, p_ce) of the listed text *)
Theorem next_gives_range : forall all st t st', Pos all st -> p_next st = (Some t, st') ->
  Pos all st' /\ exists before after, all = before ++ t :: after /\ p_cs st' = widths before /\ p_ce st' = widths before + width t.
Proof.
  intros all st t st' [Hrem Hp] H. unfold p_next in H. destruct (p_peek st) as [pk |] eqn:Epk.
  - injection H as Ht <-. subst pk. destruct Hp as [before (E & Hcs & Hce)]. split.
    + split; [exact Hrem |]. cbn [p_peek p_toks p_ce]. exists (before ++ [t]). rewrite <- app_assoc. cbn [app].
      split; [exact E |]. rewrite widths_app, widths_cons, widths_nil. cbn [p_ce]. lia.
    + exists before, (p_toks st). cbn [p_cs p_ce]. repeat split; assumption.
  - destruct Hp as [before (E & Hce)]. rewrite Hrem in H.
    destruct (next_raw (p_toks st) false (p_ce st)) as [[[[t0 r] rem'] cs] ce'] eqn:En. injection H as -> <-.
    destruct (next_raw_spec _ _ _ _ _ _ _ En) as [ws (Et & Hb & Ht & Hr & Hrem' & Hcs & Hce')]. subst rem'. split.
    + split; [reflexivity |]. cbn [p_peek p_toks p_ce]. exists (before ++ ws ++ [t]). rewrite E, Et. rewrite <- !app_assoc. cbn [app].
      split; [reflexivity |]. rewrite !widths_app, widths_cons, widths_nil. lia.
    + exists (before ++ ws), r. cbn [p_cs p_ce]. rewrite E, Et, <- app_assoc. split; [reflexivity |]. rewrite widths_app. split; lia.
Qed.

(* looking at a token: the same range, and the token stays available *)
Theorem peek_gives_range : forall all st t st', Pos all st -> p_peekt st = (Some t, st') ->
  Pos all st' /\ p_peek st' = Some t /\ exists before after, all = before ++ t :: after /\ p_cs st' = widths before /\ p_ce st' = widths before + width t.
Proof.
  intros all st t st' HP H. unfold p_peekt in H. destruct (p_peek st) as [pk |] eqn:Epk.
  - injection H as Ht <-. subst pk. split; [exact HP |]. split; [exact Epk |]. destruct HP as [_ Hp]. rewrite Epk in Hp.
    destruct Hp as [before (E & Hcs & Hce)]. exists before, (p_toks st). repeat split; assumption.
  - destruct HP as [Hrem Hp]. rewrite Epk in Hp. destruct Hp as [before (E & Hce)].
    unfold p_next in H. rewrite Epk, Hrem in H.
    destruct (next_raw (p_toks st) false (p_ce st)) as [[[[t1 r] rem'] cs] ce'] eqn:Er. injection H as -> <-.
    destruct (next_raw_spec _ _ _ _ _ _ _ Er) as [ws (Et & Hb & Ht & Hrr & -> & Hcs' & Hce')].
    cbn [p_peek p_toks p_cs p_ce p_rem].
    assert (Eall : all = (before ++ ws) ++ t :: r) by (rewrite E, Et, <- app_assoc; reflexivity).
    assert (Hcs2 : cs = widths (before ++ ws)) by (rewrite widths_app; lia).
    split; [| split; [reflexivity | exists (before ++ ws), r; repeat split; [exact Eall | exact Hcs2 | lia]]].
    split; [reflexivity |]. cbn [p_peek p_toks p_cs p_ce]. exists (before ++ ws). repeat split; [exact Eall | exact Hcs2 | lia].
Qed.

Definition is_lnum_lit (l : literal) : option str :=
  match l with LInt s | LSng s | LDbl s => Some s | _ => None end.

(* a line-number operand read at a token-aligned position gets exactly the range of its digits *)
Theorem line_number_operand_range : forall all st e st', Pos all st -> expect_line_number st = Ok (e, st') ->
  Pos all st' /\ exists before l s after n,
    all = before ++ TLit l :: after /\ is_lnum_lit l = Some s /\ parse_u16 s = Some n /\ n <= 65529
    /\ e = lnum_expr (widths before, widths before + lenN s) n.
Proof.
  intros all st e st' HP H. unfold expect_line_number, maybe_line_number, pbind, ppeek in H.
  destruct (p_peekt st) as [pk st1] eqn:Epk.
  destruct pk as [[| | l | | | | | | | |] |]; try discriminate H.
  assert (Hl : exists s, is_lnum_lit l = Some s /\ lit_str l = s
               /\ match match pnext st1 with
                          | Ok (_, st2) => match parse_u16 s with
                                           | Some n => if n <=? 65529 then pret (Some n) else pfail_here E_UndefinedLine
                                           | None => pfail_here E_UndefinedLine end st2
                          | Err e0 => Err e0 | Panic => Panic | Hang => Hang end with
                  | Ok (a, st2) => match a with
                                   | Some num => fun st0 => match pcolm st0 with
                                                            | Ok (a2, st3) => pret (lnum_expr a2 num) st3
                                                            | Err e0 => Err e0 | Panic => Panic | Hang => Hang end
                                   | None => pfail_here E_Syntax end st2
                  | Err e0 => Err e0 | Panic => Panic | Hang => Hang end = Ok (e, st')).
  { destruct l as [s | s | s | s | s | s]; try discriminate H; exists s; repeat split; exact H. }
  clear H. destruct Hl as [s (Hl & Hstr & H0)].
  destruct (peek_gives_range all st (TLit l) st1 HP Epk) as [HP1 [Hpk1 [before [after (E & Hcs & Hce)]]]].
  unfold pnext in H0. unfold p_next in H0. rewrite Hpk1 in H0.
  destruct (parse_u16 s) as [n |] eqn:Eu; [| discriminate H0].
  destruct (N.leb_spec n 65529) as [Hle | Hgt]; [| discriminate H0].
  unfold pret, pcolm, pcol in H0. cbn [p_cs p_ce] in H0. injection H0 as <- <-.
  split.
  - destruct HP1 as [Hr1 Hp1]. rewrite Hpk1 in Hp1. destruct Hp1 as [b1 (E1 & Hcs1 & Hce1)].
    split; [exact Hr1 |]. cbn [p_peek p_toks p_ce]. exists (b1 ++ [TLit l]). rewrite <- app_assoc. cbn [app]. split; [exact E1 |].
    rewrite widths_app, widths_cons, widths_nil. lia.
  - exists before, l, s, after, n. repeat split; try assumption.
    rewrite Hcs, Hce. unfold width. cbn [token_str]. rewrite Hstr. reflexivity.
Qed.

(* the keyword of a WHILE or WEND statement read at a token-aligned position gives the statement exactly its own range *)
Theorem while_wend_keyword_range : forall all st f s st' w st1, Pos all st ->
  p_peekt st = (Some (TWord w), st1) -> (w = WWhile \/ w = WWend) ->
  statement (S f) st = Ok (s, st') ->
  exists before after, all = before ++ TWord w :: after /\
    let c := (widths before, widths before + lenN (word_str w)) in
    match w with WWend => s = SWend c | _ => exists e, s = SWhile c e end.
Proof.
  intros all st f s st' w st1 HP Epk Hw H.
  destruct (peek_gives_range all st (TWord w) st1 HP Epk) as [HP1 [Hpk1 [before [after (E & Hcs & Hce)]]]].
  exists before, after. split; [exact E |]. cbn zeta.
  cbn [statement] in H. unfold pbind at 1 in H. unfold ppeek at 1 in H. rewrite Epk in H.
  unfold pbind at 1 in H. unfold pnext at 1 in H. unfold p_next in H. rewrite Hpk1 in H.
  unfold pbind at 1 in H. unfold pcolm at 1 in H. unfold pcol in H. cbn [p_cs p_ce] in H.
  rewrite Hcs, Hce in H. unfold width in H. cbn [token_str] in H.
  destruct Hw as [-> | ->].
  - unfold pbind in H. destruct (expression f _) as [[e st2] | | |]; try discriminate H. injection H as <- _. exists e. reflexivity.
  - injection H as <- _. reflexivity.
Qed.

(* ---------- every parser function leaves the parser token-aligned ---------- *)
(* behind the last token (or behind a remark, which swallows the rest of the line) nothing is handed out any more *)
Definition At (all : list token) (st : pst) : Prop := Pos all st \/ (p_peek st = None /\ p_toks st = []).

Lemma next_raw_nil : forall rem ce, next_raw [] rem ce = (None, [], rem, ce, ce).
Proof. reflexivity. Qed.

Lemma next_raw_none : forall toks rem ce t r rem' cs ce', next_raw toks rem ce = (t, r, rem', cs, ce') -> t = None -> r = [].
Proof.
  induction toks as [| x toks IH]; intros rem ce t r rem' cs ce' H Ht; cbn [next_raw] in H; [injection H as _ <- _ _ _; reflexivity |].
  destruct (rem || is_rem_tok x); [exact (IH _ _ _ _ _ _ _ H Ht) |].
  destruct x; try (injection H as <- _ _ _ _; discriminate Ht). exact (IH _ _ _ _ _ _ _ H Ht).
Qed.

Lemma at_next : forall all st t st', At all st -> p_next st = (t, st') -> At all st'.
Proof.
  intros all st t st' HA H. destruct t as [t |].
  - destruct HA as [HP | [Hpk Hto]]; [left; exact (proj1 (next_gives_range all st t st' HP H)) |].
    unfold p_next in H. rewrite Hpk, Hto in H. cbn in H. discriminate H.
  - right. unfold p_next in H. destruct (p_peek st) as [pk |] eqn:Epk; [discriminate H |].
    destruct (next_raw (p_toks st) (p_rem st) (p_ce st)) as [[[[t0 r] rem'] cs] ce'] eqn:En. injection H as -> <-.
    cbn [p_peek p_toks]. split; [reflexivity | exact (next_raw_none _ _ _ _ _ _ _ _ En eq_refl)].
Qed.

Lemma at_peek : forall all st t st', At all st -> p_peekt st = (t, st') -> At all st'.
Proof.
  intros all st t st' HA H. destruct t as [t |].
  - destruct HA as [HP | [Hpk Hto]]; [left; exact (proj1 (peek_gives_range all st t st' HP H)) |].
    unfold p_peekt, p_next in H. rewrite Hpk, Hto in H. cbn in H. discriminate H.
  - right. unfold p_peekt in H. destruct (p_peek st) as [pk |] eqn:Epk; [discriminate H |].
    destruct (p_next st) as [t0 st1] eqn:En. injection H as -> <-. cbn [p_peek p_toks].
    destruct (at_next all st None st1 HA En) as [[Hr Hp] | [H1 H2]].
    + (* st1 is aligned and empty-handed: its rest is empty as well *)
      unfold p_next in En. rewrite Epk in En.
      destruct (next_raw (p_toks st) (p_rem st) (p_ce st)) as [[[[t0 r] rem'] cs] ce'] eqn:Er. injection En as -> <-.
      split; [reflexivity | exact (next_raw_none _ _ _ _ _ _ _ _ Er eq_refl)].
    + split; [reflexivity | exact H2].
Qed.

Lemma at_some_is_pos : forall all st t st', At all st -> p_peekt st = (Some t, st') -> Pos all st.
Proof.
  intros all st t st' [HP | [Hpk Hto]] H; [exact HP |]. unfold p_peekt, p_next in H. rewrite Hpk, Hto in H. cbn in H. discriminate H.
Qed.

Section Keeps.
Variable all : list token.

Definition keeps {A} (m : P A) : Prop := forall st a st', At all st -> m st = Ok (a, st') -> At all st'.

Lemma keeps_ret {A} (a : A) : keeps (pret a).
Proof. intros st a0 st' H E. injection E as _ <-. exact H. Qed.
Lemma keeps_bind {A B} (m : P A) (f : A -> P B) : keeps m -> (forall a, keeps (f a)) -> keeps (pbind m f).
Proof.
  intros Hm Hf st b st' H E. unfold pbind in E. destruct (m st) as [[a st1] | | |] eqn:Em; try discriminate E.
  exact (Hf a st1 b st' (Hm st a st1 H Em) E).
Qed.
Lemma keeps_fail {A} code c : keeps (@pfail A code c).
Proof. intros st a st' _ E. discriminate E. Qed.
Lemma keeps_fail_here {A} code : keeps (@pfail_here A code).
Proof. intros st a st' _ E. discriminate E. Qed.
Lemma keeps_pnext : keeps pnext.
Proof. intros st a st' H E. unfold pnext in E. injection E as E. exact (at_next all st a st' H E). Qed.
Lemma keeps_ppeek : keeps ppeek.
Proof. intros st a st' H E. unfold ppeek in E. injection E as E. exact (at_peek all st a st' H E). Qed.
Lemma keeps_pcolm : keeps pcolm.
Proof. intros st a st' H E. injection E as _ <-. exact H. Qed.
Lemma keeps_const {A} (x : res (A * pst)) : (forall a st', x <> Ok (a, st')) -> keeps (fun _ => x).
Proof. intros Hx st a st' _ E. exfalso. exact (Hx a st' E). Qed.
Lemma keeps_hang {A} : keeps (fun _ : pst => @Hang (A * pst)).
Proof. intros st a st' _ E. discriminate E. Qed.

Ltac kp_step :=
  lazymatch goal with
  | |- keeps (pret _) => apply keeps_ret
  | |- keeps (pbind _ _) => apply keeps_bind; [ | intros ?]
  | |- keeps (pfail _ _) => apply keeps_fail
  | |- keeps (pfail_here _) => apply keeps_fail_here
  | |- keeps pnext => apply keeps_pnext
  | |- keeps ppeek => apply keeps_ppeek
  | |- keeps pcolm => apply keeps_pcolm
  | |- keeps (fun _ => Hang) => apply keeps_hang
  | |- keeps (if ?b then _ else _) => destruct b
  | |- keeps (match ?x with _ => _ end) => destruct x
  | |- keeps (let '(_, _) := ?x in _) => destruct x
  | |- _ => solve [auto with kp]
  end.
Ltac kp := repeat kp_step.

Lemma keeps_maybe t : keeps (maybe t). Proof. unfold maybe. kp. Qed.
Lemma keeps_expect t : keeps (expect t). Proof. unfold expect. kp. Qed.
Hint Resolve keeps_maybe keeps_expect : kp.

Lemma keeps_lift {A} (x : res A) : keeps (fun st => match x with Ok e => Ok (e, st) | Err e => Err e | Panic => Panic | Hang => Hang end).
Proof. intros st a st' H E. destruct x; try discriminate E. injection E as _ <-. exact H. Qed.

Lemma keeps_exprs : forall fuel,
  (forall vm prec, keeps (descend fuel vm prec)) /\ (forall vm prec lhs, keeps (climb fuel vm prec lhs)) /\ (forall vm, keeps (expr_list fuel vm)).
Proof.
  induction fuel as [| f (IHd & IHc & IHl)]; [repeat split; intros; cbn; apply keeps_hang |].
  repeat split.
  - intros vm prec. cbn [descend]. apply keeps_bind; [apply keeps_pnext | intros t]. apply keeps_bind; [| intros lhs; apply IHc].
    destruct t as [[| | l | | o | id | | | | |] |]; try apply keeps_fail_here.
    + apply keeps_bind; [apply keeps_pcolm | intros c]. apply keeps_lift.
    + destruct o; try apply keeps_fail_here; kp.
    + kp.
    + kp.
  - intros vm prec lhs. cbn [climb]. kp.
  - intros vm. cbn [expr_list]. kp.
Qed.
Lemma keeps_descend fuel vm prec : keeps (descend fuel vm prec). Proof. apply keeps_exprs. Qed.
Lemma keeps_expr_list fuel vm : keeps (expr_list fuel vm). Proof. apply keeps_exprs. Qed.
Lemma keeps_expression fuel : keeps (expression fuel). Proof. apply keeps_descend. Qed.
Hint Resolve keeps_descend keeps_expr_list keeps_expression : kp.

Lemma keeps_expect_ident : keeps expect_ident. Proof. unfold expect_ident. kp. Qed.
Hint Resolve keeps_expect_ident : kp.
Lemma keeps_ident_list fuel b : keeps (ident_list fuel b).
Proof. revert b. induction fuel as [| f IH]; intros b; cbn [ident_list]; [apply keeps_hang |]. kp. Qed.
Lemma keeps_expect_var fuel : keeps (expect_var fuel). Proof. unfold expect_var. kp. Qed.
Hint Resolve keeps_ident_list keeps_expect_var : kp.
Lemma keeps_var_list fuel : keeps (var_list fuel).
Proof. induction fuel as [| f IH]; cbn [var_list]; [apply keeps_hang |]. kp. Qed.
Hint Resolve keeps_var_list : kp.

Lemma keeps_maybe_line_number : keeps maybe_line_number. Proof. unfold maybe_line_number. kp. Qed.
Hint Resolve keeps_maybe_line_number : kp.
Lemma keeps_expect_line_number : keeps expect_line_number. Proof. unfold expect_line_number. kp. Qed.
Hint Resolve keeps_expect_line_number : kp.
Lemma keeps_line_number_list fuel b : keeps (line_number_list fuel b).
Proof. revert b. induction fuel as [| f IH]; intros b; cbn [line_number_list]; [apply keeps_hang |]. kp. Qed.
Lemma keeps_line_number_range : keeps line_number_range. Proof. unfold line_number_range. kp. Qed.
Lemma keeps_var_range : keeps var_range. Proof. unfold var_range. kp. Qed.
Lemma keeps_print_list fuel b : keeps (print_list fuel b).
Proof. revert b. induction fuel as [| f IH]; intros b; cbn [print_list]; [apply keeps_hang |]. kp. Qed.
Lemma keeps_skip_to_end fuel : keeps (skip_to_end fuel).
Proof. induction fuel as [| f IH]; cbn [skip_to_end]; [apply keeps_hang |]. kp. Qed.
Lemma keeps_renum_start d : keeps (renum_start d). Proof. unfold renum_start. kp. Qed.
Hint Resolve keeps_line_number_list keeps_line_number_range keeps_var_range keeps_print_list keeps_skip_to_end keeps_renum_start : kp.

Lemma keeps_stmts : forall fuel,
  keeps (statement fuel) /\ (forall b, keeps (st_let fuel b)) /\ (forall b, keeps (statements fuel b)).
Proof.
  induction fuel as [| f (IHs & IHl & IHss)]; [repeat split; intros; cbn; apply keeps_hang |].
  repeat split.
  - cbn [statement]. apply keeps_bind; [apply keeps_ppeek | intros pk].
    destruct pk as [[| | | w | | | | | | |] |]; try apply keeps_fail_here; try (apply IHl).
    apply keeps_bind; [apply keeps_pnext | intros _]. apply keeps_bind; [apply keeps_pcolm | intros c].
    destruct w; kp.
  - intros b. cbn [st_let]. kp.
  - intros b. cbn [statements]. kp.
Qed.

(* the whole line: wherever the parser stops, it stands at a token boundary of the line it was given *)
Theorem parser_stays_aligned : forall fuel b st l st', At all st -> statements fuel b st = Ok (l, st') -> At all st'.
Proof. intros fuel b st l st' H E. exact (proj2 (proj2 (keeps_stmts fuel)) b st l st' H E). Qed.
End Keeps.
Create HintDb kp.
#[export] Hint Resolve keeps_maybe keeps_expect keeps_descend keeps_expr_list keeps_expression keeps_expect_ident keeps_ident_list
  keeps_expect_var keeps_var_list keeps_maybe_line_number keeps_expect_line_number keeps_line_number_list keeps_line_number_range
  keeps_var_range keeps_print_list keeps_skip_to_end keeps_renum_start keeps_pnext keeps_ppeek keeps_pcolm : kp.

Ltac kpg_step :=
  lazymatch goal with
  | |- keeps _ (pret _) => apply keeps_ret
  | |- keeps _ (pbind _ _) => apply keeps_bind; [ | intros ?]
  | |- keeps _ (pfail _ _) => apply keeps_fail
  | |- keeps _ (pfail_here _) => apply keeps_fail_here
  | |- keeps _ (fun _ => Hang) => apply keeps_hang
  | |- keeps _ (if ?b then _ else _) => destruct b
  | |- keeps _ (match ?x with _ => _ end) => destruct x
  | |- keeps _ (let '(_, _) := ?x in _) => destruct x
  | |- _ => solve [auto with kp]
  end.
Ltac kpg := repeat kpg_step.

(* ---------- what the ranges stored in the tree are ---------- *)
Definition num_range (all : list token) (c : col) : Prop :=
  exists before l s after, all = before ++ TLit l :: after /\ is_lnum_lit l = Some s /\ c = (widths before, widths before + lenN s).
Definition word_range (all : list token) (w : word) (c : col) : Prop :=
  exists before after, all = before ++ TWord w :: after /\ c = (widths before, widths before + lenN (word_str w)).

(* a branch target: always a number token of the line *)
Definition good_lnum (all : list token) (e : expr) : Prop :=
  match e with ESng c _ => num_range all c | _ => False end.
(* an optional target (RESTORE, RUN): a number token of the line, or the marker for "none" *)
Definition good_target (all : list token) (e : expr) : Prop :=
  match e with ESng c b => b = f32_of_Z (-1) \/ num_range all c | EStr _ _ => True | _ => False end.

(* an end of a LIST / DELETE range: a number token of the line, or an empty range standing for an omitted end *)
Definition good_end (all : list token) (e : expr) : Prop :=
  match e with ESng c _ => fst c = snd c \/ num_range all c | _ => False end.

Fixpoint good_stmt (all : list token) (s : stmt) : Prop :=
  match s with
  | SGoto _ e | SGosub _ e => good_lnum all e
  | SDelete _ a b | SList _ a b => good_end all a /\ good_end all b
  | SOnGoto _ _ l | SOnGosub _ _ l => Forall (good_lnum all) l
  | SRestore _ e | SRun _ e => good_target all e
  | SWhile c _ => word_range all WWhile c
  | SWend c => word_range all WWend c
  | SIf _ _ th el =>
      (fix go (l : list stmt) : Prop := match l with [] => True | x :: r => good_stmt all x /\ go r end) th
      /\ (fix go (l : list stmt) : Prop := match l with [] => True | x :: r => good_stmt all x /\ go r end) el
  | _ => True
  end.
Fixpoint good_stmts (all : list token) (l : list stmt) : Prop :=
  match l with [] => True | x :: r => good_stmt all x /\ good_stmts all r end.

Section Gives.
Variable all : list token.

(* triples over the parser monad: from an aligned state satisfying Pre, a successful result satisfies Post *)
Definition triple {A} (Pre : pst -> Prop) (m : P A) (Post : A -> pst -> Prop) : Prop :=
  forall st a st', At all st -> Pre st -> m st = Ok (a, st') -> At all st' /\ Post a st'.

Lemma triple_bind {A B} Pre (m : P A) Mid (f : A -> P B) Post :
  triple Pre m Mid -> (forall a, triple (Mid a) (f a) Post) -> triple Pre (pbind m f) Post.
Proof.
  intros Hm Hf st b st' HA HP E. unfold pbind in E. destruct (m st) as [[a st1] | | |] eqn:Em; try discriminate E.
  destruct (Hm st a st1 HA HP Em) as [HA1 HM]. exact (Hf a st1 b st' HA1 HM E).
Qed.
Lemma triple_ret {A} (Pre : pst -> Prop) (a : A) (Post : A -> pst -> Prop) : (forall st, Pre st -> Post a st) -> triple Pre (pret a) Post.
Proof. intros H st a0 st' HA HP E. injection E as <- <-. split; [exact HA | exact (H st HP)]. Qed.
Lemma triple_fail {A} Pre code c Post : triple Pre (@pfail A code c) Post.
Proof. intros st a st' _ _ E. discriminate E. Qed.
Lemma triple_fail_here {A} Pre code Post : triple Pre (@pfail_here A code) Post.
Proof. intros st a st' _ _ E. discriminate E. Qed.
Lemma triple_hang {A} Pre Post : triple Pre (fun _ : pst => @Hang (A * pst)) Post.
Proof. intros st a st' _ _ E. discriminate E. Qed.
(* an action about which only alignment is known *)
Lemma triple_keeps {A} Pre (m : P A) : keeps all m -> triple Pre m (fun _ _ => True).
Proof. intros Hk st a st' HA _ E. split; [exact (Hk st a st' HA E) | exact I]. Qed.
Lemma triple_weaken {A} (Pre Pre' : pst -> Prop) (m : P A) (Post Post' : A -> pst -> Prop) :
  (forall st, Pre' st -> Pre st) -> (forall a st, Post a st -> Post' a st) -> triple Pre m Post -> triple Pre' m Post'.
Proof. intros H1 H2 H st a st' HA HP E. destruct (H st a st' HA (H1 st HP) E) as [HA' HQ]. split; [exact HA' | exact (H2 a st' HQ)]. Qed.
Lemma triple_pcolm Pre : triple Pre pcolm (fun c st => c = pcol st /\ Pre st).
Proof. intros st a st' HA HP E. injection E as <- <-. split; [exact HA | split; [reflexivity | exact HP]]. Qed.

(* the two readers of line numbers *)
Lemma triple_expect_line_number Pre : triple Pre expect_line_number (fun e _ => good_lnum all e).
Proof.
  intros st e st' HA _ E.
  assert (HP : Pos all st).
  { unfold expect_line_number, maybe_line_number, pbind, ppeek in E. destruct (p_peekt st) as [[t |] st1] eqn:Epk; [| discriminate E].
    exact (at_some_is_pos all st t st1 HA Epk). }
  destruct (line_number_operand_range all st e st' HP E) as [HP' [before [l [s [after [n (Eall & Hl & _ & _ & ->)]]]]]].
  split; [left; exact HP' |]. cbn [good_lnum lnum_expr]. exists before, l, s, after. repeat split; assumption.
Qed.

Lemma triple_maybe_line_number Pre :
  triple Pre maybe_line_number (fun n st => match n with Some _ => num_range all (pcol st) | None => True end).
Proof.
  intros st n st' HA _ E. split; [exact (keeps_maybe_line_number all st n st' HA E) |].
  destruct n as [n |]; [| exact I].
  (* read through expect_line_number, which stores the column it finds *)
  assert (E2 : expect_line_number st = Ok (lnum_expr (pcol st') n, st')).
  { unfold expect_line_number, pbind. rewrite E. reflexivity. }
  destruct (triple_expect_line_number (fun _ => True) st _ st' HA I E2) as [_ H]. exact H.
Qed.

Lemma triple_bind_pure {A B} Pre (m : P A) (Q : A -> Prop) (f : A -> P B) Post :
  triple Pre m (fun a _ => Q a) -> (forall a, Q a -> triple (fun _ => True) (f a) Post) -> triple Pre (pbind m f) Post.
Proof.
  intros Hm Hf. apply (triple_bind Pre m (fun a _ => Q a)); [exact Hm |]. intros a st b st' HA HQ E. exact (Hf a HQ st b st' HA I E).
Qed.

Lemma good_if : forall c p th el, good_stmt all (SIf c p th el) <-> good_stmts all th /\ good_stmts all el.
Proof.
  intros c p th el. cbn [good_stmt].
  assert (G : forall l, (fix go (l : list stmt) : Prop := match l with [] => True | x :: r => good_stmt all x /\ go r end) l <-> good_stmts all l).
  { induction l as [| x r IH]; cbn [good_stmts]; [tauto |]. rewrite IH. tauto. }
  rewrite !G. tauto.
Qed.

Ltac tp_ret := apply triple_ret; intros ? ?; cbn [good_stmt good_stmts good_lnum good_target lnum_expr]; try tauto.

Ltac tp_step :=
  lazymatch goal with
  | |- triple _ (pret _) _ => tp_ret
  | |- triple _ (pbind expect_line_number _) _ =>
      apply (triple_bind_pure _ expect_line_number (good_lnum all)); [apply triple_expect_line_number | intros ? ?]
  | |- triple _ (pbind maybe_line_number _) _ =>
      apply (triple_bind _ maybe_line_number _ _ _ (triple_maybe_line_number _)); intros ?
  | |- triple _ (pbind pcolm _) _ => apply (triple_bind _ pcolm _ _ _ (triple_pcolm _)); intros ?
  | |- triple _ (pbind _ _) _ => apply (triple_bind _ _ (fun _ _ => True)); [apply triple_keeps; solve [auto with kp] | intros ?]
  | |- triple _ (pfail _ _) _ => apply triple_fail
  | |- triple _ (pfail_here _) _ => apply triple_fail_here
  | |- triple _ (fun _ => Hang) _ => apply triple_hang
  | |- triple _ (if ?b then _ else _) _ => destruct b
  | |- triple _ (match ?x with _ => _ end) _ => destruct x
  | |- triple _ (let '(_, _) := ?x in _) _ => destruct x
  end.
Ltac tp := repeat tp_step.

Lemma triple_line_number_list : forall fuel b Pre, triple Pre (line_number_list fuel b) (fun l _ => Forall (good_lnum all) l).
Proof.
  induction fuel as [| f IH]; intros b Pre; cbn [line_number_list]; [apply triple_hang |].
  apply (triple_bind _ _ (fun _ _ => True)); [apply triple_keeps; auto with kp | intros pk].
  destruct (at_end pk && negb b); [apply triple_ret; intros; constructor |].
  apply (triple_bind_pure _ expect_line_number (good_lnum all)); [apply triple_expect_line_number | intros e He].
  apply (triple_bind _ _ (fun _ _ => True)); [apply triple_keeps; auto with kp | intros more].
  destruct more; [| apply triple_ret; intros; constructor; [exact He | constructor]].
  apply (triple_bind_pure _ _ (Forall (good_lnum all))); [apply IH | intros l Hl]. apply triple_ret. intros. constructor; assumption.
Qed.

Lemma triple_line_number_range Pre :
  triple Pre line_number_range (fun r _ => good_end all (fst r) /\ good_end all (snd r)).
Proof.
  unfold line_number_range.
  apply (triple_bind _ pcolm _ _ _ (triple_pcolm _)). intros c0.
  apply (triple_bind _ maybe_line_number _ _ _ (triple_maybe_line_number _)). intros fo.
  (* the first end: its column is noted right behind the number *)
  apply (triple_bind _ pcolm (fun c1 _ => match fo with Some _ => num_range all c1 | None => True end)).
  { intros st c1 st' HA HP E. injection E as <- <-. split; [exact HA |]. destruct fo; [exact HP | exact I]. }
  intros c1.
  assert (Hrest : forall from_num to_num0 from, good_end all from ->
            triple (fun _ => True)
              (pdo dash <~ maybe (TOp OMinus) ;;
               pdo r <~ (if dash then
                           pdo t <~ maybe_line_number ;;
                           pdo c2 <~ pcolm ;;
                           match t with
                           | Some n => pret (n, lnum_expr c2 n)
                           | None => pret (65529, lnum_expr (fst c2, fst c2) 65529)
                           end
                         else
                           pdo c2 <~ pcolm ;; pret (to_num0, lnum_expr (fst c2, fst c2) to_num0)) ;;
               let '(to_num, to) := r in
               pdo c3 <~ pcolm ;;
               if to_num <? from_num then pfail E_UndefinedLine (fst c0, snd c3) else pret (from, to))
              (fun r _ => good_end all (fst r) /\ good_end all (snd r))).
  { intros from_num to_num0 from Hfrom.
    apply (triple_bind _ _ (fun _ _ => True)); [apply triple_keeps; apply keeps_maybe | intros dash].
    apply (triple_bind _ _ (fun r _ => good_end all (snd r))).
    { destruct dash.
      - intros st r st' HA HP E. unfold pbind in E.
        destruct (maybe_line_number st) as [[t st1] | | |] eqn:Em; try discriminate E.
        destruct (triple_maybe_line_number (fun _ => True) st t st1 HA I Em) as [HA1 Ht].
        unfold pcolm in E. destruct t as [n |]; unfold pret in E; injection E as <- <-; (split; [exact HA1 |]);
          cbn [snd good_end lnum_expr fst]; [right; exact Ht | left; reflexivity].
      - intros st r st' HA HP E. unfold pbind, pcolm, pret in E. injection E as <- <-. split; [exact HA |].
        cbn [snd good_end lnum_expr fst]. left. reflexivity. }
    intros [to_num to]. cbn [fst snd].
    apply (triple_bind _ pcolm _ _ _ (triple_pcolm _)). intros c3.
    match goal with |- triple _ (if ?b then _ else _) _ => destruct b end; [apply triple_fail |].
    apply triple_ret. intros st [_ H]. cbn [fst snd]. split; [exact Hfrom | exact H]. }
  destruct fo as [n |].
  - intros st r st' HA HP E. assert (Hg : good_end all (lnum_expr c1 n)) by (cbn [good_end lnum_expr]; right; exact HP).
    exact (Hrest n n (lnum_expr c1 n) Hg st r st' HA I E).
  - intros st r st' HA HP E. assert (Hg : good_end all (lnum_expr (fst c1, fst c1) 0)) by (cbn [good_end lnum_expr fst snd]; left; reflexivity).
    exact (Hrest 0 65529 (lnum_expr (fst c1, fst c1) 0) Hg st r st' HA I E).
Qed.

(* the head of a statement: the word is looked at, taken, and its range noted *)
Definition tok_range (t : token) (c : col) : Prop :=
  exists before after, all = before ++ t :: after /\ c = (widths before, widths before + width t).
Lemma tok_range_word : forall w c, tok_range (TWord w) c -> word_range all w c.
Proof. intros w c [before [after [E ->]]]. exists before, after. split; [exact E | reflexivity]. Qed.

Definition Peeked (pk : option token) (st : pst) : Prop :=
  match pk with Some t => Pos all st /\ p_peek st = Some t | None => True end.

Lemma triple_ppeek Pre : triple Pre ppeek Peeked.
Proof.
  intros st pk st' HA _ E. unfold ppeek in E. injection E as E. split; [exact (at_peek all st pk st' HA E) |].
  destruct pk as [t |]; [| exact I]. cbn [Peeked].
  destruct (peek_gives_range all st t st' (at_some_is_pos all st t st' HA E) E) as [HP [Hpk _]]. split; assumption.
Qed.

Lemma triple_pnext_peeked t : triple (Peeked (Some t)) pnext (fun _ st => tok_range t (pcol st)).
Proof.
  intros st a st' HA [HP Hpk] E. unfold pnext in E. injection E as E. split; [exact (at_next all st a st' HA E) |].
  unfold p_next in E. rewrite Hpk in E. injection E as <- <-. destruct HP as [_ Hp]. rewrite Hpk in Hp.
  destruct Hp as [before (Eall & Hcs & Hce)]. exists before, (p_toks st). unfold pcol. cbn [p_cs p_ce]. rewrite Hcs, Hce. split; [exact Eall | reflexivity].
Qed.

Lemma triple_pcolm_pure {B} (Q : col -> Prop) (f : col -> P B) Post :
  (forall c, Q c -> triple (fun _ => True) (f c) Post) -> triple (fun st => Q (pcol st)) (pbind pcolm f) Post.
Proof.
  intros H st b st' HA HQ E. unfold pbind, pcolm in E. exact (H (pcol st) HQ st b st' HA I E).
Qed.

Ltac tp_close :=
  let st := fresh "st" in let HPre := fresh "HPre" in
  intros st HPre; cbn [good_stmt good_stmts];
  first [ tauto
        | apply tok_range_word; assumption
        | apply good_if; split; assumption
        | cbn [good_lnum good_target lnum_expr];
          first [ tauto
                | destruct HPre as [-> HPre];
                  repeat match goal with n : option N |- _ => destruct n end;
                  cbn [good_stmt good_stmts good_lnum good_target lnum_expr] in *;
                  first [ assumption | right; assumption | left; reflexivity | tauto | split; [assumption | exact I] ] ] ].

Theorem triple_stmts : forall fuel,
  (forall Pre, triple Pre (statement fuel) (fun s _ => good_stmt all s))
  /\ (forall b Pre, triple Pre (st_let fuel b) (fun s _ => good_stmt all s))
  /\ (forall b Pre, triple Pre (statements fuel b) (fun l _ => good_stmts all l)).
Proof.
  induction fuel as [| f (IHs & IHl & IHss)]; [split; [intros Pre | split; intros b Pre]; apply triple_hang |].
  assert (Hkl : forall b, keeps all (st_let f b)) by (intros b; apply (keeps_stmts all f)).
  assert (Hks : forall b, keeps all (statements f b)) by (intros b; apply (keeps_stmts all f)).
  assert (Hk1 : keeps all (statement f)) by (apply (keeps_stmts all f)).
  Ltac tp2_step IHl IHss :=
    lazymatch goal with
    | |- triple _ (pret _) _ => apply triple_ret; tp_close
    | |- triple _ (st_let _ _) _ => apply IHl
    | |- triple _ (statements _ _) _ => apply IHss
    | |- triple _ (pbind expect_line_number _) _ =>
        apply (triple_bind_pure _ expect_line_number (good_lnum all)); [apply triple_expect_line_number | intros ? ?]
    | |- triple _ (pbind maybe_line_number _) _ =>
        apply (triple_bind _ maybe_line_number _ _ _ (triple_maybe_line_number _)); intros ?
    | |- triple _ (pbind (line_number_list _ _) _) _ =>
        apply (triple_bind_pure _ _ (Forall (good_lnum all))); [apply triple_line_number_list | intros ? ?]
    | |- triple _ (@pbind (list stmt) _ _ _) _ =>
        apply (triple_bind_pure _ _ (good_stmts all)); [ | intros ? ?]
    | |- triple _ (pbind pcolm _) _ => apply (triple_bind _ pcolm _ _ _ (triple_pcolm _)); intros ?
    | |- triple _ (pbind _ _) _ => apply (triple_bind _ _ (fun _ _ => True)); [apply triple_keeps; kpg | intros ?]
    | |- triple _ (pfail _ _) _ => apply triple_fail
    | |- triple _ (pfail_here _) _ => apply triple_fail_here
    | |- triple _ (fun _ => Hang) _ => apply triple_hang
    | |- triple _ (if ?b then _ else _) _ => destruct b
    | |- triple _ (match ?x with _ => _ end) _ => destruct x
    | |- triple _ (let '(_, _) := ?x in _) _ => destruct x
    end.
  split; [| split].
  - intros Pre. cbn [statement]. apply (triple_bind _ ppeek _ _ _ (triple_ppeek _)). intros pk.
    destruct pk as [[| | | w | | | | | | |] |]; try apply triple_fail_here; try (apply IHl).
    apply (triple_bind _ pnext _ _ _ (triple_pnext_peeked (TWord w))). intros _.
    apply (triple_pcolm_pure (tok_range (TWord w))). intros c Hc.
    destruct w.
    all: try solve [repeat tp2_step IHl IHss].
    (* DELETE *)
    { apply (triple_bind_pure _ line_number_range (fun r => good_end all (fst r) /\ good_end all (snd r))); [apply triple_line_number_range |].
      intros [a b] [Ha Hb]. cbn [fst snd] in *.
      assert (Hok : triple (fun _ => True) (pret (SDelete c a b)) (fun s _ => good_stmt all s))
        by (apply triple_ret; intros; cbn [good_stmt]; split; assumption).
      destruct a as [? ? | ? ? ? | ca ba | ? ? | ? ? | ? ? | ? ? | ? ? | ? ? ? ?]; try exact Hok.
      destruct ca as [a1 a2]. destruct b as [? ? | ? ? ? | cb bb | ? ? | ? ? | ? ? | ? ? | ? ? | ? ? ? ?]; try exact Hok.
      destruct cb as [b1 b2]. match goal with |- triple _ (if ?x then _ else _) _ => destruct x end; [apply triple_fail | exact Hok]. }
    2:{ (* LIST *)
      apply (triple_bind_pure _ line_number_range (fun r => good_end all (fst r) /\ good_end all (snd r))); [apply triple_line_number_range |].
      intros r [Ha Hb]. apply triple_ret. intros. cbn [good_stmt]. split; assumption. }
    (* IF *)
    assert (Hret : forall (c2 : col) (num : N) Q,
              triple (fun st => c2 = pcol st /\ (match Some num with Some _ => num_range all (pcol st) | None => True end) /\ Q st)
                     (pret [SGoto c (lnum_expr c2 num)]) (fun l _ => good_stmts all l)).
    { intros c2 num Q. apply triple_ret. intros st (-> & H & _). cbn [good_stmts good_stmt good_lnum lnum_expr]. split; [exact H | exact I]. }
    tp2_step IHl IHss. tp2_step IHl IHss. tp2_step IHl IHss.
    + tp2_step IHl IHss.
      * repeat tp2_step IHl IHss.
      * tp2_step IHl IHss. tp2_step IHl IHss. tp2_step IHl IHss.
        -- tp2_step IHl IHss. apply triple_ret. intros st [-> HH]. cbn [good_stmts good_stmt good_lnum lnum_expr]. split; [exact HH | exact I].
        -- apply IHss.
    + tp2_step IHl IHss. tp2_step IHl IHss.
      * tp2_step IHl IHss.
        -- tp2_step IHl IHss. tp2_step IHl IHss.
           ++ tp2_step IHl IHss. apply triple_ret. intros st [-> HH]. cbn [good_stmts good_stmt good_lnum lnum_expr]. split; [exact HH | exact I].
           ++ apply IHss.
        -- apply triple_ret. intros. exact I.
      * apply triple_ret. intros. apply good_if. split; assumption.
  - intros b Pre. cbn [st_let]. repeat tp2_step IHl IHss.
  - intros b Pre. cbn [statements]. tp2_step IHl IHss.
    assert (Hgo : triple (fun _ => True)
              (if b then pfail_here E_Syntax else pdo s <~ statement f ;; pdo l <~ statements f true ;; pret (s :: l))
              (fun l _ => good_stmts all l)).
    { destruct b; [apply triple_fail_here |].
      apply (triple_bind_pure _ _ (good_stmt all)); [apply IHs | intros s Hs].
      apply (triple_bind_pure _ _ (good_stmts all)); [apply IHss | intros l Hl].
      apply triple_ret. intros. cbn [good_stmts]. split; assumption. }
    match goal with |- triple _ (match ?x with _ => _ end) _ => destruct x as [[| | | w | | | | | | |] |] end;
      try exact Hgo; try (apply triple_ret; intros; exact I).
    + destruct w; try exact Hgo. apply triple_ret; intros; exact I.
    + tp2_step IHl IHss. apply IHss.
Qed.

End Gives.

(* ---------- the whole line ---------- *)
Theorem parse_columns_exact : forall n toks l, parse n toks = Ok l -> good_stmts toks l.
Proof.
  intros n toks l H. unfold parse in H.
  destruct (p_peekt (mkP toks None false 0 0)) as [pk st1] eqn:Epk.
  assert (HA1 : At toks st1) by (exact (at_peek toks _ pk st1 (or_introl (pos_start toks)) Epk)).
  assert (G : forall x, match x with Ok (l0, _) => Ok l0 | Err e => Err e | Panic => Panic | Hang => Hang end = Ok l ->
              x = statements (parse_fuel toks) false st1 -> good_stmts toks l).
  { intros x Hx ->. destruct (statements (parse_fuel toks) false st1) as [[l0 st2] | | |] eqn:Es; try discriminate Hx.
    injection Hx as <-. exact (proj2 (proj2 (proj2 (triple_stmts toks (parse_fuel toks))) false (fun _ => True) st1 l0 st2 HA1 I Es)). }
  match type of H with match ?r0 with Err e => _ | _ => _ end = _ => set (r := r0) in H end.
  assert (Hr : r = Ok l) by (destruct r; try discriminate H; exact H).
  unfold r in Hr. clear H r.
  destruct pk as [[| | [s | s | s | s | s | s] | | | | | | | |] |]; try discriminate Hr; exact (G _ Hr eq_refl).
Qed.

(* non-vacuity: a line with multi-byte text in front of its branches; the stored ranges cut the digits out of the listed text *)
From BL Require Import Lang.Lex.
Require Import String.
Definition cols_demo_src : str := s2l "PRINT ""é日"":IF A THEN 100 ELSE GOSUB 2000".
Definition cols_demo_toks : list token := match lex cols_demo_src with Ok (_, ts) => ts | _ => [] end.
Definition cut (text : str) (c : col) : str := firstnN (snd c - fst c) (skipnN (fst c) text).
Definition branch_cols (l : list stmt) : list col :=
  flat_map (fun s => match s with
                     | SIf _ _ [SGoto _ (ESng a _)] [SGosub _ (ESng b _)] => [a; b]
                     | _ => []
                     end) l.
Example cols_demo :
  match parse None cols_demo_toks with
  | Ok l => map (cut (tokens_str cols_demo_toks)) (branch_cols l) = [s2l "100"; s2l "2000"] /\ branch_cols l = [(24, 27); (39, 43)]
  | _ => False
  end.
Proof. vm_compute. split; reflexivity. Qed.
