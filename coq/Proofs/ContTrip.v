(* C13 -- the interrupt / CONT round trip at the API: after interrupt(), the calls that report ?BREAK and show the
   prompt, and the direct line CONT, the machine is the interrupted one again (up to the cursor column, the emptied
   continuation slot, the trace marker and the direct-code area), for every machine whose program is linked. *)
From BL Require Import Base.Prelude Lang.Token Lang.Ast Lang.Parse Mach.Val Mach.Compile Mach.Listing Mach.Runtime Proofs.Slicing.
From Coq Require Import Lia.
Local Open Scope N_scope.

(* what Program::link leaves behind *)
Record Linked (p : program) : Prop := mkLinked {
  lk_unl : l_unlinked (pg_link p) = [];
  lk_wh : l_whiles (pg_link p) = [];
  lk_cur : l_cur (pg_link p) = 0%Z;
  lk_syms : filter (fun e => (0 <=? fst e)%Z) (l_syms (pg_link p)) = l_syms (pg_link p);
  lk_addr : forallb (fun e => fst (snd e) <=? pg_direct p) (l_syms (pg_link p)) = true;
  lk_dir : pg_direct p <> 0;
  lk_len : pg_direct p <= lenN (l_ops (pg_link p));
  lk_room : pg_direct p + 2 <= MAX_POOL;
  lk_data : lenN (l_data (pg_link p)) <= MAX_POOL
}.

Lemma link_link_linked : forall l, l_unlinked l = [] -> l_whiles l = [] ->
  link_link l = (mkLink 0 (l_ops l) (l_data l) (l_data_pos l) (l_direct_set l)
                        (filter (fun e => (0 <=? fst e)%Z) (l_syms l)) [] [], []).
Proof. intros l Hu Hw. unfold link_link. rewrite Hu, Hw. reflexivity. Qed.

(* the program after the direct line CONT has been compiled and linked *)
Definition cont_prog (p : program) : program :=
  let l := pg_link p in
  mkProg [] (pg_ind_errors p) (pg_direct p) None
         (mkLink 0 (firstnN (pg_direct p) (l_ops l) ++ [OpCont; OpEnd]) (l_data l) (l_data_pos l) (l_direct_set l)
                 (l_syms l) [] []).

Lemma firstnN_app_le : forall A (n : N) (a b : list A), n <= lenN a -> firstnN n (a ++ b) = firstnN n a.
Proof.
  intros A n a b H. unfold firstnN, lenN in *. rewrite firstn_app.
  replace (N.to_nat n - List.length a)%nat with 0%nat by lia. cbn [firstn]. apply app_nil_r.
Qed.

Lemma lenN_firstnN : forall A (n : N) (a : list A), n <= lenN a -> lenN (firstnN n a) = n.
Proof. intros A n a H. unfold firstnN, lenN in *. rewrite firstn_length. lia. Qed.

Lemma lenN_app : forall A (a b : list A), lenN (a ++ b) = lenN a + lenN b.
Proof. intros. unfold lenN. rewrite app_length. lia. Qed.

(* the first half: linking what is there and cutting the old direct code off *)
Lemma relink_cut : forall p, Linked p ->
  let p0 := program_link p in
  pg_direct p0 = pg_direct p /\ pg_ind_errors p0 = pg_ind_errors p
  /\ set_ops (pg_link p0) (firstnN (pg_direct p0) (l_ops (pg_link p0)))
     = mkLink 0 (firstnN (pg_direct p) (l_ops (pg_link p))) (l_data (pg_link p)) (l_data_pos (pg_link p))
              (l_direct_set (pg_link p)) (l_syms (pg_link p)) [] [].
Proof.
  intros p L. destruct L as [Hu Hw Hc Hs Ha Hd Hl Hr Hda]. cbn zeta. unfold program_link.
  set (b := last_is_end (l_ops (pg_link p)) && negb (existsb (fun e => fst (snd e) =? lenN (l_ops (pg_link p))) (l_syms (pg_link p)))).
  destruct b.
  - rewrite link_link_linked by assumption. apply N.eqb_neq in Hd. rewrite Hd. cbn [pg_direct pg_ind_errors pg_link].
    rewrite Hs. split; [reflexivity |]. split; reflexivity.
  - unfold l_push. cbn [fst snd].
    set (l' := set_ops (pg_link p) (l_ops (pg_link p) ++ [OpEnd])).
    assert (E : link_link l' = (mkLink 0 (l_ops (pg_link p) ++ [OpEnd]) (l_data (pg_link p)) (l_data_pos (pg_link p))
                                  (l_direct_set (pg_link p)) (l_syms (pg_link p)) [] [], [])).
    { rewrite link_link_linked by (unfold l'; cbn; assumption). unfold l'. cbn [set_ops l_ops l_data l_data_pos l_direct_set l_syms].
      rewrite Hs. reflexivity. }
    apply N.eqb_neq in Hd.
    destruct (MAX_POOL <? lenN (l_ops l')); cbn [with_link prog_raw_error pg_link pg_direct pg_errors pg_ind_errors pg_line];
      rewrite E, Hd; cbn [pg_direct pg_ind_errors pg_link l_ops set_ops l_cur l_data l_data_pos l_direct_set l_syms l_unlinked l_whiles];
      (split; [reflexivity |]); (split; [reflexivity |]); rewrite firstnN_app_le by assumption; reflexivity.
Qed.

Lemma forallb_le_lt : forall (syms : list (Z * (N * N))) d n, forallb (fun e => fst (snd e) <=? d) syms = true -> d < n ->
  existsb (fun e => fst (snd e) =? n) syms = false.
Proof.
  induction syms as [| e r IH]; intros d n H Hn; [reflexivity |]. cbn [forallb existsb] in *.
  apply andb_prop in H. destruct H as [H1 H2]. rewrite (IH d n H2 Hn). apply N.leb_le in H1.
  destruct (N.eqb_spec (fst (snd e)) n); [lia | reflexivity].
Qed.

Lemma last_is_end_snoc : forall ops, last_is_end (ops ++ [OpEnd]) = true.
Proof. intros ops. unfold last_is_end. rewrite rev_unit. reflexivity. Qed.

Lemma cg_cont : forall c, cg_stmt (SCont c) = ((c, mkLink 0 [OpCont] [] 0 false [] [] []), []).
Proof. intros c. reflexivity. Qed.

Theorem cont_line_compiles : forall p c, Linked p -> program_link (codegen_line p None (Ok [SCont c])) = cont_prog p.
Proof.
  intros p c L. destruct (relink_cut p L) as [Hd0 [Hi0 Hcut]]. destruct L as [Hu Hw Hc Hs Ha Hd Hl Hr Hda].
  unfold codegen_line. set (p0 := program_link p) in *.
  cbn [pg_errors pg_ind_errors pg_direct pg_link pg_line].
  rewrite Hcut, Hd0, Hi0.
  unfold codegen_ast. cbn [map]. rewrite cg_cont. cbn [map fst snd flat_map app fold_left append_stmt_frags].
  unfold l_append. cbn [l_direct_set l_data l_ops l_cur l_syms l_unlinked l_whiles pg_link fold_left map app].
  rewrite andb_false_r. cbn [with_link pg_link pg_errors pg_ind_errors pg_direct pg_line].
  set (base := firstnN (pg_direct p) (l_ops (pg_link p))).
  assert (Hb : lenN base = pg_direct p) by (apply lenN_firstnN; assumption).
  assert (H1 : (MAX_POOL <? lenN (base ++ [OpCont])) = false).
  { apply N.ltb_ge. rewrite lenN_app, Hb. unfold lenN. cbn [List.length]. lia. }
  cbn [l_ops]. rewrite H1. cbn [set_data l_data l_cur l_ops l_data_pos l_direct_set l_syms l_unlinked l_whiles]. rewrite app_nil_r.
  assert (H2 : (MAX_POOL <? lenN (l_data (pg_link p))) = false) by (apply N.ltb_ge; assumption).
  rewrite H2. cbn [with_link pg_link pg_errors pg_ind_errors pg_direct pg_line append_stmt_frags].
  unfold l_push. cbn [set_ops l_ops l_data l_cur l_data_pos l_direct_set l_syms l_unlinked l_whiles fst snd].
  assert (H3 : (MAX_POOL <? lenN ((base ++ [OpCont]) ++ [OpEnd])) = false).
  { apply N.ltb_ge. rewrite !lenN_app, Hb. unfold lenN. cbn [List.length]. lia. }
  unfold set_data, set_ops. cbn [l_ops l_data l_cur l_data_pos l_direct_set l_syms l_unlinked l_whiles Z.add].
  rewrite H3. cbn [with_link pg_link pg_errors pg_ind_errors pg_direct pg_line].
  unfold program_link. cbn [with_link pg_link l_ops l_syms pg_errors pg_direct pg_ind_errors pg_line].
  rewrite last_is_end_snoc.
  rewrite (forallb_le_lt _ (pg_direct p)); [| assumption |].
  2:{ rewrite !lenN_app, Hb. unfold lenN. cbn [List.length]. lia. }
  cbn [andb negb]. rewrite link_link_linked by reflexivity.
  apply N.eqb_neq in Hd. cbn [pg_direct with_link]. rewrite Hd.
  cbn [with_link pg_link l_ops l_data l_data_pos l_direct_set l_syms pg_errors pg_ind_errors pg_direct pg_line]. rewrite Hs.
  unfold cont_prog. fold base. rewrite <- app_assoc. reflexivity.
Qed.

(* ---------- the direct line CONT at the prompt ---------- *)
Definition cont_text : str := [67; 79; 78; 84].          (* "CONT" *)
Definition cont_line : line := (None, [TWord WCont]).

Lemma nthN_app_at : forall A (a b : list A) (x : A), nthN (a ++ x :: b) (lenN a) = Some x.
Proof.
  intros A a b x. unfold nthN, lenN. rewrite Nat2N.id. rewrite nth_error_app2 by lia.
  rewrite Nat.sub_diag. reflexivity.
Qed.

Section Trip.
Variable O : oracle.

Lemma enter_cont : forall r, match r_state r with StInput | StInkey => False | _ => True end ->
  rt_enter O r cont_text = Ok (enter_direct r cont_line, true).
Proof. intros r H. unfold rt_enter. destruct (r_state r); try contradiction; reflexivity. Qed.

(* the machine right after the line CONT was entered at the prompt of a clean, linked machine *)
Definition entered (r : rt) : rt :=
  let p := cont_prog (r_prog r) in
  set_state (set_listing (set_entry (set_tr (set_pc (set_prog r p) (pg_direct p)) None) (pg_direct p))
                         (mkListing (ls_lines (r_listing r)) (pg_ind_errors p) (pg_errors p))) StRunning.

Lemma enter_direct_cont : forall r, r_dirty r = false -> Linked (r_prog r) -> enter_direct r cont_line = entered r.
Proof.
  intros r Hd L. unfold enter_direct. rewrite Hd. cbn [snd cont_line].
  change (parse None [TWord WCont]) with (Ok [SCont (0, 4)] : res (list stmt)).
  rewrite (cont_line_compiles _ _ L). reflexivity.
Qed.

(* and the machine after the CONT instruction itself has run *)
Definition resumed (r : rt) : rt :=
  let e := entered r in
  set_pc (set_cont (set_state (set_pc e (r_pc e + 1)) (r_cont r)) StStopped) (r_cont_pc r).

Theorem cont_instruction_runs : forall r k h, r_dirty r = false -> Linked (r_prog r) -> r_tron r = false ->
  r_cont r = StRunning ->
  exec_loop O (S k) h (entered r) = exec_loop O k h (resumed r).
Proof.
  intros r k h Hd L Ht Hc. destruct L as [Hu Hw Hcu Hs Ha Hdir Hl Hr Hda].
  cbn [exec_loop]. unfold rbind at 1. unfold rget at 1.
  assert (Htr : r_tron (entered r) = false) by exact Ht.
  rewrite Htr. cbn [andb]. unfold rbind at 1. unfold rret at 1.
  unfold rbind at 1. unfold one_op. unfold rbind at 1. unfold rget at 1.
  assert (Hop : nthN (l_ops (pg_link (r_prog (entered r)))) (r_pc (entered r)) = Some OpCont).
  { cbn. rewrite <- (lenN_firstnN _ (pg_direct (r_prog r)) (l_ops (pg_link (r_prog r)))) at 2 by assumption.
    apply nthN_app_at. }
  rewrite Hop. unfold rbind at 1. unfold rmod at 1.
  cbn [exec_op]. unfold do_cont. unfold rbind at 1. unfold rget at 1.
  assert (Hc' : r_cont (set_pc (entered r) (r_pc (entered r) + 1)) = StRunning) by exact Hc.
  rewrite Hc'. cbn [is_stopped].
  assert (Hst : r_state (set_pc (entered r) (r_pc (entered r) + 1)) = StRunning) by reflexivity.
  rewrite Hst. cbn [is_running]. unfold rbind at 1. unfold rmod at 1. unfold rbind at 1. unfold rget at 1.
  rewrite Hc'. cbn [is_running].
  unfold resumed. rewrite Hc. reflexivity.
Qed.

(* the same when the slot holds a waiting state (INPUT prompt, key wait, listing): the CONT instruction restores it and hands
   control back to the caller at once *)
Theorem cont_instruction_waits : forall r k h, r_dirty r = false -> Linked (r_prog r) -> r_tron r = false ->
  is_stopped (r_cont r) = false -> is_running (r_cont r) = false ->
  exec_loop O (S k) h (entered r) = (resumed r, Ok EvRunning).
Proof.
  intros r k h Hd L Ht Hns Hnr. destruct L as [Hu Hw Hcu Hs Ha Hdir Hl Hr Hda].
  cbn [exec_loop]. unfold rbind at 1. unfold rget at 1.
  assert (Htr : r_tron (entered r) = false) by exact Ht.
  rewrite Htr. cbn [andb]. unfold rbind at 1. unfold rret at 1.
  unfold rbind at 1. unfold one_op. unfold rbind at 1. unfold rget at 1.
  assert (Hop : nthN (l_ops (pg_link (r_prog (entered r)))) (r_pc (entered r)) = Some OpCont).
  { cbn. rewrite <- (lenN_firstnN _ (pg_direct (r_prog r)) (l_ops (pg_link (r_prog r)))) at 2 by assumption.
    apply nthN_app_at. }
  rewrite Hop. unfold rbind at 1. unfold rmod at 1.
  cbn [exec_op]. unfold do_cont. unfold rbind at 1. unfold rget at 1.
  change (r_cont (set_pc (entered r) (r_pc (entered r) + 1))) with (r_cont r). rewrite Hns.
  assert (Hst : r_state (set_pc (entered r) (r_pc (entered r) + 1)) = StRunning) by reflexivity.
  rewrite Hst. cbn [is_running]. unfold rbind at 1. unfold rmod at 1. unfold rbind at 1. unfold rget at 1.
  assert (Hst2 : r_state (set_pc (set_cont (set_state (set_pc (entered r) (r_pc (entered r) + 1))
                                   (r_cont (set_pc (entered r) (r_pc (entered r) + 1)))) StStopped)
                                 (r_cont_pc (set_pc (entered r) (r_pc (entered r) + 1)))) = r_cont r) by reflexivity.
  rewrite Hst2.
  rewrite Hnr. unfold rret. reflexivity.
Qed.

(* ---------- the calls between the interrupt and the prompt ---------- *)
Fixpoint execs (r : rt) (ks : list N) : res (rt * list event) :=
  match ks with
  | [] => Ok (r, [])
  | k :: t => do x <- rt_execute O r k; do y <- execs (fst x) t; Ok (fst y, snd x :: snd y)
  end.

(* the machine at the prompt after ?BREAK *)
Definition at_prompt (r1 : rt) : rt := set_entry (set_col (set_state r1 StStopped) 0) 0.

Lemma set_col_same : forall r, r_col r = 0 -> set_col r 0 = r.
Proof. intros r H. destruct r. cbn in *. subst. reflexivity. Qed.

Lemma exec_interrupt : forall r k, r_state r = StInterrupt ->
  rt_execute O r k =
  let e := mkErr E_Break (cur_line r) (0, 0) in
  if 0 <? r_col r then Ok (set_col (set_state r (StRuntimeError e)) 0, EvPrint [c_nl])
  else Ok (set_state (set_state r (StRuntimeError e)) StStopped, EvErrors [e]).
Proof. intros r k H. unfold rt_execute. rewrite H. cbn [bind r_state set_state r_col]. reflexivity. Qed.

Lemma exec_error : forall r k e, r_state r = StRuntimeError e ->
  rt_execute O r k =
  if 0 <? r_col r then Ok (set_col r 0, EvPrint [c_nl]) else Ok (set_state r StStopped, EvErrors [e]).
Proof. intros r k e H. unfold rt_execute. rewrite H. cbn [bind]. rewrite H. reflexivity. Qed.

Lemma exec_stopped : forall r k, r_state r = StStopped ->
  rt_execute O r k = match ready_prompt r with (r', Some e) => Ok (r', e) | (r', None) => Ok (r', EvStopped) end.
Proof. intros r k H. unfold rt_execute. rewrite H. destruct (ready_prompt r) as [r' [e |]]; reflexivity. Qed.

Theorem break_then_prompt : forall r1 k1 k2 k3 k4, r_state r1 = StInterrupt -> r_entry r1 <> 0 ->
  let e := mkErr E_Break (cur_line r1) (0, 0) in
  let pr := EvPrint (match r_prompt r1 with [] => [] | p => p ++ [c_nl] end) in
  if 0 <? r_col r1
  then execs r1 [k1; k2; k3; k4] = Ok (at_prompt r1, [EvPrint [c_nl]; EvErrors [e]; pr; EvStopped])
  else execs r1 [k2; k3; k4] = Ok (at_prompt r1, [EvErrors [e]; pr; EvStopped]).
Proof.
  intros r1 k1 k2 k3 k4 Hs He. cbn zeta. apply N.eqb_neq in He.
  set (e := mkErr E_Break (cur_line r1) (0, 0)).
  destruct (0 <? r_col r1) eqn:Hcol.
  - cbn [execs]. rewrite (exec_interrupt r1 k1 Hs). cbn zeta. fold e. rewrite Hcol. cbn [bind fst snd].
    rewrite (exec_error (set_col (set_state r1 (StRuntimeError e)) 0) k2 e) by reflexivity. cbn [r_col set_col N.ltb N.compare bind fst snd].
    rewrite exec_stopped by reflexivity. unfold ready_prompt. cbn [r_entry set_state set_col]. rewrite He.
    cbn [negb r_col set_entry set_state set_col N.ltb N.compare app r_prompt bind fst snd].
    rewrite exec_stopped by reflexivity. unfold ready_prompt. cbn [r_entry set_entry N.eqb negb bind fst snd].
    reflexivity.
  - assert (Hc0 : r_col r1 = 0) by (apply N.ltb_ge in Hcol; lia).
    cbn [execs]. rewrite (exec_interrupt r1 k2 Hs). cbn zeta. fold e. rewrite Hcol. cbn [bind fst snd].
    rewrite exec_stopped by reflexivity. unfold ready_prompt. cbn [r_entry set_state]. rewrite He.
    cbn [negb r_col set_entry set_state]. rewrite Hcol. cbn [app r_prompt set_entry set_state bind fst snd].
    rewrite exec_stopped by reflexivity. unfold ready_prompt. cbn [r_entry set_entry N.eqb negb bind fst snd].
    unfold at_prompt. rewrite <- (set_col_same r1 Hc0) at 1. reflexivity.
Qed.

(* ---------- the round trip ---------- *)
Lemma interrupt_in_program : forall r, r_pc r < r_entry r ->
  rt_interrupt r = set_cont_pc (set_cont (set_state r StInterrupt) (r_state r)) (r_pc r).
Proof.
  intros r H. unfold rt_interrupt. cbn [r_entry r_pc set_cont_pc set_cont set_state].
  destruct (N.leb_spec (r_entry r) (r_pc r)); [lia | reflexivity].
Qed.

(* a call in the running state with no direct-line errors is the instruction loop followed by the call's epilogue *)
Definition after_loop (x : rt * res event) : res (rt * event) :=
  match x with
  | (r2, Ok ev) =>
      match r_state r2, ev with
      | StStopped, EvStopped =>
          match ready_prompt r2 with
          | (r3, Some e) => Ok (r3, e)
          | (r3, None) => Ok (r3, EvStopped)
          end
      | _, _ => Ok (r2, ev)
      end
  | (r2, Err e) =>
      match r_state r2 with
      | StInputRunning =>
          let '(s, a) := unwind_input (r_stack r2) in
          let r3 := set_stack r2 s in
          let r4 := match a with Some addr => set_pc r3 addr | None => r3 end in
          Ok (set_state r4 StInputRedo, EvRunning)
      | st =>
          let r3 := set_cont_pc (set_cont (set_state r2 (StRuntimeError (in_line e (cur_line r2)))) st) (r_pc r2) in
          let r4 := if (r_entry r3 <=? r_pc r3) || stack_is_full r3
                    then set_cont (set_stack r3 []) StStopped else r3 in
          Ok (r4, EvRunning)
      end
  | (_, Panic) => Panic
  | (_, Hang) => Hang
  end.

Lemma exec_running : forall r k, r_state r = StRunning -> ls_dir_errors (r_listing r) = [] ->
  rt_execute O r k =
  after_loop (exec_loop O (N.to_nat k) (match ls_ind_errors (r_listing r) with [] => false | _ => true end) r).
Proof. intros r k H H2. unfold rt_execute. rewrite H, H2. cbn [bind]. rewrite H. reflexivity. Qed.

Theorem interrupt_cont_round_trip : forall r k,
  r_state r = StRunning -> r_pc r < r_entry r -> r_dirty r = false -> r_tron r = false -> Linked (r_prog r) ->
  r_entry r = pg_direct (r_prog r) ->
  let rB := at_prompt (rt_interrupt r) in
  let r' := resumed rB in
  rt_enter O rB cont_text = Ok (entered rB, true)
  /\ rt_execute O (entered rB) (N.succ k) = rt_execute O r' k
  /\ (r_pc r' = r_pc r /\ r_stack r' = r_stack r /\ r_slen r' = r_slen r /\ r_vars r' = r_vars r /\ r_fns r' = r_fns r
      /\ r_rand r' = r_rand r /\ r_ent r' = r_ent r /\ r_state r' = StRunning /\ r_entry r' = r_entry r
      /\ r_tron r' = r_tron r /\ r_dirty r' = r_dirty r /\ r_snap r' = r_snap r /\ r_prompt r' = r_prompt r
      /\ ls_lines (r_listing r') = ls_lines (r_listing r) /\ r_prog r' = cont_prog (r_prog r)
      /\ r_col r' = 0 /\ r_cont r' = StStopped /\ r_cont_pc r' = r_pc r /\ r_tr r' = None).
Proof.
  intros r k Hs Hpc Hd Ht L He. cbn zeta. rewrite (interrupt_in_program r Hpc), Hs.
  set (rB := at_prompt (set_cont_pc (set_cont (set_state r StInterrupt) StRunning) (r_pc r))).
  assert (HdB : r_dirty rB = false) by exact Hd.
  assert (HLB : Linked (r_prog rB)) by exact L.
  assert (HtB : r_tron rB = false) by exact Ht.
  assert (HcB : r_cont rB = StRunning) by reflexivity.
  split; [| split].
  - rewrite enter_cont by exact I. rewrite (enter_direct_cont rB HdB HLB). reflexivity.
  - rewrite exec_running by reflexivity. rewrite N2Nat.inj_succ. rewrite (cont_instruction_runs rB _ _ HdB HLB HtB HcB).
    rewrite (exec_running (resumed rB)); [reflexivity | unfold resumed; rewrite HcB; reflexivity | reflexivity].
  - unfold resumed. rewrite HcB. cbn. rewrite He. repeat split; reflexivity.
Qed.

(* the same for any machine at the prompt whose continuation slot holds a running program: after STOP, END or an error as well *)
Theorem cont_at_prompt_resumes : forall rB k,
  match r_state rB with StInput | StInkey => False | _ => True end ->
  r_cont rB = StRunning -> r_dirty rB = false -> r_tron rB = false -> Linked (r_prog rB) ->
  let r' := resumed rB in
  rt_enter O rB cont_text = Ok (entered rB, true)
  /\ rt_execute O (entered rB) (N.succ k) = rt_execute O r' k
  /\ (r_pc r' = r_cont_pc rB /\ r_stack r' = r_stack rB /\ r_slen r' = r_slen rB /\ r_vars r' = r_vars rB /\ r_fns r' = r_fns rB
      /\ r_rand r' = r_rand rB /\ r_ent r' = r_ent rB /\ r_state r' = StRunning /\ r_entry r' = pg_direct (r_prog rB)
      /\ r_tron r' = r_tron rB /\ r_dirty r' = r_dirty rB /\ r_snap r' = r_snap rB /\ r_prompt r' = r_prompt rB
      /\ ls_lines (r_listing r') = ls_lines (r_listing rB) /\ r_prog r' = cont_prog (r_prog rB)
      /\ r_col r' = r_col rB /\ r_cont r' = StStopped /\ r_cont_pc r' = r_cont_pc rB /\ r_tr r' = None).
Proof.
  intros rB k Hst HcB HdB HtB HLB. cbn zeta. split; [| split].
  - rewrite enter_cont by exact Hst. rewrite (enter_direct_cont rB HdB HLB). reflexivity.
  - rewrite exec_running by reflexivity. rewrite N2Nat.inj_succ. rewrite (cont_instruction_runs rB _ _ HdB HLB HtB HcB).
    rewrite (exec_running (resumed rB)); [reflexivity | unfold resumed; rewrite HcB; reflexivity | reflexivity].
  - unfold resumed. rewrite HcB. cbn. repeat split; reflexivity.
Qed.

Theorem error_then_prompt : forall rS e k1 k2 k3 k4, r_state rS = StRuntimeError e -> r_entry rS <> 0 ->
  let pr := EvPrint (match r_prompt rS with [] => [] | p => p ++ [c_nl] end) in
  if 0 <? r_col rS
  then execs rS [k1; k2; k3; k4] = Ok (at_prompt rS, [EvPrint [c_nl]; EvErrors [e]; pr; EvStopped])
  else execs rS [k2; k3; k4] = Ok (at_prompt rS, [EvErrors [e]; pr; EvStopped]).
Proof.
  intros rS e k1 k2 k3 k4 Hs He. cbn zeta. apply N.eqb_neq in He.
  destruct (0 <? r_col rS) eqn:Hcol.
  - cbn [execs]. rewrite (exec_error rS k1 e Hs). rewrite Hcol. cbn [bind fst snd].
    rewrite (exec_error (set_col rS 0) k2 e) by exact Hs. cbn [r_col set_col N.ltb N.compare bind fst snd].
    rewrite exec_stopped by reflexivity. unfold ready_prompt. cbn [r_entry set_state set_col]. rewrite He.
    cbn [negb r_col set_entry set_state set_col N.ltb N.compare app r_prompt bind fst snd].
    rewrite exec_stopped by reflexivity. unfold ready_prompt. cbn [r_entry set_entry N.eqb negb bind fst snd].
    reflexivity.
  - assert (Hc0 : r_col rS = 0) by (apply N.ltb_ge in Hcol; lia).
    cbn [execs]. rewrite (exec_error rS k2 e Hs). rewrite Hcol. cbn [bind fst snd].
    rewrite exec_stopped by reflexivity. unfold ready_prompt. cbn [r_entry set_state]. rewrite He.
    cbn [negb r_col set_entry set_state]. rewrite Hcol. cbn [app r_prompt set_entry set_state bind fst snd].
    rewrite exec_stopped by reflexivity. unfold ready_prompt. cbn [r_entry set_entry N.eqb negb bind fst snd].
    unfold at_prompt. rewrite <- (set_col_same rS Hc0) at 1. reflexivity.
Qed.

(* the relinked program differs from the old one in the direct-code area only *)
Theorem cont_prog_keeps_program : forall p, pg_direct p <= lenN (l_ops (pg_link p)) ->
  let p' := cont_prog p in
  firstnN (pg_direct p) (l_ops (pg_link p')) = firstnN (pg_direct p) (l_ops (pg_link p))
  /\ l_data (pg_link p') = l_data (pg_link p) /\ l_data_pos (pg_link p') = l_data_pos (pg_link p)
  /\ l_syms (pg_link p') = l_syms (pg_link p) /\ pg_direct p' = pg_direct p /\ pg_ind_errors p' = pg_ind_errors p.
Proof.
  intros p H. cbn zeta. unfold cont_prog. cbn [pg_link l_ops l_data l_data_pos l_syms pg_direct pg_ind_errors].
  split; [| repeat split; reflexivity].
  rewrite firstnN_app_le by (rewrite lenN_firstnN by assumption; lia).
  unfold firstnN. rewrite firstn_firstn. rewrite Nat.min_id. reflexivity.
Qed.

End Trip.

(* ---------- which machines are these?  Program::link always leaves the shape, and a boolean test decides the rest ---------- *)
Lemma filter_idem : forall A (f : A -> bool) l, filter f (filter f l) = filter f l.
Proof. induction l as [| e r IH]; [reflexivity |]. cbn [filter]. destruct (f e) eqn:E; [cbn [filter]; rewrite E, IH; reflexivity | exact IH]. Qed.

Lemma filter_zassoc_set : forall V (f : Z * V -> bool) s k v, f (k, v) = true -> filter f s = s ->
  filter f (zassoc_set k v s) = zassoc_set k v s.
Proof.
  induction s as [| [k0 v0] r IH]; intros k v Hk Hf; cbn [zassoc_set filter].
  - rewrite Hk. reflexivity.
  - cbn [filter] in Hf. destruct (f (k0, v0)) eqn:E0.
    + injection Hf as Hf. destruct (Z.eqb k k0); cbn [filter]; [rewrite Hk, Hf; reflexivity | rewrite E0, (IH k v Hk Hf); reflexivity].
    + exfalso. assert (Hl : forall l : list (Z * V), (List.length (filter f l) <= List.length l)%nat).
      { induction l as [| e l' IHl]; [apply le_n |]. cbn [filter]. destruct (f e); cbn [List.length]; lia. }
      specialize (Hl r). rewrite Hf in Hl. cbn [List.length] in Hl. lia.
Qed.

Lemma program_link_shape : forall p, let q := program_link p in
  l_unlinked (pg_link q) = [] /\ l_whiles (pg_link q) = [] /\ l_cur (pg_link q) = 0%Z
  /\ filter (fun e => (0 <=? fst e)%Z) (l_syms (pg_link q)) = l_syms (pg_link q).
Proof.
  intros p. cbn zeta. unfold program_link.
  match goal with |- context [link_link ?l] => set (l0 := l) end.
  unfold link_link. destruct (link_whiles_loop (l_whiles l0) [] (l_syms l0) (l_unlinked l0) []) as [unl werrs].
  match goal with |- context [fold_left ?f unl ?a] => destruct (fold_left f unl a) as [ops errs] end.
  match goal with |- context [if ?c then _ else _] => destruct c end; cbn [pg_link l_unlinked l_whiles l_cur l_syms l_ops l_data].
  - repeat split. apply filter_zassoc_set; [reflexivity | apply filter_idem].
  - repeat split. apply filter_idem.
Qed.

Definition linked_b (p : program) : bool :=
  let l := pg_link p in
  match l_unlinked l, l_whiles l with [], [] => true | _, _ => false end
  && (l_cur l =? 0)%Z
  && forallb (fun e => (0 <=? fst e)%Z) (l_syms l)
  && forallb (fun e => fst (snd e) <=? pg_direct p) (l_syms l)
  && negb (pg_direct p =? 0) && (pg_direct p <=? lenN (l_ops l)) && (pg_direct p + 2 <=? MAX_POOL) && (lenN (l_data l) <=? MAX_POOL).

Lemma linked_b_ok : forall p, linked_b p = true -> Linked p.
Proof.
  intros p H. unfold linked_b in H. repeat (apply andb_prop in H; destruct H as [H ?]).
  destruct (l_unlinked (pg_link p)) eqn:Eu; [| discriminate]. destruct (l_whiles (pg_link p)) eqn:Ew; [| discriminate].
  constructor; try assumption.
  - apply Z.eqb_eq. assumption.
  - match goal with H0 : forallb (fun e => (0 <=? fst e)%Z) _ = true |- _ => revert H0 end. clear.
    induction (l_syms (pg_link p)) as [| e r IH]; intros H0; [reflexivity |]. cbn [forallb filter] in *.
    apply andb_prop in H0. destruct H0 as [H1 H2]. rewrite H1, (IH H2). reflexivity.
  - apply N.eqb_neq. match goal with H0 : negb _ = true |- _ => apply negb_true_iff in H0; exact H0 end.
  - apply N.leb_le. assumption.
  - apply N.leb_le. assumption.
  - apply N.leb_le. assumption.
Qed.

(* ---------- non-vacuity: a program interrupted in the middle of a statement, from the public entry points only ---------- *)
From BL Require Import Drv.Driver.
Require Import String.

Definition ok_rt (x : res (rt * bool)) : rt := match x with Ok (r, _) => r | _ => rt_default end.
Definition ok_ex (x : res (rt * event)) : rt := match x with Ok (r, _) => r | _ => rt_default end.

Definition trip_machine : rt :=
  let O := dummy_oracle in
  let r0 := ok_ex (rt_execute O rt_default 5000) in
  let r1 := ok_rt (rt_enter O r0 (s2l "10 A=A+1:PRINT A;")) in
  let r2 := ok_rt (rt_enter O r1 (s2l "20 IF A<9 THEN 10")) in
  let r3 := ok_ex (rt_execute O r2 5000) in
  let r4 := ok_rt (rt_enter O r3 (s2l "RUN")) in
  ok_ex (rt_execute O (ok_ex (rt_execute O r4 9)) 2).      (* after the first PRINT, inside the comparison of line 20 *)

Example trip_premises :
  r_state trip_machine = StRunning /\ r_pc trip_machine < r_entry trip_machine /\ r_dirty trip_machine = false
  /\ r_tron trip_machine = false /\ Linked (r_prog trip_machine) /\ r_entry trip_machine = pg_direct (r_prog trip_machine)
  /\ r_stack trip_machine <> []%list /\ 0 < r_col trip_machine.
Proof.
  split; [vm_compute; reflexivity |]. split; [vm_compute; reflexivity |]. split; [vm_compute; reflexivity |].
  split; [vm_compute; reflexivity |]. split; [apply linked_b_ok; vm_compute; reflexivity |].
  split; [vm_compute; reflexivity |]. split; [vm_compute; discriminate | vm_compute; reflexivity].
Qed.
