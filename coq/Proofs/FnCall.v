(* C10: the call protocol of user functions on the VM. *)
From BL Require Import Base.Prelude Base.Floats Mach.Val Mach.Ops Mach.Func Mach.Var
     Lang.Token Lang.Lex Lang.Ast Lang.Parse Mach.Compile Mach.Listing Mach.Runtime.
From Coq Require Import Lia.
Local Open Scope N_scope.

(* an undefined function, and a call with the wrong number of arguments *)
Theorem call_undefined : forall name r r1 args, pop_vec r = (r1, Ok args) ->
  alist_get name (r_fns r1) = None -> snd (do_fn name r) = err E_UndefinedFn.
Proof. intros name r r1 args Hp Hn. unfold do_fn, rbind. rewrite Hp. cbn [rget]. rewrite Hn. reflexivity. Qed.

Theorem call_wrong_arity : forall name r r1 args arity addr, pop_vec r = (r1, Ok args) ->
  alist_get name (r_fns r1) = Some (arity, addr) -> arity <> lenN args -> snd (do_fn name r) = err E_IllegalFunctionCall.
Proof.
  intros name r r1 args arity addr Hp Hf Hne. unfold do_fn, rbind. rewrite Hp. cbn [rget]. rewrite Hf.
  destruct (N.eqb_spec arity (lenN args)); [contradiction | reflexivity].
Qed.

(* DEF FN typed at the prompt *)
Theorem def_in_direct_mode : forall name r, r_entry r <= r_pc r -> snd (do_def name r) = err E_IllegalDirect.
Proof. intros name r H. unfold do_def, rbind, rget. destruct (N.leb_spec (r_entry r) (r_pc r)); [reflexivity | lia]. Qed.

(* returning from a function body: the value on top is kept, everything down to and including the return
   address is dropped, and control goes back to the address saved by the call *)
Theorem return_with_value : forall r v a rest, r_stack r = v :: VRet a :: rest -> is_assignable v = true ->
  lenN rest + 1 <= MAX_POOL ->
  exists r', do_return r = (r', Ok tt) /\ r_stack r' = v :: rest /\ r_pc r' = a /\ r_vars r' = r_vars r.
Proof.
  intros r v a rest Hs Hv Hb. unfold do_return. rewrite Hs.
  assert (E : return_loop (v :: VRet a :: rest) None true = Some (rest, Some v, a)).
  { cbn [return_loop]. destruct v; cbn in Hv; try discriminate; reflexivity. }
  rewrite E. unfold rbind, push, set_stack. cbn. destruct (N.ltb_spec MAX_POOL (lenN rest + 1)); [lia |].
  eexists. split; [reflexivity |]. cbn. repeat split; reflexivity.
Qed.

(* GOSUB's RETURN: nothing above the return address, so nothing is kept *)
Theorem return_plain : forall r a rest, r_stack r = VRet a :: rest ->
  do_return r = (set_pc (set_stack r rest) a, Ok tt).
Proof. intros r a rest Hs. unfold do_return. rewrite Hs. reflexivity. Qed.

(* RETURN with no return address anywhere below: the stack is emptied and the error reported *)
Theorem return_without_gosub : forall r, return_loop (r_stack r) None true = None ->
  do_return r = (set_stack r [], err E_ReturnWithoutGosub).
Proof. intros r H. unfold do_return. rewrite H. reflexivity. Qed.

(* ---------- C12: RUN is CLEAR followed by a jump ---------- *)
Theorem run_is_clear_then_jump : forall c n l, lenN (l_ops l) + 2 <= MAX_POOL ->
  l_ops (fst (l_push_run c n l)) = l_ops l ++ [OpClear; OpJump 0] /\ snd (l_push_run c n l) = Ok tt.
Proof.
  intros c n l H. unfold l_push_run, lbind, l_push, set_ops. cbn.
  assert (E1 : (MAX_POOL <? lenN (l_ops l ++ [OpClear])) = false).
  { apply N.ltb_ge. unfold lenN in *. rewrite app_length. cbn [length]. lia. }
  rewrite E1. destruct n as [k |]; cbn.
  - assert (E2 : (MAX_POOL <? lenN ((l_ops l ++ [OpClear]) ++ [OpJump 0])) = false).
    { apply N.ltb_ge. unfold lenN in *. rewrite !app_length. cbn [length]. lia. }
    rewrite E2. rewrite <- app_assoc. split; reflexivity.
  - assert (E2 : (MAX_POOL <? lenN ((l_ops l ++ [OpClear]) ++ [OpJump 0])) = false).
    { apply N.ltb_ge. unfold lenN in *. rewrite !app_length. cbn [length]. lia. }
    rewrite E2. rewrite <- app_assoc. split; reflexivity.
Qed.

(* ---------- entering a function: return address under the arguments, first argument on top ---------- *)
Lemma pushes_ok : forall xs r, r_slen r + lenN xs <= MAX_POOL ->
  fold_left (fun m a => rdo _ <~ m ;; push a) xs (rret tt) r
  = (set_stack_len r (rev xs ++ r_stack r) (r_slen r + lenN xs), Ok tt).
Proof.
  assert (G : forall xs (m0 : RM unit) r r0, m0 r = (r0, Ok tt) -> r_slen r0 + lenN xs <= MAX_POOL ->
            fold_left (fun m a => rdo _ <~ m ;; push a) xs m0 r
            = (set_stack_len r0 (rev xs ++ r_stack r0) (r_slen r0 + lenN xs), Ok tt)).
  { induction xs as [| x xs IH]; intros m0 r r0 H0 Hb; cbn [fold_left].
    - rewrite H0. cbn [rev app]. unfold lenN. cbn [List.length]. rewrite N.add_0_r. destruct r0; reflexivity.
    - assert (Hl : lenN (x :: xs) = 1 + lenN xs) by (unfold lenN; cbn [List.length]; lia).
      rewrite (IH (rdo _ <~ m0 ;; push x) r (set_stack_len r0 (x :: r_stack r0) (r_slen r0 + 1))).
      + cbn [r_stack r_slen set_stack_len rev]. rewrite <- app_assoc. cbn [app]. rewrite Hl.
        replace (r_slen r0 + 1 + lenN xs) with (r_slen r0 + (1 + lenN xs)) by lia. reflexivity.
      + unfold rbind. rewrite H0. unfold push. cbn [r_slen set_stack_len r_stack].
        destruct (N.ltb_spec MAX_POOL (r_slen r0 + 1)); [lia | reflexivity].
      + cbn [r_slen set_stack_len]. lia. }
  intros xs r Hb. exact (G xs (rret tt) r r eq_refl Hb).
Qed.

Theorem call_enters : forall name r r1 args arity addr, pop_vec r = (r1, Ok args) ->
  alist_get name (r_fns r1) = Some (arity, addr) -> arity = lenN args -> r_slen r1 + 1 + lenN args <= MAX_POOL ->
  exists r2, do_fn name r = (r2, Ok tt)
    /\ r_stack r2 = args ++ VRet (r_pc r1) :: r_stack r1 /\ r_pc r2 = addr
    /\ r_vars r2 = r_vars r1 /\ r_fns r2 = r_fns r1 /\ r_prog r2 = r_prog r1 /\ r_state r2 = r_state r1.
Proof.
  intros name r r1 args arity addr Hp Hf Ha Hb. unfold do_fn. unfold rbind at 1. rewrite Hp. unfold rbind at 1. unfold rget at 1.
  rewrite Hf. rewrite Ha, N.eqb_refl. unfold rbind at 1. unfold push at 1.
  cbn [r_slen set_stack_len r_stack]. destruct (N.ltb_spec MAX_POOL (r_slen r1 + 1)); [lia |].
  unfold rbind at 1.
  rewrite pushes_ok by (cbn [r_slen set_stack_len]; unfold lenN; rewrite rev_length; unfold lenN in Hb; lia).
  unfold rmod. eexists. split; [reflexivity |]. cbn [r_stack r_pc r_vars r_fns r_prog r_state set_pc set_stack_len]. rewrite rev_involutive.
  repeat split; reflexivity.
Qed.
