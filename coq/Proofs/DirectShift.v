(* C20 -- a direct statement does not see which program is in memory.  Instructions that carry no address (what LET, PRINT,
   DIM, SWAP, ERASE, DEFtype, MID$=, CLS and the like compile to) run the same on two machines that differ in the stored
   program, in where the direct code sits behind it, and in the two registers a direct line cannot read. *)
From BL Require Import Base.Prelude Base.Floats Mach.Val Mach.Ops Mach.Func Mach.Var
     Lang.Token Lang.Lex Lang.Ast Lang.Parse Mach.Compile Mach.Listing Mach.Runtime Proofs.DeadFields.
From Coq Require Import Lia.
Local Open Scope N_scope.

(* the other machine: another program, addresses moved by d, other continuation address and trace marker *)
Definition Sh (d : N) (PL : program * listing) (c : N) (t : option N) (r : rt) : rt :=
  set_listing (set_prog (set_cont_pc (set_tr (set_entry (set_pc r (r_pc r + d)) (r_entry r + d)) t) c) (fst PL)) (snd PL).

Definition shifted {A} (m : RM A) : Prop :=
  forall d P c t r, exists c' t', m (Sh d P c t r) = (Sh d P c' t' (fst (m r)), snd (m r)).

Ltac sh_cbn :=
  cbn [Sh set_prog set_cont_pc set_tr set_pc set_stack_len set_stack set_vars set_col set_state set_cont
       set_entry set_listing set_dirty set_tron set_fns set_rand set_snap
       r_prompt r_listing r_snap r_dirty r_prog r_pc r_tr r_tron r_entry r_stack r_slen r_vars r_state r_cont r_cont_pc r_col r_rand r_fns r_ent
       fst snd].
Ltac sh_done := do 2 eexists; reflexivity.

Lemma shifted_ret {A} (a : A) : shifted (rret a).
Proof. intros d P c t r. sh_done. Qed.
Lemma shifted_bind {A B} (m : RM A) (f : A -> RM B) : shifted m -> (forall a, shifted (f a)) -> shifted (rbind m f).
Proof.
  intros Hm Hf d P c t r. unfold rbind. destruct (Hm d P c t r) as [c1 [t1 E]]. rewrite E.
  destruct (m r) as [r1 [a | e | |]]; cbn [fst snd]; try sh_done. apply Hf.
Qed.
Lemma shifted_rfail {A} code : shifted (@rfail A code). Proof. intros d P c t r. sh_done. Qed.
Lemma shifted_rlift {A} (x : res A) : shifted (rlift x). Proof. intros d P c t r. sh_done. Qed.
Lemma shifted_const {A} (x : res A) : shifted (fun r => (r, x)). Proof. intros d P c t r. sh_done. Qed.
Lemma shifted_rget_bind2 {B} (f : rt -> RM B) :
  (forall d P c t r0, f (Sh d P c t r0) = f r0) -> (forall r0, shifted (f r0)) -> shifted (rbind rget f).
Proof. intros H1 H2 d P c t r. unfold rbind, rget. rewrite H1. apply H2. Qed.
Lemma shifted_rmod (f : rt -> rt) : (forall d P c t r, exists c' t', f (Sh d P c t r) = Sh d P c' t' (f r)) -> shifted (rmod f).
Proof. intros H d P c t r. unfold rmod. destruct (H d P c t r) as [c' [t' E]]. rewrite E. sh_done. Qed.
Lemma shifted_try {A} (g : rt -> res A) (set : rt -> A -> rt) :
  (forall d P c t r, g (Sh d P c t r) = g r) ->
  (forall d P c t r a, exists c' t', set (Sh d P c t r) a = Sh d P c' t' (set r a)) ->
  shifted (fun r => match g r with
                    | Ok v => (set r v, Ok tt)
                    | Err e => (r, Err e) | Panic => (r, Panic) | Hang => (r, Hang)
                    end).
Proof.
  intros Hg Hs d P c t r. rewrite Hg. destruct (g r) as [a | e | |]; cbn [fst snd]; try sh_done.
  destruct (Hs d P c t r a) as [c' [t' E]]. rewrite E. sh_done.
Qed.
Lemma shifted_push v : shifted (push v).
Proof. intros d P c t r. unfold push. sh_cbn. sh_done. Qed.
Lemma shifted_pop : shifted pop.
Proof. intros d P c t r. unfold pop. sh_cbn. destruct (r_stack r); sh_done. Qed.
Lemma shifted_pop_n n : shifted (pop_n n).
Proof. intros d P c t r. unfold pop_n. sh_cbn. destruct ((n <? 0)%Z || (r_slen r <? Z.to_N n)); sh_done. Qed.
Lemma shifted_with_vars {A} (f : varstore -> varstore * res A) : shifted (with_vars f).
Proof. intros d P c t r. unfold with_vars. sh_cbn. destruct (f (r_vars r)). sh_done. Qed.

Ltac sh_step :=
  lazymatch goal with
  | |- shifted (rret _) => apply shifted_ret
  | |- shifted (rbind rget _) => apply shifted_rget_bind2; [intros; reflexivity | intros ?]
  | |- shifted (rbind _ _) => apply shifted_bind; [ | intros ?]
  | |- shifted (rfail _) => apply shifted_rfail
  | |- shifted (rlift _) => apply shifted_rlift
  | |- shifted (push _) => apply shifted_push
  | |- shifted pop => apply shifted_pop
  | |- shifted (pop_n _) => apply shifted_pop_n
  | |- shifted (with_vars _) => apply shifted_with_vars
  | |- shifted (rmod _) => apply shifted_rmod; intros; sh_cbn; sh_done
  | |- shifted (fun r => (r, _)) => apply shifted_const
  | |- shifted (if ?b then _ else _) => destruct b
  | |- shifted (match ?x with _ => _ end) => destruct x
  | |- shifted (let '(_, _) := ?x in _) => destruct x
  | |- shifted (fun r => match _ with Ok _ => _ | Err _ => _ | Panic => _ | Hang => _ end) =>
      apply shifted_try; [intros; reflexivity | intros; sh_cbn; sh_done]
  end.
Ltac sz := repeat sh_step.

Lemma shifted_pop2 : shifted pop2. Proof. unfold pop2. sz. Qed.
Lemma shifted_pop_vec : shifted pop_vec. Proof. unfold pop_vec. sz. Qed.
Lemma shifted_pop_1_push f : shifted (pop_1_push f). Proof. unfold pop_1_push. sz. Qed.
Lemma shifted_pop_2_push f : shifted (pop_2_push f).
Proof. unfold pop_2_push. apply shifted_bind; [apply shifted_pop2 | intros ?]. sz. Qed.

(* the instructions that carry no address and read neither the program nor the program counter *)
Definition address_free (op : opcode) : bool :=
  match op with
  | OpLiteral (VRet _) | OpLiteral (VNext _) => false
  | OpLiteral _ | OpPop _ | OpPush _ | OpPopArr _ | OpPushArr _ | OpDimArr _ | OpEraseArr _ | OpCls
  | OpDefdbl | OpDefint | OpDefsng | OpDefstr | OpLetMid | OpPrint | OpSwap | OpTroff | OpNeg | OpNot | OpBin _ | OpBuiltin _ | OpStop => true
  | _ => false
  end.

Section Ops.
Variable O : oracle.
Lemma shifted_do_deftype ty : shifted (do_deftype ty).
Proof. unfold do_deftype. apply shifted_bind; [apply shifted_pop2 | intros p]. sz. Qed.
Lemma shifted_do_letmid : shifted do_letmid. Proof. unfold do_letmid. sz. Qed.
Lemma shifted_do_print : shifted do_print. Proof. unfold do_print. sz. Qed.
Lemma shifted_do_swap : shifted do_swap.
Proof. unfold do_swap. apply shifted_bind; [apply shifted_pop2 | intros p]. sz. Qed.
Lemma shifted_do_builtin name : shifted (do_builtin O name).
Proof. unfold do_builtin. repeat match goal with |- shifted (if ?c then _ else _) => destruct c end;
  try (apply shifted_bind; [first [apply shifted_pop_1_push | apply shifted_pop_2_push | apply shifted_pop_vec] | intros ?]); sz. Qed.

Theorem shifted_exec_op h op : address_free op = true -> shifted (exec_op O h op).
Proof.
  intros Ha. destruct op; try discriminate Ha; cbn [exec_op];
  try (apply shifted_bind; [first [apply shifted_do_deftype | apply shifted_do_letmid | apply shifted_do_print
                                  | apply shifted_do_swap | apply shifted_pop_1_push | apply shifted_pop_2_push ] | intros ?; sz]);
  try apply shifted_do_builtin.
  all: try (apply shifted_bind; [| intros ?; sz]).
  all: try (apply shifted_bind; [apply shifted_pop_vec | intros ?]).
  all: try solve [sz].
  all: try solve [apply shifted_bind; [apply shifted_pop | intros ?]; sz].
  all: try solve [apply shifted_bind; [sz | intros ?; sz]].
Qed.
End Ops.

(* ---------- the fetch loop on the direct line ---------- *)
Section Loop.
Variable O : oracle.

Lemma ltb_shift a b d : (a + d <? b + d) = (a <? b).
Proof. destruct (N.ltb_spec a b), (N.ltb_spec (a + d) (b + d)); try reflexivity; lia. Qed.
Lemma eqb_shift a b d : (a + d =? b + d) = (a =? b).
Proof. destruct (N.eqb_spec a b), (N.eqb_spec (a + d) (b + d)); try reflexivity; lia. Qed.

Lemma sh_set_pc d P c t r a : set_pc (Sh d P c t r) (a + d) = Sh d P c t (set_pc r a).
Proof. reflexivity. Qed.

(* END closes the direct line the same way *)
Lemma shifted_end : forall d P c t r, exists c' t', do_end (Sh d P c t r) = (Sh d P c' t' (fst (do_end r)), snd (do_end r)).
Proof.
  intros d P c t r. unfold do_end. sh_cbn. rewrite ltb_shift.
  destruct (r_pc r <? r_entry r); sh_cbn; rewrite eqb_shift;
    match goal with |- context [if ?b then _ else _] => destruct b end; sh_done.
Qed.

(* the run on the machine at hand: it does not trace, and every instruction it fetches is also what the other program holds
   d places further on -- an address-free instruction, or the END that closes the line *)
Fixpoint direct_safe (d : N) (P : program * listing) (fuel : nat) (h : bool) (r : rt) : Prop :=
  match fuel with
  | 0%nat => True
  | S f => r_tron r = false /\
           exists op, nthN (l_ops (pg_link (r_prog r))) (r_pc r) = Some op /\ nthN (l_ops (pg_link (fst P))) (r_pc r + d) = Some op /\
             (op = OpEnd \/ (address_free op = true /\
                             match exec_op O h op (set_pc r (r_pc r + 1)) with (r2, Ok None) => direct_safe d P f h r2 | _ => True end))
  end.

Theorem direct_line_ignores_the_program : forall fuel h d P r c t, direct_safe d P fuel h r ->
  exists c' t', exec_loop O fuel h (Sh d P c t r) = (Sh d P c' t' (fst (exec_loop O fuel h r)), snd (exec_loop O fuel h r)).
Proof.
  induction fuel as [| f IH]; intros h d P r c t Hs; [cbn [exec_loop]; unfold rret; sh_done |].
  destruct Hs as (Htron & op & Hop & HopP & Hcase).
  rewrite (exec_loop_S_notron O f h r Htron). rewrite (exec_loop_S_notron O f h (Sh d P c t r)) by exact Htron.
  rewrite !one_op_eq. rewrite Hop.
  change (r_pc (Sh d P c t r)) with (r_pc r + d). change (l_ops (pg_link (r_prog (Sh d P c t r)))) with (l_ops (pg_link (fst P))). rewrite HopP.
  replace (r_pc r + d + 1) with (r_pc r + 1 + d) by lia. rewrite sh_set_pc.
  set (r1 := set_pc r (r_pc r + 1)) in *.
  destruct Hcase as [-> | [Hfree Hnext]].
  - (* END *)
    cbn [exec_op]. unfold rbind. destruct (shifted_end d P c t r1) as [c1 [t1 E]]. rewrite E.
    destruct (do_end r1) as [r2 [ev | e | |]]; cbn [fst snd]; unfold rret; sh_done.
  - destruct (shifted_exec_op O h op Hfree d P c t r1) as [c1 [t1 E1]]. rewrite E1.
    destruct (exec_op O h op r1) as [r2 [[ev |] | e | |]] eqn:E2; cbn [fst snd]; try sh_done.
    exact (IH h d P r2 c1 t1 Hnext).
Qed.
End Loop.

(* non-vacuity: the same direct line typed into an empty machine and into one holding a program *)
From BL Require Import Proofs.ContTrip Drv.Driver.
Require Import String.
Definition ds_line : str := s2l "A=5:PRINT A*2;".
Definition ds_empty : rt :=
  let O := dummy_oracle in
  let r0 := ok_ex (rt_execute O rt_default 5000) in
  let r1 := ok_ex (rt_execute O r0 5000) in
  ok_rt (rt_enter O r1 ds_line).
Definition ds_loaded : rt :=
  let O := dummy_oracle in
  let r0 := ok_ex (rt_execute O rt_default 5000) in
  let r1 := ok_rt (rt_enter O r0 (s2l "10 FOR I=1 TO 3:PRINT I:NEXT")) in
  let r2 := ok_rt (rt_enter O r1 (s2l "20 GOTO 10")) in
  let r3 := ok_ex (rt_execute O r2 5000) in
  ok_rt (rt_enter O r3 ds_line).
Ltac ds_fetch := split; [vm_compute; reflexivity |]; eexists; split; [vm_compute; reflexivity |]; split; [vm_compute; reflexivity |].
Ltac ds_go := right; split; [reflexivity |];
  match goal with |- context [exec_op ?a ?b ?c ?d] => let v := eval vm_compute in (exec_op a b c d) in change (exec_op a b c d) with v end;
  cbv iota beta.
Example ds_premises :
  let d := r_entry ds_loaded - r_entry ds_empty in
  let PL := (r_prog ds_loaded, r_listing ds_loaded) in
  0 < d /\ Sh d PL (r_cont_pc ds_loaded) (r_tr ds_loaded) ds_empty = ds_loaded
  /\ direct_safe dummy_oracle d PL 3 false ds_empty.
Proof.
  cbn zeta. split; [vm_compute; reflexivity |]. split; [vm_compute; reflexivity |].
  cbn [direct_safe]. ds_fetch. ds_go. ds_fetch. ds_go. ds_fetch. ds_go. exact I.
Qed.
