(* C11: the cursor column is the number of characters printed since the last newline. *)
From BL Require Import Base.Prelude Base.Floats Mach.Val Mach.Ops Mach.Func Mach.Var
     Lang.Token Lang.Lex Lang.Ast Lang.Parse Mach.Compile Mach.Listing Mach.Runtime.
From Coq Require Import Lia.
From BL Require Import Proofs.DecN.
Local Open Scope N_scope.

Lemma advance_col_app c a b : advance_col c (a ++ b) = advance_col (advance_col c a) b.
Proof. unfold advance_col. apply fold_left_app. Qed.

Theorem col_no_newline : forall s c, ~ In 10 s -> advance_col c s = c + lenN s.
Proof.
  induction s as [| ch r IH]; intros c H; [unfold lenN; cbn; lia |].
  change (advance_col c (ch :: r)) with (advance_col (if ch =? 10 then 0 else c + 1) r).
  destruct (N.eqb_spec ch 10) as [-> | _]; [exfalso; apply H; left; reflexivity |].
  rewrite IH by (intros Hin; apply H; right; exact Hin). unfold lenN. cbn [length]. lia.
Qed.

Theorem col_after_newline : forall a b c, advance_col c (a ++ 10 :: b) = advance_col 0 b.
Proof. intros a b c. rewrite advance_col_app. reflexivity. Qed.

(* so: after printing anything, the column is the length of what follows the last newline (or old column + everything) *)
Corollary col_is_chars_since_newline : forall a b c, ~ In 10 b -> advance_col c (a ++ 10 :: b) = lenN b.
Proof. intros a b c H. rewrite col_after_newline, col_no_newline by exact H. lia. Qed.

(* PRINT of one item moves the column by exactly the characters of that item and reports them *)
Theorem print_moves_column : forall r s rest, r_stack r = VStr s :: rest ->
  let '(r', x) := do_print r in
  x = Ok (EvPrint s) /\ r_col r' = advance_col (r_col r) s /\ r_stack r' = rest.
Proof. intros r s rest H. unfold do_print, rbind, pop. rewrite H. cbn. repeat split; reflexivity. Qed.

(* a number is printed with one trailing blank (the leading blank or minus sign comes from fmt_val) *)
Theorem print_number_trailing_blank : forall r v rest, r_stack r = v :: rest ->
  (match v with VStr _ => False | _ => True end) ->
  snd (do_print r) = Ok (EvPrint (fmt_val v ++ [c_space])).
Proof. intros r v rest H Hv. unfold do_print, rbind, pop. rewrite H. destruct v; try contradiction; reflexivity. Qed.

(* ---------- earlier local lemmas ---------- *)
Local Open Scope Z_scope.

Lemma old_C11_zone : forall col, exists k,
  fn_tab col (VInt (-14)) = Ok (VStr (repeatN c_space k)) /\ (1 <= Z.of_N k <= 14) /\ (Z.of_N col + Z.of_N k) mod 14 = 0.
Proof.
  intros col. exists (Z.to_N (14 - Z.of_N col mod 14)).
  pose proof (Z.mod_pos_bound (Z.of_N col) 14 ltac:(lia)) as Hm.
  split; [| split].
  - unfold fn_tab, to_i16, bind. cbn. reflexivity.
  - rewrite Z2N.id by lia. lia.
  - rewrite Z2N.id by lia.
    replace (Z.of_N col + (14 - Z.of_N col mod 14)) with ((Z.of_N col - Z.of_N col mod 14) + 1 * 14) by lia.
    rewrite Z.mod_add by lia.
    rewrite Zminus_mod, Zmod_mod, Z.sub_diag. reflexivity.
Qed.

Lemma old_C11_tab : forall col n, 0 <= n <= 255 ->
  fn_tab col (VInt n) = Ok (VStr (repeatN c_space (Z.to_N (if Z.of_N col <? n then n - Z.of_N col else 0)))).
Proof.
  intros col n H. unfold fn_tab, to_i16, bind.
  destruct (Z.ltb_spec n (-255)); [lia |].
  destruct (Z.ltb_spec 255 n); [lia |]. cbn [orb].
  destruct (Z.ltb_spec n 0); [lia |]. reflexivity.
Qed.

(* ---------- numbers: leading blank or minus sign ---------- *)
Local Open Scope N_scope.
Theorem number_leading_sign : forall v, (match v with VInt _ | VSng _ | VDbl _ => True | _ => False end) ->
  exists c rest, fmt_val v = c :: rest /\ (c = 32 \/ c = 45).
Proof.
  assert (Hlead : forall s : str, exists c rest,
            (match s with c :: _ => if (c =? 45)%N then s else c_space :: s | [] => [c_space] end) = c :: rest /\ (c = 32 \/ c = 45)).
  { intros s. destruct s as [| c r]; [eexists; eexists; split; [reflexivity | left; reflexivity] |].
    destruct (N.eqb_spec c 45) as [-> | _]; eexists; eexists; (split; [reflexivity |]); [right | left]; reflexivity. }
  intros v Hv. destruct v; try contradiction; cbn [fmt_val]; apply Hlead.
Qed.

(* a non-negative Integer prints as a blank and its decimal digits, which read back as the number *)
Theorem integer_format : forall n, (0 <= n)%Z ->
  fmt_val (VInt n) = 32 :: dec_of_N (Z.to_N n) /\ parse_udec (dec_of_N (Z.to_N n)) = Some (Z.to_N n).
Proof.
  intros n Hn. split; [| apply Proofs.DecN.parse_dec_of_N].
  cbn [fmt_val]. unfold dec_of_Z. destruct (Z.ltb_spec n 0); [lia |].
  replace (Z.abs_N n) with (Z.to_N n) by lia.
  pose proof (Proofs.DecN.dec_of_N_digits (Z.to_N n)) as Hd.
  destruct (dec_of_N (Z.to_N n)) as [| c r] eqn:E; [reflexivity |].
  cbn in Hd. apply andb_prop in Hd. destruct Hd as [Hc _]. unfold is_digit in Hc. apply andb_prop in Hc. destruct Hc as [H1 H2].
  apply N.leb_le in H1, H2. destruct (N.eqb_spec c 45); [lia | reflexivity].
Qed.
