(* C20 -- a line that generates no code (a remark, an empty statement) is invisible in the compiled program: inserting it
   changes neither the instructions nor the DATA, only the symbol table gains its number; and when nothing refers to it and
   code follows it, the linked program has the same instructions too. *)
From BL Require Import Base.Prelude Base.Floats Mach.Val Mach.Ops Mach.Func Mach.Var
     Lang.Token Lang.Lex Lang.Ast Lang.Parse Mach.Compile Proofs.DataSeg Proofs.SymSeg Proofs.Reloc.
From Coq Require Import Lia.
Local Open Scope N_scope.

Section EmptyLine.
Variable n : N.            (* the number of the inserted line *)
Notation key := (Z.of_N n).

(* s' is s with one entry for the new line put somewhere *)
Definition Ins (s s' : list (Z * (N * N))) : Prop := exists a b v, s = a ++ b /\ s' = a ++ (key, v) :: b.

Lemma zassoc_set_app_l {V} k (v : V) : forall a b, (exists v0, In (k, v0) a) -> zassoc_set k v (a ++ b) = zassoc_set k v a ++ b.
Proof.
  induction a as [| [k0 v0] r IH]; intros b [w Hin]; [contradiction |]. cbn [app zassoc_set].
  destruct (Z.eqb_spec k k0); [reflexivity |]. destruct Hin as [E | Hin]; [injection E as -> _; contradiction |].
  rewrite (IH b (ex_intro _ w Hin)). reflexivity.
Qed.
Lemma zassoc_set_app_r {V} k (v : V) : forall a b, (forall v0, ~ In (k, v0) a) -> zassoc_set k v (a ++ b) = a ++ zassoc_set k v b.
Proof.
  induction a as [| [k0 v0] r IH]; intros b Hn; [reflexivity |]. cbn [app zassoc_set].
  destruct (Z.eqb_spec k k0) as [-> | Hne]; [exfalso; exact (Hn v0 (or_introl eq_refl)) |].
  rewrite IH; [reflexivity |]. intros w Hw. exact (Hn w (or_intror Hw)).
Qed.
Lemma key_dec {V} k (a : list (Z * V)) : (exists v0, In (k, v0) a) \/ (forall v0, ~ In (k, v0) a).
Proof.
  induction a as [| [k0 v0] r IH]; [right; intros v0 [] |].
  destruct (Z.eq_dec k k0) as [-> | Hne]; [left; exists v0; left; reflexivity |].
  destruct IH as [[w Hw] | Hn]; [left; exists w; right; exact Hw | right].
  intros w [E | Hw]; [injection E as E _; apply Hne; symmetry; exact E | exact (Hn w Hw)].
Qed.

(* setting another key on both sides keeps the relation *)
Lemma ins_set : forall s s' k v, Ins s s' -> k <> key -> Ins (zassoc_set k v s) (zassoc_set k v s').
Proof.
  intros s s' k v [a [b [w [-> ->]]]] Hne.
  destruct (key_dec k a) as [Ha | Ha].
  - rewrite !zassoc_set_app_l by exact Ha. exists (zassoc_set k v a), b, w. split; reflexivity.
  - rewrite !zassoc_set_app_r by exact Ha. cbn [zassoc_set]. destruct (Z.eqb_spec k key); [contradiction |].
    exists a, (zassoc_set k v b), w. split; reflexivity.
Qed.

Lemma ins_fold (g : Z * (N * N) -> Z) (h : Z * (N * N) -> N * N) : forall fs s s', Ins s s' -> (forall e, In e fs -> g e <> key) ->
  Ins (fold_left (fun acc e => zassoc_set (g e) (h e) acc) fs s) (fold_left (fun acc e => zassoc_set (g e) (h e) acc) fs s').
Proof.
  induction fs as [| e r IH]; intros s s' H Hk; cbn [fold_left]; [exact H |].
  apply IH; [apply ins_set; [exact H | apply Hk; left; reflexivity] | intros e' He'; apply Hk; right; exact He'].
Qed.

Lemma ins_get : forall s s' k, Ins s s' -> k <> key -> zassoc_get k s' = zassoc_get k s.
Proof.
  intros s s' k [a [b [w [-> ->]]]] Hne. induction a as [| [k0 v0] r IH]; cbn [app zassoc_get].
  - destruct (Z.eqb_spec k key); [contradiction | reflexivity].
  - destruct (k =? k0)%Z; [reflexivity | exact IH].
Qed.

Lemma ins_existsb (f : Z * (N * N) -> bool) : forall s s', Ins s s' -> exists v, existsb f s' = existsb f s || f (key, v).
Proof.
  intros s s' [a [b [w [-> ->]]]]. exists w. rewrite !existsb_app. cbn [existsb].
  destruct (existsb f a), (f (key, w)), (existsb f b); reflexivity.
Qed.

(* links and programs that differ in that way only *)
Definition LS (L L' : link) : Prop :=
  l_cur L' = l_cur L /\ l_ops L' = l_ops L /\ l_data L' = l_data L /\ l_data_pos L' = l_data_pos L /\ l_direct_set L' = l_direct_set L
  /\ l_unlinked L' = l_unlinked L /\ l_whiles L' = l_whiles L /\ Ins (l_syms L) (l_syms L').
Definition PS (p p' : program) : Prop :=
  pg_errors p' = pg_errors p /\ pg_ind_errors p' = pg_ind_errors p /\ pg_direct p' = pg_direct p /\ pg_line p' = pg_line p
  /\ LS (pg_link p) (pg_link p').
(* the same without the "current line" register, which every numbered line sets first *)
Definition PS0 (p p' : program) : Prop :=
  pg_errors p' = pg_errors p /\ pg_ind_errors p' = pg_ind_errors p /\ pg_direct p' = pg_direct p /\ LS (pg_link p) (pg_link p').

Lemma ls_append f : forall L L', LS L L' -> (forall e, In e (l_syms f) -> (fst e < 0)%Z) -> (l_cur L <= 0)%Z ->
  LS (fst (l_append f L)) (fst (l_append f L')) /\ snd (l_append f L') = snd (l_append f L).
Proof.
  intros L L' (Hc & Ho & Hd & Hp & Hs & Hu & Hw & Hi) Hneg Hcur. unfold l_append. rewrite Hs, Hc, Ho, Hd, Hp, Hu, Hw.
  destruct (l_direct_set L && _); [cbn [fst snd]; split; [| reflexivity]; repeat split; assumption |].
  assert (Hi2 : Ins (fold_left (fun acc e => zassoc_set (if (fst e <? 0)%Z then (fst e + l_cur L)%Z else fst e)
                                                         (fst (snd e) + lenN (l_ops L), snd (snd e) + lenN (l_data L)) acc) (l_syms f) (l_syms L))
                    (fold_left (fun acc e => zassoc_set (if (fst e <? 0)%Z then (fst e + l_cur L)%Z else fst e)
                                                         (fst (snd e) + lenN (l_ops L), snd (snd e) + lenN (l_data L)) acc) (l_syms f) (l_syms L'))).
  { apply (ins_fold (fun e => if (fst e <? 0)%Z then (fst e + l_cur L)%Z else fst e)
                    (fun e => (fst (snd e) + lenN (l_ops L), snd (snd e) + lenN (l_data L)))); [exact Hi |].
    intros e He. specialize (Hneg e He). destruct (Z.ltb_spec (fst e) 0); lia. }
  cbn [l_ops l_data]. destruct (MAX_POOL <? lenN (l_ops L ++ l_ops f)); cbn [fst snd set_data l_data l_ops];
    [split; [| reflexivity]; repeat split; try reflexivity; exact Hi2 |].
  split; [| reflexivity]. repeat split; try reflexivity. exact Hi2.
Qed.

Lemma ps_with_link p p' L L' : PS p p' -> LS L L' -> PS (with_link p L) (with_link p' L').
Proof. intros (H1 & H2 & H3 & H4 & _) HL. unfold PS, with_link. cbn. split; [exact H1 | split; [exact H2 | split; [exact H3 | split; [exact H4 | exact HL]]]]. Qed.
Lemma ps_prog_error p p' e : PS p p' -> PS (prog_error p e) (prog_error p' e).
Proof. intros (H1 & H2 & H3 & H4 & H5). unfold PS, prog_error. cbn. rewrite H1, H4. split; [reflexivity | split; [exact H2 | split; [exact H3 | split; [reflexivity | exact H5]]]]. Qed.
Lemma ps_fold_error : forall errs p p', PS p p' -> PS (fold_left prog_error errs p) (fold_left prog_error errs p').
Proof. induction errs as [| e r IH]; intros p p' H; cbn [fold_left]; [exact H |]. apply IH. apply ps_prog_error. exact H. Qed.

Lemma ps_append_frags : forall fs p p', PS p p' -> Forall (fun f : frag => Inv (snd f)) fs -> (l_cur (pg_link p) <= 0)%Z ->
  PS (append_stmt_frags p fs) (append_stmt_frags p' fs) /\ (l_cur (pg_link (append_stmt_frags p fs)) <= 0)%Z.
Proof.
  induction fs as [| f r IH]; intros p p' HP HF Hc; cbn [append_stmt_frags]; [split; assumption |].
  inversion HF as [| ? ? [Hcf Hkf] Hr]; subst.
  destruct HP as (H1 & H2 & H3 & H4 & HL).
  destruct (ls_append (snd f) (pg_link p) (pg_link p') HL) as [HL1 Hres]; [intros e He; destruct e as [k v]; exact (proj2 (Hkf k v He)) | exact Hc |].
  assert (Hcur : (l_cur (fst (l_append (snd f) (pg_link p))) <= 0)%Z).
  { unfold l_append. destruct (l_direct_set (pg_link p) && _); [exact Hc |].
    match goal with |- context [MAX_POOL <? lenN (l_ops ?x)] => destruct (MAX_POOL <? lenN (l_ops x)) end; cbn [fst set_data l_cur]; lia. }
  destruct (l_append (snd f) (pg_link p)) as [l1 x1]. destruct (l_append (snd f) (pg_link p')) as [l1' x1']. cbn [fst snd] in *. subst x1'.
  assert (HPw : PS (with_link p l1) (with_link p' l1')) by (apply ps_with_link; [split; [exact H1 | split; [exact H2 | split; [exact H3 | split; [exact H4 | exact HL]]]] | exact HL1]).
  destruct x1 as [u | e | |].
  - apply IH; [exact HPw | exact Hr | exact Hcur].
  - split; [apply ps_prog_error; exact HPw | exact Hcur].
  - split; [exact HPw | exact Hcur].
  - split; [exact HPw | exact Hcur].
Qed.

(* one more numbered line (not the inserted one) on both sides *)
Lemma ps_codegen_line : forall p p' m ss, PS0 p p' -> m <> n -> Forall (fun s => snd (cg_stmt s) = []) ss -> (l_cur (pg_link p) <= 0)%Z ->
  PS (codegen_line p (Some m) (Ok ss)) (codegen_line p' (Some m) (Ok ss))
  /\ (l_cur (pg_link (codegen_line p (Some m) (Ok ss))) <= 0)%Z.
Proof.
  intros p p' m ss HP Hm Hss Hc. unfold codegen_line, codegen_ast. cbn [with_link pg_link pg_errors pg_ind_errors pg_direct pg_line l_push_symbol].
  destruct HP as (H1 & H2 & H3 & (Lc & Lo & Ld & Lp & Ls & Lu & Lw & Li)).
  rewrite H1, H2, H3, Lc, Lo, Ld, Lp, Ls, Lu, Lw.
  apply ps_append_frags.
  - apply ps_fold_error. unfold PS, LS. cbn. repeat split; try reflexivity.
    apply ins_set; [exact Li |]. intros E. apply Hm. apply N2Z.inj. exact E.
  - rewrite map_map, Forall_map. rewrite Forall_forall in *. intros s Hin. apply cg_stmt_inv. exact (Hss s Hin).
  - rewrite fold_prog_error_link. cbn [pg_link l_cur]. exact Hc.
Qed.

Lemma ps_ps0 p p' : PS p p' -> PS0 p p'.
Proof. intros (H1 & H2 & H3 & _ & H5). repeat split; try assumption; apply H5. Qed.

Lemma get_none_fresh {V} k : forall (s : list (Z * V)), zassoc_get k s = None -> forall v, zassoc_set k v s = s ++ [(k, v)].
Proof.
  induction s as [| [k0 v0] r IH]; intros H v; cbn [zassoc_set app]; [reflexivity |]. cbn [zassoc_get] in H.
  destruct (k =? k0)%Z; [discriminate |]. rewrite (IH H). reflexivity.
Qed.

(* the inserted line itself: nothing but its symbol *)
Lemma empty_line_ps0 : forall p, zassoc_get key (l_syms (pg_link p)) = None -> PS0 p (codegen_line p (Some n) (Ok [])).
Proof.
  intros p Hf. unfold codegen_line, codegen_ast. cbn [map flat_map fold_left append_stmt_frags with_link pg_link pg_errors pg_ind_errors pg_direct pg_line l_push_symbol fst].
  unfold PS0, LS. cbn. repeat split; try reflexivity.
  rewrite (get_none_fresh key _ Hf). exists (l_syms (pg_link p)), [], (lenN (l_ops (pg_link p)), lenN (l_data (pg_link p))).
  split; [rewrite app_nil_r; reflexivity | reflexivity].
Qed.

Lemma ps_compile_from : forall lines p p', PS0 p p' -> ~ In n (map fst lines) ->
  Forall (fun e => Forall (fun s => snd (cg_stmt s) = []) (snd e)) lines -> (l_cur (pg_link p) <= 0)%Z ->
  PS0 (compile_from p lines) (compile_from p' lines).
Proof.
  induction lines as [| [m ss] r IH]; intros p p' HP Hn HF Hc; [exact HP |]. rewrite !compile_from_cons.
  inversion HF as [| ? ? Hss Hr]; subst. cbn [map fst In] in Hn.
  destruct (ps_codegen_line p p' m ss HP ltac:(intros E; apply Hn; left; exact E) Hss Hc) as [HP1 Hc1].
  apply IH; [apply ps_ps0; exact HP1 | intros Hin; apply Hn; right; exact Hin | exact Hr | exact Hc1].
Qed.

(* THE THEOREM, compile level: with the line or without it, the same instructions, DATA, open references and WHILE records;
   the symbol table has the one entry more *)
Theorem empty_line_compiles_away : forall before after p0,
  pg_errors (compile_from p0 (before ++ (n, []) :: after)) = [] -> PInv (pg_link p0) ->
  zassoc_get key (l_syms (pg_link p0)) = None -> ~ In n (map fst before) -> ~ In n (map fst after) ->
  PS0 (compile_from p0 (before ++ after)) (compile_from p0 (before ++ (n, []) :: after)).
Proof.
  intros before after p0 H HP Hf Hb Ha. rewrite !compile_from_app, compile_from_cons in *.
  set (P1 := compile_from p0 before) in *.
  destruct (compile_from_data after _ H) as (H1 & HFa & _).
  destruct (codegen_line_data P1 n [] H1) as (H0 & _ & _).
  pose proof (compile_from_pinv before p0 H0 HP) as HP1. fold P1 in HP1.
  assert (Hfresh : zassoc_get key (l_syms (pg_link P1)) = None).
  { unfold P1. rewrite (compile_from_others before p0 key H0 HP ltac:(lia)); [exact Hf |].
    intros e He E. apply Hb. apply N2Z.inj in E. rewrite <- E. apply in_map. exact He. }
  apply ps_compile_from; [apply empty_line_ps0; exact Hfresh | exact Ha | exact HFa | exact (proj1 HP1)].
Qed.

(* ---------- linking ---------- *)
(* the WHILE / WEND pairing reads the symbol table for its messages only *)
Lemma whiles_unl_indep : forall ws st syms syms' unl errs errs',
  fst (link_whiles_loop ws st syms' unl errs') = fst (link_whiles_loop ws st syms unl errs).
Proof.
  induction ws as [| [[[k c] a] sy] r IH]; intros st syms syms' unl errs errs'; cbn [link_whiles_loop]; [reflexivity |].
  destruct k; [apply IH |]. destruct st as [| [[wc wa] ws'] st']; apply IH.
Qed.

Definition no_ref (unl : list (N * (col * Z))) : Prop := forall a c, ~ In (a, (c, key)) unl.

Lemma nassoc_set_in2 {V} k (v : V) : forall l k' v', In (k', v') (nassoc_set k v l) -> (k' = k /\ v' = v) \/ In (k', v') l.
Proof.
  induction l as [| [k0 v0] r IH]; intros k' v' H; cbn [nassoc_set] in H.
  - destruct H as [E | []]. injection E as <- <-. left. split; reflexivity.
  - destruct (k =? k0) eqn:Ek.
    + destruct H as [E | H]; [injection E as <- <-; left; split; reflexivity | right; right; exact H].
    + destruct H as [E | H]; [right; left; exact E |]. destruct (IH _ _ H) as [Lf | R]; [left; exact Lf | right; right; exact R].
Qed.

Lemma whiles_no_ref : forall ws st syms unl errs,
  (forall k c a, ~ In (k, c, a, key) ws) -> (forall c a, ~ In (c, a, key) st) -> no_ref unl ->
  no_ref (fst (link_whiles_loop ws st syms unl errs)).
Proof.
  induction ws as [| [[[k c] a] sy] r IH]; intros st syms unl errs Hw Hst Hu; cbn [link_whiles_loop]; [exact Hu |].
  assert (Hsy : sy <> key) by (intros ->; exact (Hw k c a (or_introl eq_refl))).
  assert (Hr : forall k0 c0 a0, ~ In (k0, c0, a0, key) r) by (intros k0 c0 a0 Hin; exact (Hw k0 c0 a0 (or_intror Hin))).
  destruct k.
  - apply IH; [exact Hr | | exact Hu]. intros c0 a0 [E | Hin]; [injection E as _ _ E; exact (Hsy E) | exact (Hst c0 a0 Hin)].
  - destruct st as [| [[wc wa] ws'] st']; [apply IH; assumption |].
    apply IH; [exact Hr | intros c0 a0 Hin; exact (Hst c0 a0 (or_intror Hin)) |].
    intros a0 c0 Hin. apply nassoc_set_in2 in Hin. destruct Hin as [[_ E] | Hin].
    + injection E as _ E. exact (Hst wc wa (or_introl (f_equal _ (eq_sym E)))).
    + apply nassoc_set_in2 in Hin. destruct Hin as [[_ E] | Hin]; [injection E as _ E; exact (Hsy (eq_sym E)) | exact (Hu a0 c0 Hin)].
Qed.

(* resolving the references: only the looked-up entries matter for the instructions *)
Lemma fold_lstep_ops : forall syms syms' unl ops errs errs', Ins syms syms' -> no_ref unl ->
  fst (fold_left (lstep syms') unl (ops, errs')) = fst (fold_left (lstep syms) unl (ops, errs)).
Proof.
  intros syms syms' unl. induction unl as [| [addr [c sym]] r IH]; intros ops errs errs' Hi Hn; [reflexivity |]. cbn [fold_left].
  assert (Hsym : sym <> key) by (intros ->; exact (Hn addr c (or_introl eq_refl))).
  assert (Hr : no_ref r) by (intros a0 c0 Hin; exact (Hn a0 c0 (or_intror Hin))).
  unfold lstep at 2 4. rewrite (ins_get syms syms' sym Hi Hsym).
  destruct (zassoc_get sym syms) as [dest |]; [| destruct (0 <=? sym)%Z; apply IH; assumption].
  destruct (nthN ops addr) as [op |]; [| apply IH; assumption]. destruct (patch_op op dest); apply IH; assumption.
Qed.

(* THE THEOREM, link level *)
Theorem empty_line_links_away : forall p p', PS0 p p' ->
  no_ref (l_unlinked (pg_link p)) -> (forall k c a, ~ In (k, c, a, key) (l_whiles (pg_link p))) ->
  (forall v, fst v = lenN (l_ops (pg_link p)) -> ~ In (key, v) (l_syms (pg_link p'))) ->
  l_ops (pg_link (program_link p')) = l_ops (pg_link (program_link p))
  /\ l_data (pg_link (program_link p')) = l_data (pg_link (program_link p))
  /\ pg_direct (program_link p') = pg_direct (program_link p).
Proof.
  intros p p' (H1 & H2 & H3 & (Lc & Lo & Ld & Lp & Ls & Lu & Lw & Li)) Hn Hwh Hend.
  assert (Hat : existsb (fun e : Z * (N * N) => fst (snd e) =? lenN (l_ops (pg_link p'))) (l_syms (pg_link p'))
                = existsb (fun e : Z * (N * N) => fst (snd e) =? lenN (l_ops (pg_link p))) (l_syms (pg_link p))).
  { rewrite Lo. destruct Li as [a [b [w [Es Es']]]]. rewrite Es, Es'. rewrite !existsb_app. cbn [existsb fst snd].
    destruct (N.eqb_spec (fst w) (lenN (l_ops (pg_link p)))) as [E | _]; [| reflexivity].
    exfalso. apply (Hend w E). rewrite Es'. apply in_or_app. right. left. reflexivity. }
  unfold program_link. rewrite Hat, Lo.
  set (b := last_is_end (l_ops (pg_link p)) && negb (existsb (fun e : Z * (N * N) => fst (snd e) =? lenN (l_ops (pg_link p))) (l_syms (pg_link p)))).
  (* the links handed to link_link are related in the same way *)
  assert (G : forall q q', pg_errors q' = pg_errors q -> pg_ind_errors q' = pg_ind_errors q -> pg_direct q' = pg_direct q ->
            l_cur (pg_link q') = l_cur (pg_link q) -> l_ops (pg_link q') = l_ops (pg_link q) -> l_data (pg_link q') = l_data (pg_link q) ->
            l_data_pos (pg_link q') = l_data_pos (pg_link q) -> l_direct_set (pg_link q') = l_direct_set (pg_link q) ->
            l_unlinked (pg_link q') = l_unlinked (pg_link q) -> l_whiles (pg_link q') = l_whiles (pg_link q) ->
            Ins (l_syms (pg_link q)) (l_syms (pg_link q')) -> no_ref (l_unlinked (pg_link q)) ->
            (forall k c a, ~ In (k, c, a, key) (l_whiles (pg_link q))) ->
            let r := (let '(l2, lerrs) := link_link (pg_link q) in
                      let errs := match pg_errors q with [] => lerrs | _ => pg_errors q end in
                      if pg_direct q =? 0 then
                        let da := lenN (l_ops l2) in
                        mkProg [] errs da (pg_line q) (mkLink (l_cur l2) (l_ops l2) (l_data l2) (l_data_pos l2) true
                               (zassoc_set 65530 (da, lenN (l_data l2)) (l_syms l2)) (l_unlinked l2) (l_whiles l2))
                      else mkProg errs (pg_ind_errors q) (pg_direct q) (pg_line q) l2) in
            let r' := (let '(l2, lerrs) := link_link (pg_link q') in
                       let errs := match pg_errors q' with [] => lerrs | _ => pg_errors q' end in
                       if pg_direct q' =? 0 then
                         let da := lenN (l_ops l2) in
                         mkProg [] errs da (pg_line q') (mkLink (l_cur l2) (l_ops l2) (l_data l2) (l_data_pos l2) true
                                (zassoc_set 65530 (da, lenN (l_data l2)) (l_syms l2)) (l_unlinked l2) (l_whiles l2))
                       else mkProg errs (pg_ind_errors q') (pg_direct q') (pg_line q') l2) in
            l_ops (pg_link r') = l_ops (pg_link r) /\ l_data (pg_link r') = l_data (pg_link r) /\ pg_direct r' = pg_direct r).
  { intros q q' E1 E2 E3 Ec Eo Ed Ep Es Eu Ew Ei Hnr Hnw. cbn zeta.
    pose proof (link_link_is_fold (pg_link q)) as F. pose proof (link_link_is_fold (pg_link q')) as F'.
    unfold link_link in *. rewrite Ew, Eu, Eo in *.
    rewrite (surjective_pairing (link_whiles_loop (l_whiles (pg_link q)) [] (l_syms (pg_link q')) (l_unlinked (pg_link q)) [])) in *.
    rewrite (surjective_pairing (link_whiles_loop (l_whiles (pg_link q)) [] (l_syms (pg_link q)) (l_unlinked (pg_link q)) [])) in *.
    rewrite (whiles_unl_indep (l_whiles (pg_link q)) [] (l_syms (pg_link q)) (l_syms (pg_link q')) (l_unlinked (pg_link q)) [] []) in *.
    set (unl := fst (link_whiles_loop (l_whiles (pg_link q)) [] (l_syms (pg_link q)) (l_unlinked (pg_link q)) [])) in *.
    assert (Hunl : no_ref unl) by (apply whiles_no_ref; [exact Hnw | intros c a [] | exact Hnr]).
    set (w := snd (link_whiles_loop (l_whiles (pg_link q)) [] (l_syms (pg_link q)) (l_unlinked (pg_link q)) [])) in *.
    set (w' := snd (link_whiles_loop (l_whiles (pg_link q)) [] (l_syms (pg_link q')) (l_unlinked (pg_link q)) [])) in *.
    pose proof (fold_lstep_ops (l_syms (pg_link q)) (l_syms (pg_link q')) unl (l_ops (pg_link q)) w w' Ei Hunl) as Hops.
    rewrite (surjective_pairing (fold_left _ unl (l_ops (pg_link q), w'))) in *.
    rewrite (surjective_pairing (fold_left _ unl (l_ops (pg_link q), w))) in *.
    cbn [fst snd l_ops] in F, F'. rewrite E3, Ed, Ep.
    destruct (pg_direct q =? 0); cbn [pg_link pg_direct l_ops l_data]; rewrite ?F, ?F', ?Hops; repeat split; reflexivity. }
  destruct b.
  - apply G; try assumption.
  - unfold l_push. rewrite Lo.
    destruct (MAX_POOL <? lenN (l_ops (set_ops (pg_link p) (l_ops (pg_link p) ++ [OpEnd])))) eqn:Eov;
      assert (Eov' : (MAX_POOL <? lenN (l_ops (set_ops (pg_link p') (l_ops (pg_link p) ++ [OpEnd])))) = (MAX_POOL <? lenN (l_ops (set_ops (pg_link p) (l_ops (pg_link p) ++ [OpEnd]))))) by reflexivity;
      rewrite Eov'; rewrite Eov; cbn [fst snd];
      apply G; cbn [prog_raw_error with_link pg_link pg_errors pg_ind_errors pg_direct set_ops l_cur l_ops l_data l_data_pos l_direct_set l_unlinked l_whiles l_syms];
      try assumption; try reflexivity; try (rewrite H1; reflexivity).
Qed.

Lemma get_none_no_entry {V} k : forall (s : list (Z * V)) v, zassoc_get k s = None -> ~ In (k, v) s.
Proof.
  induction s as [| [k0 v0] r IH]; intros v H Hin; [contradiction |]. cbn [zassoc_get] in H.
  destruct (Z.eqb_spec k k0) as [-> | Hne]; [discriminate |].
  destruct Hin as [E | Hin]; [injection E as E _; apply Hne; symmetry; exact E | exact (IH v H Hin)].
Qed.

(* both halves together, for a program compiled from the lines before and after *)
Theorem empty_line_is_invisible : forall before after p0,
  pg_errors (compile_from p0 (before ++ (n, []) :: after)) = [] -> PInv (pg_link p0) ->
  zassoc_get key (l_syms (pg_link p0)) = None -> ~ In n (map fst before) -> ~ In n (map fst after) ->
  let P := compile_from p0 (before ++ after) in
  let P' := compile_from p0 (before ++ (n, []) :: after) in
  pg_errors P = [] ->
  no_ref (l_unlinked (pg_link P)) -> (forall k c a, ~ In (k, c, a, key) (l_whiles (pg_link P))) ->
  lenN (l_ops (pg_link (compile_from p0 before))) <> lenN (l_ops (pg_link P)) ->
  l_ops (pg_link (program_link P')) = l_ops (pg_link (program_link P))
  /\ l_data (pg_link (program_link P')) = l_data (pg_link (program_link P))
  /\ pg_direct (program_link P') = pg_direct (program_link P).
Proof.
  intros before after p0 H HP Hf Hb Ha. cbn zeta. intros HPe Hnr Hnw Hfollow.
  pose proof (empty_line_compiles_away before after p0 H HP Hf Hb Ha) as HPS.
  apply (empty_line_links_away _ _ HPS Hnr Hnw).
  intros v Hv Hin.
  (* the only entry for the new line in the longer table is the one the line put there *)
  destruct HPS as (_ & _ & _ & (_ & _ & _ & _ & _ & _ & _ & [a [b [w [Es Es']]]])).
  assert (Hnone : zassoc_get key (l_syms (pg_link (compile_from p0 (before ++ after)))) = None).
  { rewrite (compile_from_others (before ++ after) p0 key HPe HP ltac:(lia)); [exact Hf |].
    intros e He E. apply N2Z.inj in E. apply in_app_or in He.
    destruct He as [He | He]; [apply Hb | apply Ha]; rewrite <- E; apply in_map; exact He. }
  assert (Hw : v = w).
  { rewrite Es' in Hin. apply in_app_or in Hin. destruct Hin as [Hin | [E | Hin]].
    - exfalso. apply (get_none_no_entry key _ v Hnone). rewrite Es. apply in_or_app. left. exact Hin.
    - injection E as <-. reflexivity.
    - exfalso. apply (get_none_no_entry key _ v Hnone). rewrite Es. apply in_or_app. right. exact Hin. }
  subst v.
  pose proof (line_symbol_addresses before n [] after p0 H HP Ha) as Haddr.
  assert (Hget : zassoc_get key (l_syms (pg_link (compile_from p0 (before ++ (n, []) :: after)))) = Some w).
  { rewrite Es'. assert (Ga : zassoc_get key a = None /\ True).
    { split; [| exact I]. rewrite Es in Hnone. clear - Hnone. induction a as [| [k0 v0] r IH]; [reflexivity |].
      cbn [app zassoc_get] in *. destruct (key =? k0)%Z; [discriminate | exact (IH Hnone)]. }
    destruct Ga as [Ga _]. clear - Ga. induction a as [| [k0 v0] r IH]; cbn [app zassoc_get] in *.
    - rewrite Z.eqb_refl. reflexivity.
    - destruct (key =? k0)%Z; [discriminate | exact (IH Ga)]. }
  rewrite Hget in Haddr. injection Haddr as Haddr. rewrite Haddr in Hv. cbn [fst] in Hv. exact (Hfollow Hv).
Qed.
End EmptyLine.

(* ---------- splitting a line ---------- *)
(* the same relation covers a second layout change: the statements of one line given as two consecutive lines, the second one
   numbered n.  Code, DATA, references and WHILE records are the same; the symbol table gains the entry for n. *)
Section Split.
Variable n : N.
Notation key := (Z.of_N n).

Lemma append_frags_app : forall a b p, pg_errors (append_stmt_frags p (a ++ b)) = [] ->
  append_stmt_frags p (a ++ b) = append_stmt_frags (append_stmt_frags p a) b /\ pg_errors (append_stmt_frags p a) = [].
Proof.
  induction a as [| f r IH]; intros b p H; cbn [app append_stmt_frags] in *.
  - split; [reflexivity |]. destruct (append_frags_data b p H) as [Hp _]. exact Hp.
  - destruct (append_result (snd f) (pg_link p)) as [[l' E] | [l' [e E]]]; rewrite E in *; [exact (IH b _ H) |].
    exfalso. exact (prog_error_errors _ _ H).
Qed.

Lemma ps0_append_frags_ok : forall fs p p', PS0 n p p' -> Forall (fun f : frag => Inv (snd f)) fs -> (l_cur (pg_link p) <= 0)%Z ->
  pg_errors (append_stmt_frags p fs) = [] ->
  PS0 n (append_stmt_frags p fs) (append_stmt_frags p' fs).
Proof.
  induction fs as [| f r IH]; intros p p' HP HF Hc He; cbn [append_stmt_frags] in *; [exact HP |].
  inversion HF as [| ? ? [Hcf Hkf] Hr]; subst.
  destruct HP as (H1 & H2 & H3 & HL).
  destruct (ls_append n (snd f) (pg_link p) (pg_link p') HL) as [HL1 Hres]; [intros e He0; destruct e as [k v]; exact (proj2 (Hkf k v He0)) | exact Hc |].
  assert (Hcur : (l_cur (fst (l_append (snd f) (pg_link p))) <= 0)%Z).
  { unfold l_append. destruct (l_direct_set (pg_link p) && _); [exact Hc |].
    match goal with |- context [MAX_POOL <? lenN (l_ops ?x)] => destruct (MAX_POOL <? lenN (l_ops x)) end; cbn [fst set_data l_cur]; lia. }
  destruct (append_result (snd f) (pg_link p)) as [[l1 E] | [l1 [e E]]]; rewrite E in *; cbn [fst snd] in *.
  - destruct (l_append (snd f) (pg_link p')) as [l1' x1']. cbn [fst snd] in *. subst x1'.
    apply IH; [| exact Hr | exact Hcur | exact He]. unfold PS0, with_link. cbn. repeat split; try assumption; apply HL1.
  - exfalso. exact (prog_error_errors _ _ He).
Qed.

Lemma append_frags_cur : forall fs p, Forall (fun f : frag => Inv (snd f)) fs -> (l_cur (pg_link p) <= 0)%Z ->
  (l_cur (pg_link (append_stmt_frags p fs)) <= 0)%Z.
Proof.
  induction fs as [| f r IH]; intros p HF Hc; cbn [append_stmt_frags]; [exact Hc |].
  inversion HF as [| ? ? [Hcf Hkf] Hr]; subst.
  assert (Hcur : (l_cur (fst (l_append (snd f) (pg_link p))) <= 0)%Z).
  { unfold l_append. destruct (l_direct_set (pg_link p) && _); [exact Hc |].
    match goal with |- context [MAX_POOL <? lenN (l_ops ?x)] => destruct (MAX_POOL <? lenN (l_ops x)) end; cbn [fst set_data l_cur]; lia. }
  destruct (l_append (snd f) (pg_link p)) as [l1 [u | e | |]]; cbn [fst] in Hcur; [apply IH; assumption | | |]; exact Hcur.
Qed.

Definition sym_pushed (p : program) (m : N) : program :=
  mkProg (pg_errors p) (pg_ind_errors p) (pg_direct p) (Some m)
         (mkLink (l_cur (pg_link p)) (l_ops (pg_link p)) (l_data (pg_link p)) (l_data_pos (pg_link p)) (l_direct_set (pg_link p))
                 (zassoc_set (Z.of_N m) (lenN (l_ops (pg_link p)), lenN (l_data (pg_link p))) (l_syms (pg_link p)))
                 (l_unlinked (pg_link p)) (l_whiles (pg_link p))).
Definition frags_of (ss : list stmt) : list frag := map fst (map cg_stmt ss).

Lemma codegen_line_form : forall p m ss, flat_map snd (map cg_stmt ss) = [] ->
  codegen_line p (Some m) (Ok ss) = append_stmt_frags (sym_pushed p m) (frags_of ss).
Proof.
  intros p m ss He. unfold codegen_line, codegen_ast. cbn [with_link pg_link pg_errors pg_ind_errors pg_direct pg_line l_push_symbol fst].
  rewrite He. reflexivity.
Qed.

Lemma no_cg_errors : forall ss, Forall (fun s => snd (cg_stmt s) = []) ss -> flat_map snd (map cg_stmt ss) = [].
Proof. intros ss H. induction H as [| x r Hx _ IH]; [reflexivity |]. cbn [map flat_map]. rewrite Hx, IH. reflexivity. Qed.

(* one line split in two *)
Theorem split_line_compiles_same : forall p m s1 s2,
  pg_errors (codegen_line p (Some m) (Ok (s1 ++ s2))) = [] -> (l_cur (pg_link p) <= 0)%Z ->
  zassoc_get key (l_syms (pg_link (codegen_line p (Some m) (Ok s1)))) = None ->
  PS0 n (codegen_line p (Some m) (Ok (s1 ++ s2))) (codegen_line (codegen_line p (Some m) (Ok s1)) (Some n) (Ok s2)).
Proof.
  intros p m s1 s2 H Hc Hfresh.
  destruct (codegen_line_data p m (s1 ++ s2) H) as (Hp0 & Hss & _).
  apply Forall_app in Hss. destruct Hss as [Hs1 Hs2].
  pose proof (no_cg_errors s1 Hs1) as He1. pose proof (no_cg_errors s2 Hs2) as He2.
  assert (He12 : flat_map snd (map cg_stmt (s1 ++ s2)) = []) by (rewrite map_app, flat_map_app, He1, He2; reflexivity).
  assert (HF1 : Forall (fun f : frag => Inv (snd f)) (frags_of s1))
    by (unfold frags_of; rewrite map_map, Forall_map; rewrite Forall_forall in *; intros s Hin; apply cg_stmt_inv; exact (Hs1 s Hin)).
  assert (HF2 : Forall (fun f : frag => Inv (snd f)) (frags_of s2))
    by (unfold frags_of; rewrite map_map, Forall_map; rewrite Forall_forall in *; intros s Hin; apply cg_stmt_inv; exact (Hs2 s Hin)).
  rewrite (codegen_line_form p m (s1 ++ s2) He12) in *. rewrite (codegen_line_form p m s1 He1) in *.
  assert (Efr : frags_of (s1 ++ s2) = frags_of s1 ++ frags_of s2) by (unfold frags_of; rewrite !map_app; reflexivity).
  rewrite Efr in *.
  destruct (append_frags_app (frags_of s1) (frags_of s2) (sym_pushed p m) H) as [Eapp He].
  rewrite Eapp in *.
  set (Q := append_stmt_frags (sym_pushed p m) (frags_of s1)) in *.
  rewrite (codegen_line_form Q n s2 He2).
  assert (HcQ : (l_cur (pg_link Q) <= 0)%Z) by (apply append_frags_cur; [exact HF1 | exact Hc]).
  apply ps0_append_frags_ok; [| exact HF2 | exact HcQ | exact H].
  unfold PS0, LS, sym_pushed. cbn. repeat split; try reflexivity.
  rewrite (get_none_fresh key _ Hfresh). exists (l_syms (pg_link Q)), [], (lenN (l_ops (pg_link Q)), lenN (l_data (pg_link Q))).
  split; [rewrite app_nil_r; reflexivity | reflexivity].
Qed.

(* and within a program: the lines behind see the same thing *)
Theorem split_line_in_program : forall before m s1 s2 after p0,
  pg_errors (compile_from p0 (before ++ (m, s1 ++ s2) :: after)) = [] -> PInv (pg_link p0) ->
  zassoc_get key (l_syms (pg_link (codegen_line (compile_from p0 before) (Some m) (Ok s1)))) = None -> ~ In n (map fst after) ->
  PS0 n (compile_from p0 (before ++ (m, s1 ++ s2) :: after)) (compile_from p0 (before ++ (m, s1) :: (n, s2) :: after)).
Proof.
  intros before m s1 s2 after p0 H HP Hfresh Ha. rewrite !compile_from_app, !compile_from_cons in *.
  set (P1 := compile_from p0 before) in *.
  destruct (compile_from_data after _ H) as (H1 & HFa & _).
  destruct (codegen_line_data P1 m (s1 ++ s2) H1) as (H0 & _ & _).
  pose proof (compile_from_pinv before p0 H0 HP) as HP1. fold P1 in HP1.
  pose proof (split_line_compiles_same P1 m s1 s2 H1 (proj1 HP1) Hfresh) as HS.
  apply ps_compile_from; [exact HS | exact Ha | exact HFa |].
  destruct (codegen_line_symbol P1 m (s1 ++ s2) H1 HP1) as (HP2 & _ & _). exact (proj1 HP2).
Qed.
End Split.


(* non-vacuity: 10 A=A+1:PRINT A; / 30 IF A<3 THEN 10, with and without an empty line 20 *)
Require Import String.
Definition el_stmts (s : string) : list stmt :=
  match lex (s2l s) with Ok (_, ts) => match parse None ts with Ok l => l | _ => [] end | _ => [] end.
Definition el_before : list (N * list stmt) := [(10, el_stmts "A=A+1:PRINT A;")].
Definition el_after : list (N * list stmt) := [(30, el_stmts "IF A<3 THEN 10")].
Definition el_p0 : program := mkProg [] [] 0 None (mkLink 0 [] [] 0 false [] [] []).
Example empty_line_premises :
  pg_errors (compile_from el_p0 (el_before ++ (20, []) :: el_after)) = [] /\ PInv (pg_link el_p0)
  /\ zassoc_get (Z.of_N 20) (l_syms (pg_link el_p0)) = None /\ ~ In 20 (map fst el_before) /\ ~ In 20 (map fst el_after)
  /\ pg_errors (compile_from el_p0 (el_before ++ el_after)) = []
  /\ no_ref 20 (l_unlinked (pg_link (compile_from el_p0 (el_before ++ el_after))))
  /\ (forall k c a, ~ In (k, c, a, Z.of_N 20) (l_whiles (pg_link (compile_from el_p0 (el_before ++ el_after)))))
  /\ lenN (l_ops (pg_link (compile_from el_p0 el_before))) <> lenN (l_ops (pg_link (compile_from el_p0 (el_before ++ el_after))))
  /\ l_unlinked (pg_link (compile_from el_p0 (el_before ++ el_after))) <> [].
Proof.
  split; [vm_compute; reflexivity |]. split; [split; cbn; [lia | intros k v []] |]. split; [reflexivity |].
  split; [vm_compute; intuition discriminate |]. split; [vm_compute; intuition discriminate |]. split; [vm_compute; reflexivity |].
  split; [intros a c Hin; vm_compute in Hin; intuition congruence |].
  split; [intros k c a Hin; vm_compute in Hin; exact Hin |].
  split; [vm_compute; discriminate | vm_compute; discriminate].
Qed.
