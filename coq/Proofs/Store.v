(* C15: the stored program is an ordered finite map from line numbers to texts. *)
From BL Require Import Base.Prelude Lang.Token Mach.Listing.
From Coq Require Import Lia Sorted.
Local Open Scope N_scope.

Definition lines_t := list (N * list token).

(* the abstract map behind a list of lines *)
Fixpoint get (ls : lines_t) (n : N) : option (list token) :=
  match ls with
  | [] => None
  | (m, t) :: r => if m =? n then Some t else get r n
  end.

(* strictly ascending line numbers *)
Inductive asc : lines_t -> Prop :=
| asc_nil : asc []
| asc_one : forall e, asc [e]
| asc_cons : forall a b r, fst a < fst b -> asc (b :: r) -> asc (a :: b :: r).

Lemma asc_tail a r : asc (a :: r) -> asc r.
Proof. intros H. inversion H; subst; [constructor | assumption]. Qed.

Lemma asc_lower a r : asc (a :: r) -> forall e, In e r -> fst a < fst e.
Proof.
  revert a. induction r as [| b r IH]; intros a H e Hin; [destruct Hin |].
  inversion H as [| | a' b' r' Hlt Hr]; subst. destruct Hin as [<- | Hin]; [exact Hlt |].
  specialize (IH b Hr e Hin). lia.
Qed.

Lemma get_not_below a r n : asc (a :: r) -> n <= fst a -> get r n = None.
Proof.
  intros H Hn. pose proof (asc_lower a r H) as Hl. clear H.
  induction r as [| [m t] r IH]; cbn; [reflexivity |].
  assert (Hm : fst a < m) by (apply (Hl (m, t)); left; reflexivity).
  destruct (N.eqb_spec m n); [lia |]. apply IH. intros e He. apply Hl. right. exact He.
Qed.

Lemma get_In ls n t : get ls n = Some t -> In (n, t) ls.
Proof.
  induction ls as [| [m u] r IH]; cbn; [discriminate |].
  destruct (N.eqb_spec m n) as [-> | _]; [intros E; injection E as ->; left; reflexivity | intros E; right; auto].
Qed.

Lemma In_get ls n t : asc ls -> In (n, t) ls -> get ls n = Some t.
Proof.
  induction ls as [| [m u] r IH]; intros Ha Hin; [destruct Hin |]. cbn.
  destruct Hin as [E | Hin]; [injection E as -> ->; rewrite N.eqb_refl; reflexivity |].
  pose proof (asc_lower _ _ Ha (n, t) Hin) as Hlt. cbn in Hlt.
  destruct (N.eqb_spec m n); [lia |]. apply IH; [exact (asc_tail _ _ Ha) | exact Hin].
Qed.

(* ---- a numbered line inserts or replaces; nothing else changes ---- *)
Lemma insert_asc ls n t : asc ls -> asc (lines_insert ls n t).
Proof.
  induction ls as [| [m u] r IH]; intros Ha; cbn; [constructor |].
  destruct (N.ltb_spec n m) as [Hlt | Hge]; [constructor; [exact Hlt | exact Ha] |].
  destruct (N.eqb_spec n m) as [-> | Hne].
  - destruct r as [| b r']; [constructor |]. inversion Ha; subst. constructor; assumption.
  - specialize (IH (asc_tail _ _ Ha)).
    destruct r as [| [m2 u2] r']; cbn in *; [constructor; [cbn; lia | constructor] |].
    inversion Ha as [| | ? ? ? Hlt Hr]; subst. cbn in Hlt.
    destruct (N.ltb_spec n m2); [constructor; [cbn; lia | exact IH] |].
    destruct (N.eqb_spec n m2); [constructor; [cbn; lia | exact IH] |].
    constructor; [exact Hlt | exact IH].
Qed.

Lemma get_insert ls n t k : asc ls -> get (lines_insert ls n t) k = if n =? k then Some t else get ls k.
Proof.
  induction ls as [| [m u] r IH]; intros Ha; cbn.
  - destruct (n =? k); reflexivity.
  - destruct (N.ltb_spec n m) as [Hlt | Hge]; cbn; [reflexivity |].
    destruct (N.eqb_spec n m) as [-> | Hne]; cbn.
    + destruct (N.eqb_spec m k); reflexivity.
    + rewrite (IH (asc_tail _ _ Ha)). destruct (N.eqb_spec m k) as [-> | _]; [| reflexivity].
      destruct (N.eqb_spec n k); [lia | reflexivity].
Qed.

(* ---- a bare number deletes; nothing else changes ---- *)
Lemma filter_asc (f : N * list token -> bool) ls : asc ls -> asc (filter f ls).
Proof.
  induction ls as [| a r IH]; intros Ha; cbn; [constructor |].
  specialize (IH (asc_tail _ _ Ha)). destruct (f a); [| exact IH].
  pose proof (asc_lower _ _ Ha) as Hl.
  destruct (filter f r) as [| b r'] eqn:Ef; [constructor |].
  constructor; [| exact IH]. apply Hl. apply (proj1 (filter_In f b r)). rewrite Ef. left. reflexivity.
Qed.

Lemma get_filter (p : N -> bool) ls k :
  get (filter (fun e => p (fst e)) ls) k = if p k then get ls k else None.
Proof.
  induction ls as [| [m u] r IH]; cbn; [destruct (p k); reflexivity |].
  destruct (p m) eqn:Epm; cbn.
  - destruct (N.eqb_spec m k) as [-> | _]; [rewrite Epm; reflexivity | exact IH].
  - rewrite IH. destruct (N.eqb_spec m k) as [-> | _]; [rewrite Epm; reflexivity | reflexivity].
Qed.

Lemma remove_asc ls n : asc ls -> asc (lines_remove ls n).
Proof. apply filter_asc. Qed.

Lemma get_remove ls n k : get (lines_remove ls n) k = if n =? k then None else get ls k.
Proof.
  unfold lines_remove. rewrite (get_filter (fun m => negb (m =? n)) ls k).
  rewrite (N.eqb_sym k n). destruct (n =? k); reflexivity.
Qed.

(* ---- DELETE a-b removes exactly the lines inside the inclusive range ---- *)
Definition delete_range (ls : lines_t) (a b : N) : lines_t := filter (fun e => negb (in_rng a b (fst e))) ls.

Lemma get_delete_range ls a b k : get (delete_range ls a b) k = if in_rng a b k then None else get ls k.
Proof. unfold delete_range. rewrite (get_filter (fun m => negb (in_rng a b m)) ls k). destruct (in_rng a b k); reflexivity. Qed.

(* ---- LIST a-b shows exactly the lines inside the inclusive range, in ascending order ---- *)
Definition in_range_lines (ls : lines_t) (a b : N) : lines_t := filter (fun e => in_rng a b (fst e)) ls.

(* the runtime's LIST state machine: list_line gives the first line of the range and the range that remains *)
Fixpoint list_all (fuel : nat) (l : listing) (a b : N) : res (list (N * list token)) :=
  match fuel with
  | O => Ok []
  | S f =>
      if b <? a then Panic else
      match filter (fun e => in_rng a b (fst e)) (ls_lines l) with
      | [] => Ok []
      | (n, toks) :: _ =>
          let '(a', b') := if n <? b then (n + 1, b) else (65530, 65530) in
          do more <- list_all f l a' b'; Ok ((n, toks) :: more)
      end
  end.

Lemma in_rng_split a b n k : a <= n -> n < b -> in_rng a b k = (in_rng a n k || in_rng (n + 1) b k).
Proof.
  intros H1 H2. unfold in_rng.
  destruct (N.leb_spec a k), (N.leb_spec k b), (N.leb_spec k n), (N.leb_spec (n + 1) k); cbn; try reflexivity; lia.
Qed.

Lemma filter_ext_in' {A} (f g : A -> bool) l : (forall x, In x l -> f x = g x) -> filter f l = filter g l.
Proof. induction l as [| x l IH]; intros H; cbn; [reflexivity |]. rewrite (H x (or_introl eq_refl)), IH; [reflexivity |]. intros y Hy. apply H. right. exact Hy. Qed.

(* with lines numbered at most 65529, iterating list_line over [a, b] yields the lines of the range in order *)
Lemma list_all_spec : forall fuel l a b, asc (ls_lines l) -> (forall e, In e (ls_lines l) -> fst e <= 65529) ->
  a <= b -> (length (in_range_lines (ls_lines l) a b) < fuel)%nat ->
  list_all fuel l a b = Ok (in_range_lines (ls_lines l) a b).
Proof.
  induction fuel as [| f IH]; intros l a b Ha Hmax Hab Hf; [lia |].
  cbn [list_all]. destruct (N.ltb_spec b a); [lia |].
  unfold in_range_lines in *. set (ls := ls_lines l) in *.
  destruct (filter (fun e => in_rng a b (fst e)) ls) as [| [n toks] rest] eqn:Ef; [reflexivity |].
  assert (Hin : In (n, toks) (filter (fun e => in_rng a b (fst e)) ls)) by (rewrite Ef; left; reflexivity).
  apply filter_In in Hin. destruct Hin as [Hin Hr]. cbn in Hr. unfold in_rng in Hr.
  apply andb_prop in Hr. destruct Hr as [Hr1 Hr2]. apply N.leb_le in Hr1, Hr2.
  (* everything in the range before n is absent: n is the first element of the filtered ascending list *)
  assert (Hasc : asc ((n, toks) :: rest)) by (rewrite <- Ef; apply filter_asc; exact Ha).
  assert (Hrest : forall e, In e rest -> n < fst e) by (intros e He; exact (asc_lower _ _ Hasc e He)).
  assert (Hrest_in : forall e, In e rest <-> In e ls /\ in_rng a b (fst e) = true /\ e <> (n, toks)).
  { intros e. split.
    - intros He. assert (Hx : In e (filter (fun e => in_rng a b (fst e)) ls)) by (rewrite Ef; right; exact He).
      apply filter_In in Hx. destruct Hx as [Hx1 Hx2]. repeat split; try assumption.
      intros ->. specialize (Hrest _ He). cbn in Hrest. lia.
    - intros (He1 & He2 & He3). assert (Hx : In e (filter (fun e => in_rng a b (fst e)) ls)) by (apply filter_In; split; assumption).
      rewrite Ef in Hx. destruct Hx as [Hx | Hx]; [congruence | exact Hx]. }
  destruct (N.ltb_spec n b) as [Hnb | Hnb].
  - (* the remaining range [n+1, b] *)
    assert (Erest : rest = filter (fun e => in_rng (n + 1) b (fst e)) ls).
    { (* both are the ascending sublist of ls with keys in (n, b] *)
      assert (E1 : filter (fun e => in_rng a b (fst e)) ls
                   = filter (fun e => in_rng a n (fst e)) ls ++ filter (fun e => in_rng (n + 1) b (fst e)) ls).
      { clear - Ha Hr1 Hnb. induction ls as [| e r IHr]; cbn; [reflexivity |].
        specialize (IHr (asc_tail _ _ Ha)).
        rewrite (in_rng_split a b n (fst e) Hr1 Hnb).
        destruct (in_rng a n (fst e)) eqn:E1, (in_rng (n + 1) b (fst e)) eqn:E2; cbn.
        - unfold in_rng in E1, E2. apply andb_prop in E1, E2. destruct E1 as [_ E1], E2 as [E2 _]. apply N.leb_le in E1, E2. lia.
        - rewrite IHr. reflexivity.
        - (* an element of the upper part: nothing of the lower part can follow it *)
          assert (Hlow : filter (fun e0 => in_rng a n (fst e0)) r = []).
          { assert (Hl : forall x, In x r -> fst e < fst x) by (exact (asc_lower _ _ Ha)).
            unfold in_rng in E2. apply andb_prop in E2. destruct E2 as [E2 _]. apply N.leb_le in E2.
            clear - Hl E2. induction r as [| x r IHx]; cbn; [reflexivity |].
            assert (Hx : fst e < fst x) by (apply Hl; left; reflexivity).
            unfold in_rng at 1. destruct (N.leb_spec (fst x) n); [lia |]. rewrite andb_false_r.
            apply IHx. intros y Hy. apply Hl. right. exact Hy. }
          rewrite IHr, Hlow. reflexivity.
        - exact IHr. }
      (* the lower part is exactly [(n, toks)] *)
      assert (E2 : filter (fun e => in_rng a n (fst e)) ls = [(n, toks)]).
      { assert (Hsub : forall e, In e (filter (fun e => in_rng a n (fst e)) ls) -> e = (n, toks)).
        { intros e He. apply filter_In in He. destruct He as [He1 He2].
          unfold in_rng in He2. apply andb_prop in He2. destruct He2 as [He2 He3]. apply N.leb_le in He2, He3.
          assert (Hx : In e (filter (fun e => in_rng a b (fst e)) ls)).
          { apply filter_In. split; [exact He1 |]. unfold in_rng. apply andb_true_intro. split; apply N.leb_le; lia. }
          rewrite Ef in Hx. destruct Hx as [Hx | Hx]; [congruence |]. specialize (Hrest _ Hx). lia. }
        assert (Hmem : In (n, toks) (filter (fun e => in_rng a n (fst e)) ls)).
        { apply filter_In. split; [exact Hin |]. cbn. unfold in_rng. apply andb_true_intro. split; apply N.leb_le; lia. }
        assert (Hasc2 : asc (filter (fun e => in_rng a n (fst e)) ls)) by (apply filter_asc; exact Ha).
        destruct (filter (fun e => in_rng a n (fst e)) ls) as [| x [| y r]] eqn:E; [destruct Hmem | |].
        - rewrite (Hsub x (or_introl eq_refl)). reflexivity.
        - exfalso. pose proof (Hsub x (or_introl eq_refl)) as Ex. pose proof (Hsub y (or_intror (or_introl eq_refl))) as Ey.
          inversion Hasc2; subst. cbn in *. lia. }
      rewrite E1, E2 in Ef. cbn in Ef. injection Ef as Ef. symmetry. exact Ef. }
    rewrite (IH l (n + 1) b Ha Hmax); [cbn; rewrite Erest; reflexivity | lia |].
    fold ls. rewrite <- Erest. try rewrite Ef in Hf. cbn in Hf. lia.
  - (* n = b: nothing remains, and the parked range [65530, 65530] is empty *)
    assert (En : n = b) by lia. subst n.
    assert (Er : rest = []).
    { destruct rest as [| e r]; [reflexivity |]. exfalso.
      assert (He : In e (e :: r)) by (left; reflexivity).
      pose proof (Hrest e He). apply Hrest_in in He. destruct He as (_ & He & _).
      unfold in_rng in He. apply andb_prop in He. destruct He as [_ He]. apply N.leb_le in He. lia. }
    subst rest.
    assert (E0 : list_all f l 65530 65530 = Ok []).
    { destruct f as [| f']; [reflexivity |]. cbn [list_all]. destruct (N.ltb_spec 65530 65530); [lia |].
      replace (filter (fun e => in_rng 65530 65530 (fst e)) (ls_lines l)) with (@nil (N * list token)); [reflexivity |].
      symmetry. fold ls. clear - Hmax. induction ls as [| e r IHr]; cbn; [reflexivity |].
      assert (He : fst e <= 65529) by (apply Hmax; left; reflexivity).
      unfold in_rng at 1. destruct (N.leb_spec 65530 (fst e)); [lia |]. cbn. apply IHr. intros x Hx. apply Hmax. right. exact Hx. }
    rewrite E0. reflexivity.
Qed.

(* the same iteration through Listing::list_line itself, as Runtime::execute drives it in the Listing state *)
Fixpoint list_texts (fuel : nat) (l : listing) (a b : N) : res (list str) :=
  match fuel with
  | O => Ok []
  | S f =>
      do ll <- list_line l a b;
      match ll with
      | None => Ok []
      | Some (text, _, (a', b')) => do more <- list_texts f l a' b'; Ok (text :: more)
      end
  end.

Definition text_of (e : N * list token) : str := line_to_string (Some (fst e), snd e).

Lemma list_texts_all fuel l a b :
  list_texts fuel l a b = do xs <- list_all fuel l a b; Ok (map text_of xs).
Proof.
  revert a b. induction fuel as [| f IH]; intros a b; [reflexivity |].
  cbn [list_texts list_all]. unfold list_line. destruct (b <? a); [reflexivity |].
  destruct (filter (fun e => in_rng a b (fst e)) (ls_lines l)) as [| [n toks] rest]; [reflexivity |].
  cbn [bind]. destruct (n <? b); rewrite IH; match goal with |- context [list_all f l ?x ?y] => destruct (list_all f l x y) end; reflexivity.
Qed.

Theorem list_range_spec : forall fuel l a b, asc (ls_lines l) -> (forall e, In e (ls_lines l) -> fst e <= 65529) ->
  a <= b -> (length (in_range_lines (ls_lines l) a b) < fuel)%nat ->
  list_texts fuel l a b = Ok (map text_of (in_range_lines (ls_lines l) a b)).
Proof. intros. rewrite list_texts_all, list_all_spec by assumption. reflexivity. Qed.

(* ---------- earlier local lemmas ---------- *)

Lemma old_C15_insert_lookup : forall ls n t, lines_has (lines_insert ls n t) n = true.
Proof.
  intros ls n t. unfold lines_has. induction ls as [| [m u] r IH]; cbn.
  - rewrite N.eqb_refl. reflexivity.
  - destruct (N.ltb_spec n m) as [Hlt | Hge]; cbn.
    + rewrite N.eqb_refl. reflexivity.
    + destruct (N.eqb_spec n m) as [-> | Hne]; cbn.
      * rewrite N.eqb_refl. reflexivity.
      * destruct (N.eqb_spec m n); [congruence | exact IH].
Qed.
