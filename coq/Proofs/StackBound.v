(* C18: the value stack never holds more than 65535 entries between API calls (65536 transiently, at the
   moment a push reports OUT OF MEMORY).  Same Hoare logic as Proofs/Dirty.v, for the invariant
   r_slen r = lenN (r_stack r); the skeleton of the proof is the one of the `Frame` section there. *)
From BL Require Import Base.Prelude Base.Floats Mach.Val Mach.Ops Mach.Func Mach.Var
     Lang.Token Lang.Lex Lang.Ast Lang.Parse Mach.Compile Mach.Listing Mach.Runtime Proofs.RMFrame Proofs.Dirty.
From Coq Require Import Lia.
Local Open Scope N_scope.

Definition SI (r : rt) : Prop := r_slen r = lenN (r_stack r) /\ r_slen r <= MAX_POOL.
Definition SJ (r : rt) : Prop := r_slen r = lenN (r_stack r) /\ r_slen r <= MAX_POOL + 1.

Lemma SIJ : forall r, SI r -> SJ r.
Proof. intros r [H1 H2]. split; [exact H1 | lia]. Qed.

Lemma si_frame r r' : r_stack r' = r_stack r -> r_slen r' = r_slen r -> SI r -> SI r'.
Proof. unfold SI. intros -> ->. auto. Qed.
Lemma sj_frame r r' : r_stack r' = r_stack r -> r_slen r' = r_slen r -> SJ r -> SJ r'.
Proof. unfold SJ. intros -> ->. auto. Qed.

Lemma lenN_cons {A} (x : A) l : lenN (x :: l) = lenN l + 1.
Proof. unfold lenN. cbn [length]. lia. Qed.

Section Frame.
Variable O : oracle.
Notation T := SI.
Notation HT := (hoare SI SJ).
Definition allowed (_ : opcode) := true.

Definition TT := SIJ.
Hint Resolve SIJ : core.

(* updates that leave the stack alone, and the three ways the stack itself is updated *)
Ltac fr H :=
  first [ match type of H with SI ?r => first [ apply (si_frame r); [reflexivity | reflexivity | exact H]
                                              | apply SIJ; apply (si_frame r); [reflexivity | reflexivity | exact H] ] end
        | match type of H with SJ ?r => apply (sj_frame r); [reflexivity | reflexivity | exact H] end
        | unfold SI, SJ in *; cbn; unfold lenN, MAX_POOL in *; cbn [length] in *; lia ].

Lemma tr_push v : HT (push v).
Proof.
  intros r [H1 H2]. unfold push. cbv zeta. cbn [r_slen set_stack_len].
  destruct (N.ltb_spec MAX_POOL (r_slen r + 1)); cbn [fst snd err]; unfold SI, SJ; cbn [r_stack r_slen set_stack_len]; rewrite lenN_cons; split; lia.
Qed.
Lemma tr_pop : HT pop.
Proof.
  intros r [H1 H2]. unfold pop. destruct (r_stack r) as [| v s] eqn:Es; cbn.
  - unfold SJ. rewrite Es. split; [exact H1 | lia].
  - unfold SI. cbn [r_stack r_slen set_stack_len]. rewrite lenN_cons in H1. split; lia.
Qed.
Lemma tr_pop_n n : HT (pop_n n).
Proof.
  intros r [H1 H2]. unfold pop_n. destruct ((n <? 0)%Z || (r_slen r <? Z.to_N n)); cbn; [split; [exact H1 | lia] |].
  unfold SI. cbn [r_stack r_slen set_stack_len]. rewrite H1 in *. unfold lenN, skipnN in *. rewrite skipn_length. split; lia.
Qed.

Ltac tr_prim :=
  first [ apply tr_push | apply tr_pop | apply tr_pop_n
        | apply hoare_rmod; let r := fresh "r" in let H := fresh "H" in intros r H; fr H
        | apply hoare_try; [exact TT | let r := fresh "r" in let H := fresh "H" in intros r ? H; fr H]
        | exact TT | assumption ].
Ltac tr := hoare_auto tr_prim.

Lemma tr_pop2 : HT pop2. Proof. unfold pop2. tr. Qed.
Lemma tr_pop_vec : HT pop_vec. Proof. unfold pop_vec. tr. Qed.
Lemma tr_pop_1_push f : HT (pop_1_push f). Proof. unfold pop_1_push. tr. Qed.
Lemma tr_pop_2_push f : HT (pop_2_push f). Proof. unfold pop_2_push. apply hoare_bind; [apply tr_pop2 | intros ?]. tr. Qed.

(* raw state functions: listing and flag are never touched *)
Lemma tr_do_clear : HT (do_clear O).
Proof. intros r H. cbn. fr H. Qed.
Lemma tr_do_end : HT do_end.
Proof. intros r H. unfold do_end. cbn.
  destruct (r_pc r <? r_entry r); cbn; match goal with |- context [if ?c then _ else _] => destruct c end; fr H. Qed.
Lemma return_loop_len : forall s ret first rest ret' addr,
  return_loop s ret first = Some (rest, ret', addr) -> (length rest < length s)%nat.
Proof.
  induction s as [| v s IH]; intros ret first rest ret' addr H; cbn in H; [discriminate |].
  destruct v; try (apply IH in H; cbn; lia). injection H as <- _ _. cbn. lia.
Qed.

Lemma tr_do_return : HT do_return.
Proof. intros r H. unfold do_return. destruct (return_loop (r_stack r) None true) as [[[rest ret] addr] |] eqn:E; [| cbn; fr H].
  apply return_loop_len in E.
  assert (H1 : T (set_stack r rest)).
  { destruct H as [Ha Hb]. unfold SI, set_stack. cbn [r_stack r_slen set_stack_len]. split; [reflexivity | unfold lenN in *; lia]. }
  destruct ret as [v |]; [| cbn [fst snd]; fr H1].
  revert H1. generalize (set_stack r rest). intros r1 H1.
  change (match snd ((rdo _ <~ push v ;; rmod (fun r => set_pc r addr)) r1) with
          | Ok _ => T (fst ((rdo _ <~ push v ;; rmod (fun r => set_pc r addr)) r1))
          | _ => SJ (fst ((rdo _ <~ push v ;; rmod (fun r => set_pc r addr)) r1)) end).
  revert r1 H1. change (HT (rdo _ <~ push v ;; rmod (fun r => set_pc r addr))). tr. Qed.

Lemma tr_do_cont : HT do_cont. Proof. unfold do_cont. tr. Qed.
Lemma tr_do_def name : HT (do_def name). Proof. unfold do_def. tr. Qed.
Lemma tr_do_deftype t : HT (do_deftype t).
Proof. unfold do_deftype. apply hoare_bind; [apply tr_pop2 | intros p]. tr. Qed.
Lemma tr_do_fn name : HT (do_fn name).
Proof. unfold do_fn. apply hoare_bind; [apply tr_pop_vec | intros args]. apply hoare_bind; [apply hoare_rget | intros r].
  destruct (alist_get name (r_fns r)) as [[arity addr] |]; [| tr]. destruct (arity =? lenN args); [| tr].
  apply hoare_bind; [apply tr_push | intros _]. apply hoare_bind; [| intros _; tr].
  apply (hoare_fold_push SI SJ (rev args) (fun a => a)); [apply hoare_ret | apply tr_push]. Qed.
Lemma tr_do_input name : HT (do_input name). Proof. unfold do_input. tr. Qed.
Lemma tr_do_letmid : HT do_letmid. Proof. unfold do_letmid. tr. Qed.
Lemma tr_do_list : HT do_list. Proof. unfold do_list. apply hoare_bind; [apply tr_pop2 | intros p]. tr. Qed.
Lemma tr_do_load a b : HT (do_load a b).
Proof. unfold do_load. apply hoare_bind; [apply tr_pop | intros v]. destruct v; try (apply hoare_rfail; auto).
  apply hoare_bind; [apply tr_do_end | intros _]. tr. Qed.
Lemma tr_do_on : HT do_on. Proof. unfold do_on. tr. Qed.
Lemma tr_do_print : HT do_print. Proof. unfold do_print. tr. Qed.
Lemma tr_do_read : HT do_read. Proof. unfold do_read. tr. Qed.
Lemma tr_do_swap : HT do_swap. Proof. unfold do_swap. apply hoare_bind; [apply tr_pop2 | intros p]. tr. Qed.


Lemma tr_do_next fuel name : HT (do_next fuel name).
Proof.
  induction fuel as [| f IH]; cbn [do_next]; [apply hoare_rfail; auto |].
  intros r H. destruct H as [Ha Hb]. destruct (r_stack r) as [| v s1] eqn:Es; [cbn [fst snd]; unfold SJ; rewrite Es; split; [exact Ha | lia] |].
  assert (H1 : T (set_stack_len r s1 (r_slen r - 1))) by (unfold SI; cbn [r_stack r_slen set_stack_len]; rewrite lenN_cons in Ha; split; lia).
  assert (H : True) by exact I.
  destruct v; try (cbn [fst snd err]; apply SIJ; exact H1).
  revert H1. generalize (set_stack_len r s1 (r_slen r - 1)). clear r H Es Ha Hb. intros r H. revert r H.
  match goal with |- forall r, T r -> match snd (?m r) with _ => _ end => change (HT m) end.
  apply hoare_bind; [apply tr_pop | intros nv]. apply hoare_bind; [apply tr_pop | intros stepv].
  apply hoare_bind; [apply tr_pop | intros tov].
  destruct nv; try exact IH.
  match goal with |- HT (if ?c then _ else _) => destruct c end; [exact IH |].
  apply hoare_bind; [apply hoare_rget | intros r1]. apply hoare_bind; [apply hoare_rlift; auto | intros cur0].
  apply hoare_bind; [apply hoare_rlift; auto | intros cur]. apply hoare_bind; [tr | intros _].
  destruct (to_f64 stepv); try exact IH. tr.
Qed.

Lemma tr_do_new : HT (do_new O).
Proof. unfold do_new. apply hoare_bind; [apply tr_do_clear | intros _]. apply hoare_bind; [| intros _; tr].
  apply hoare_rmod. intros r0 H0. fr H0. Qed.
Lemma tr_do_delete : HT do_delete.
Proof. unfold do_delete. apply hoare_bind; [apply tr_pop2 | intros p]. apply hoare_bind; [tr | intros from]. apply hoare_bind; [tr | intros to].
  destruct (to <? from); [tr |]. apply hoare_bind; [tr | intros r]. apply hoare_bind; [| intros _; apply tr_do_end].
  match goal with |- HT (if ?c then _ else _) => destruct c end; [| tr].
  apply hoare_bind; [unfold need_unique; tr | intros _]. apply hoare_rmod. intros r0 H0. fr H0. Qed.
Lemma tr_do_renum : HT do_renum.
Proof. unfold do_renum. apply hoare_bind; [tr | intros r]. destruct (r_pc r <? r_entry r); [tr |].
  destruct (ls_ind_errors (r_listing r)); [| tr].
  apply hoare_bind; [tr | intros sv]. apply hoare_bind; [tr | intros step]. apply hoare_bind; [tr | intros ov].
  apply hoare_bind; [tr | intros old]. apply hoare_bind; [tr | intros nv]. apply hoare_bind; [tr | intros new].
  (* the listing is replaced and the flag raised in two consecutive updates: in between only K holds *)
  apply hoare_bind; [| intros _; apply hoare_bind; [| intros _; apply tr_do_end]].
  - intros r0 H0. destruct (listing_renum (r_listing r0) (Z.to_N new) (Z.to_N old) (Z.to_N step)) eqn:El; cbn [fst snd]; fr H0.
  - apply hoare_rmod. intros r0 H0. fr H0.
Qed.
Lemma tr_edit_ops h op : is_edit_op op = true -> HT (exec_op O h op).
Proof. destruct op; try discriminate; intros _; cbn [exec_op];
  (apply hoare_bind; [first [apply tr_do_new | apply tr_do_delete | apply tr_do_renum] | intros ?; tr]). Qed.

Lemma tr_do_builtin name : HT (do_builtin O name).
Proof. unfold do_builtin. repeat match goal with |- HT (if ?c then _ else _) => destruct c end;
  try (apply hoare_bind; [first [apply tr_pop_1_push | apply tr_pop_2_push | apply tr_pop_vec] | intros ?]); tr. Qed.

Lemma tr_exec_op h op : allowed op = true -> HT (exec_op O h op).
Proof.
  intros Hall. destruct (is_edit_op op) eqn:Ee; [apply tr_edit_ops; assumption |].
  destruct op; try discriminate Ee; cbn [exec_op];
  try (apply hoare_bind; [first [apply tr_do_clear | apply tr_do_def | apply tr_do_deftype | apply tr_do_end
                               | apply tr_do_fn | apply tr_do_letmid | apply tr_do_list | apply tr_do_load
                               | apply tr_do_on | apply tr_do_print | apply tr_do_read | apply tr_do_return
                               | apply tr_do_swap | apply tr_pop_1_push | apply tr_pop_2_push ] | intros ?; tr]);
  try apply tr_do_cont; try apply tr_do_input; try apply tr_do_builtin.
  all: try (apply hoare_bind; [| intros ?; tr]).
  all: try (apply hoare_bind; [apply tr_pop_vec | intros ?]).
  all: try solve [tr].
  all: try solve [apply hoare_with_vars; auto; intros r v H; fr H].
  all: try solve [apply hoare_bind; [apply tr_pop | intros ?]; apply hoare_with_vars; auto; intros r v H; fr H].
  all: try solve [apply hoare_bind; [apply hoare_with_vars; auto; intros r v H; fr H | intros ?; tr]].
  - intros r H. apply tr_do_next. exact H.
Qed.

Lemma tr_one_op h : HT (one_op O h).
Proof. unfold one_op. apply hoare_bind_rget. intros r H.
  destruct (nthN (l_ops (pg_link (r_prog r))) (r_pc r)) as [op |] eqn:Eop; [| exact (SIJ _ H)].
  assert (Hall : allowed op = true) by reflexivity.
  assert (Hm : HT (rdo _ <~ rmod (fun r => set_pc r (r_pc r + 1)) ;; exec_op O h op))
    by (apply hoare_bind; [tr | intros _; apply tr_exec_op; exact Hall]).
  exact (Hm r H). Qed.

Lemma tr_exec_loop fuel h : HT (exec_loop O fuel h).
Proof. induction fuel as [| f IH]; cbn [exec_loop]; [apply hoare_ret |].
  apply hoare_bind; [apply hoare_rget | intros r]. apply hoare_bind; [tr | intros _].
  match goal with |- HT (match ?x with _ => _ end) => destruct x end; [tr |].
  apply hoare_bind; [apply tr_one_op | intros e]. destruct e; [apply hoare_ret | exact IH]. Qed.

Lemma tr_ready_prompt r : T r -> T (fst (ready_prompt r)).
Proof. intros H. unfold ready_prompt. destruct (negb (r_entry r =? 0)); [| exact H]. cbn.
  destruct (0 <? r_col r); cbn; fr H. Qed.

Lemma tr_finish_ok r2 ev r' e : T r2 ->
  match r_state r2, ev with
  | StStopped, EvStopped => match ready_prompt r2 with
                            | (r3, Some e) => Ok (r3, e)
                            | (r3, None) => Ok (r3, EvStopped)
                            end
  | _, _ => Ok (r2, ev)
  end = Ok (r', e) -> T r'.
Proof.
  intros H2 E. generalize (tr_ready_prompt r2 H2). destruct (ready_prompt r2) as [r3 [e3 |]]; cbn; intros H3.
  all: destruct (r_state r2); try (injection E as <- _; exact H2); destruct ev; injection E as <- _; assumption.
Qed.

Lemma unwind_len : forall s, (length (fst (unwind_input s)) <= pred (length s))%nat.
Proof. induction s as [| v s IH]; cbn; [lia |]. destruct v; cbn; try lia; destruct (unwind_input s); cbn in *; lia. Qed.

Lemma tr_finish_err r2 er r' (e : event) : SJ r2 ->
  match r_state r2 with
  | StInputRunning =>
      let '(s, a) := unwind_input (r_stack r2) in
      let r3 := set_stack r2 s in
      let r4 := match a with Some addr => set_pc r3 addr | None => r3 end in
      Ok (set_state r4 StInputRedo, EvRunning)
  | st =>
      let r3 := set_cont_pc (set_cont (set_state r2 (StRuntimeError (in_line er (cur_line r2)))) st) (r_pc r2) in
      let r4 := if (r_entry r3 <=? r_pc r3) || stack_is_full r3
                then set_cont (set_stack r3 []) StStopped else r3 in
      Ok (r4, EvRunning)
  end = Ok (r', e) -> T r'.
Proof.
  intros [Ha Hb] E.
  assert (Hclear : forall (c : bool) (x : rt), r_stack x = r_stack r2 -> r_slen x = r_slen r2 ->
            T (if c || stack_is_full x then set_cont (set_stack x []) StStopped else x)).
  { intros c x E1 E2. unfold stack_is_full. rewrite E2. destruct c; cbn [orb].
    - unfold SI, set_stack. cbn. unfold lenN, MAX_POOL. cbn. split; [reflexivity | lia].
    - destruct (N.ltb_spec (MAX_POOL - 32) (r_slen r2)).
      + unfold SI, set_stack. cbn. unfold lenN, MAX_POOL. cbn. split; [reflexivity | lia].
      + unfold SI. rewrite E1, E2. split; [exact Ha | unfold MAX_POOL in *; lia]. }
  destruct (r_state r2);
    try (injection E as <- _; apply Hclear; reflexivity).
  pose proof (unwind_len (r_stack r2)) as Hu. destruct (unwind_input (r_stack r2)) as [s [a |]]; cbn [fst] in Hu; injection E as <- _;
    unfold SI, set_stack; cbn [r_stack r_slen set_stack_len set_state set_pc]; (split; [reflexivity |]); unfold lenN in *; lia.
Qed.

(* execute_input pops two values and pushes them back: it cannot overflow, so even its error exits keep the bound *)
Definition SP (k : N) (r : rt) : Prop := r_slen r = lenN (r_stack r) /\ r_slen r + k <= MAX_POOL.

Lemma sp_pop k : hoare3 (SP k) (SP (k + 1)) SI pop.
Proof.
  intros r [Ha Hb]. unfold pop. destruct (r_stack r) as [| v s] eqn:Es; cbn [fst snd].
  - unfold SI. rewrite Es. split; [exact Ha | lia].
  - unfold SP. cbn [r_stack r_slen set_stack_len]. rewrite lenN_cons in Ha. split; lia.
Qed.
Lemma sp_push k v : hoare3 (SP (k + 1)) (SP k) SI (push v).
Proof.
  intros r [Ha Hb]. unfold push. cbv zeta. cbn [r_slen set_stack_len].
  destruct (N.ltb_spec MAX_POOL (r_slen r + 1)); cbn [fst snd err]; [lia |].
  unfold SP. cbn [r_stack r_slen set_stack_len]. rewrite lenN_cons. split; lia.
Qed.

Lemma execute_input_I r : SI r -> SI (fst (execute_input r)).
Proof.
  intros H. assert (H0 : SP 0 r) by (destruct H; split; [assumption | lia]).
  assert (Hh : hoare3 (SP 0) SI SI execute_input).
  { unfold execute_input.
    apply (hoare3_bind (SP 0) (SP (0 + 1)) SI SI); [apply sp_pop | intros len].
    apply (hoare3_bind _ (SP (0 + 1 + 1)) SI SI); [apply sp_pop | intros caps].
    apply (hoare3_bind _ (SP (0 + 1 + 1)) SI SI); [intros x Hx; exact Hx | intros rr].
    assert (Hfail : forall k c, hoare3 (SP k) SI SI (@rfail event c)).
    { intros k c x [Hx1 Hx2]. cbn [rfail fst snd err]. split; [exact Hx1 | lia]. }
    destruct (r_stack rr) as [| p st]; [apply Hfail |].
    destruct p; try apply Hfail.
    apply (hoare3_bind _ (SP (0 + 1)) SI SI); [apply (sp_push (0 + 1)) | intros _].
    apply (hoare3_bind _ (SP 0) SI SI); [apply (sp_push 0) | intros _].
    apply (hoare3_bind _ SI SI SI); [| intros _ x Hx; exact Hx].
    intros x [Hx1 Hx2]. cbn [rmod fst snd]. apply (si_frame x); [reflexivity | reflexivity |]. split; [exact Hx1 | lia]. }
  specialize (Hh r H0). destruct (snd (execute_input r)); exact Hh.
Qed.

(* execute(): whatever state the machine is in *)
Lemma tr_rt_execute r n r' e : T r -> rt_execute O r n = Ok (r', e) -> T r'.
Proof.
  intros H. unfold rt_execute.
  match goal with |- (do pr <- ?pre; _) = _ -> _ => 
    assert (Hpre : forall r1 early, pre = Ok (r1, early) -> T r1); [| destruct pre as [[r1 early] | | |] eqn:Epre; try discriminate] end.
  { intros r1 early. destruct (r_state r).
    - intros E; injection E as <- _; fr H.
    - generalize (tr_ready_prompt r H). destruct (ready_prompt r) as [r2 [ev |]]; cbn; intros H2 E; injection E as <- _; exact H2.
    - destruct (list_line (r_listing r) a b) as [[[[text cols] [a' b']] |] | | |]; cbn; intros E; try discriminate; injection E as <- _; fr H.
    - intros E; injection E as <- _; exact H.
    - destruct (ls_dir_errors (r_listing r)); intros E; injection E as <- _; [exact H | fr H].
    - pose proof (execute_input_I r H) as Hx.
      destruct (execute_input r) as [r2 [ev | er | |]]; cbn [fst] in Hx; intros E; try discriminate; injection E as <- _; [exact Hx | fr Hx].
    - intros E; injection E as <- _; fr H.
    - destruct (ls_dir_errors (r_listing r)); intros E; injection E as <- _; [exact H | fr H].
    - intros E; injection E as <- _; fr H.
    - intros E; injection E as <- _; exact H. }
  specialize (Hpre r1 early eq_refl). cbn [bind].
  destruct early as [ev |]; [intros E; injection E as <- _; exact Hpre |].
  destruct (r_state r1) eqn:Est;
    try (destruct (0 <? r_col r1); intros E; injection E as <- _; fr Hpre).
  all: generalize (tr_exec_loop (N.to_nat n) (match ls_ind_errors (r_listing r1) with [] => false | _ => true end) r1 Hpre);
       destruct (exec_loop O (N.to_nat n) (match ls_ind_errors (r_listing r1) with [] => false | _ => true end) r1) as [r2 [ev | er | |]];
       cbn; intros H2 E; try discriminate;
       [exact (tr_finish_ok _ _ _ _ H2 E) | exact (tr_finish_err _ _ _ _ H2 E)].
Qed.

Lemma tr_rt_interrupt r : T r -> T (rt_interrupt r).
Proof. intros H. unfold rt_interrupt. match goal with |- context [if ?c then _ else _] => destruct c end; fr H. Qed.


Lemma tr_enter_input r s : T r -> T (enter_input O r s).
Proof.
  intros H. unfold enter_input. destruct (MAX_LINE_LEN <? utf8_len s); [fr H |].
  destruct (r_stack r) as [| v st]; [cbn; fr H |].
  destruct v; try (cbn; fr H).
  match goal with |- T (if ?c then _ else _) => destruct c end; [fr H |].
  match goal with |- T (match ?m r with _ => _ end) => assert (Hm : HT m) end.
  { apply hoare_bind; [apply tr_push | intros _]. apply hoare_bind; [| intros _; tr].
    apply (hoare_fold_push SI SJ _ (fun f => VStr f)); [apply hoare_ret | apply tr_push]. }
  specialize (Hm r H).
  match goal with |- T (match ?m r with _ => _ end) => destruct (m r) as [r2 [u | e | |]] end; cbn in Hm; try exact Hm.
  all: cbn; fr Hm.
Qed.

Lemma tr_enter_inkey r s : T r -> T (enter_inkey O r s).
Proof.
  intros H. unfold enter_inkey. cbv zeta.
  match goal with |- context [push ?v r] => pose proof (tr_push v r H) as H2; destruct (push v r) as [r2 [u | e | |]] end;
    cbn [fst snd] in H2; cbn; fr H2.
Qed.

End Frame.

(* ---------- every reachable state ---------- *)
From BL Require Import Proofs.Store Proofs.StoreRt.

Section Reach.
Variable O : oracle.

Lemma bound_enter : forall r s r' b, SI r -> rt_enter O r s = Ok (r', b) -> SI r'.
Proof.
  intros r s r' b H E. unfold rt_enter in E.
  assert (Hin : SI (enter_input O r s)) by (apply tr_enter_input; exact H).
  assert (Hik : SI (enter_inkey O r s)) by (apply tr_enter_inkey; exact H).
  assert (Hrest : (if MAX_LINE_LEN <? utf8_len s
                   then Ok (set_state r (StRuntimeError (mkErr E_LineBufferOverflow None (0, 0))), false)
                   else do l <- line_new s;
                        match fst l with
                        | None => match snd l with [] => Ok (r, false) | _ => Ok (enter_direct r l, true) end
                        | Some _ => do r' <- enter_indirect r l; Ok (r', false)
                        end) = Ok (r', b) -> SI r').
  { destruct (MAX_LINE_LEN <? utf8_len s); [intros E2; injection E2 as <- _; exact H |].
    destruct (line_new s) as [l | | |]; cbn [bind]; try discriminate.
    destruct (fst l) as [n |] eqn:Efl.
    - unfold enter_indirect. rewrite Efl. destruct (snd l) as [| t ts]; cbn [bind]; intros E2; injection E2 as <- _; exact H.
    - destruct (snd l); intros E2; injection E2 as <- _; [exact H |].
      unfold enter_direct. destruct (r_dirty r).
      + unfold SI. cbn. unfold lenN, MAX_POOL. cbn. split; [reflexivity | lia].
      + exact H. }
  destruct (r_state r); try exact (Hrest E); injection E as <- _; unfold SI in *; cbn; assumption.
Qed.

(* between API calls the value stack holds at most 65535 entries, and its length field is exact *)
Theorem reachable_stack_bounded : forall r, reachable O r -> r_slen r = lenN (r_stack r) /\ lenN (r_stack r) <= 65535.
Proof.
  intros r Hr. assert (H : SI r).
  { induction Hr as [| r s r' b _ IH E | r n r' e _ IH E | r _ IH | r hold _ IH | r _ IH].
    - unfold SI. cbn. unfold lenN, MAX_POOL. cbn. split; [reflexivity | lia].
    - exact (bound_enter _ _ _ _ IH E).
    - exact (tr_rt_execute O _ _ _ _ IH E).
    - exact (tr_rt_interrupt _ IH).
    - destruct hold; exact IH.
    - exact IH. }
  destruct H as [Ha Hb]. split; [exact Ha | rewrite <- Ha; exact Hb].
Qed.

(* inside a call: one instruction from a bounded state leaves at most 65536 entries, and that only together with an error *)
Theorem one_instruction_bounded : forall h op r, SI r ->
  match snd (exec_op O h op r) with
  | Ok _ => lenN (r_stack (fst (exec_op O h op r))) <= 65535
  | _ => lenN (r_stack (fst (exec_op O h op r))) <= 65536
  end.
Proof.
  intros h op r H. pose proof (tr_exec_op O h op eq_refl r H) as Hx.
  destruct (snd (exec_op O h op r)); destruct Hx as [Ha Hb]; rewrite <- Ha; unfold MAX_POOL in Hb; lia.
Qed.

End Reach.
