(* C07: string functions count characters and return exactly the documented piece.
   A string is a list of Unicode scalar values, so "never splits a character" holds by construction in the
   model; that the implementation's byte-level slicing agrees with it is what the correspondence check tests. *)
From BL Require Import Base.Prelude Base.Floats Mach.Val Mach.Ops Mach.Func Mach.Var
     Lang.Token Lang.Lex Lang.Ast Lang.Parse Mach.Compile Mach.Listing Mach.Runtime.
From Coq Require Import Lia.
Local Open Scope N_scope.

(* ---------- INSTR ---------- *)
Lemma starts_with_spec p s : starts_with p s = true <-> exists t, s = p ++ t.
Proof.
  revert s. induction p as [| x p IH]; intros s; cbn.
  - split; [intros _; exists s; reflexivity | reflexivity].
  - destruct s as [| y s]; [split; [discriminate | intros [t E]; discriminate] |].
    split.
    + intros H. apply andb_prop in H. destruct H as [H1 H2]. apply N.eqb_eq in H1. apply IH in H2. destruct H2 as [t ->].
      exists t. subst. reflexivity.
    + intros [t E]. injection E as -> ->. rewrite N.eqb_refl. cbn. apply IH. exists t. reflexivity.
Qed.

(* find_sub returns the least index at which the pattern occurs, and None only if it occurs nowhere *)
Theorem find_sub_spec : forall p s i, find_sub p s = Some i <->
  (starts_with p (skipnN i s) = true /\ i <= lenN s /\ forall j, j < i -> starts_with p (skipnN j s) = false).
Proof.
  intros p s. induction s as [| c s IH]; intros i.
  - cbn [find_sub]. destruct (starts_with p []) eqn:E.
    + split.
      * intros H. injection H as <-. repeat split; [exact E | cbn; lia | intros j Hj; lia].
      * intros (H1 & H2 & H3). cbn in H2. assert (i = 0) by (unfold lenN in H2; cbn in H2; lia). subst. reflexivity.
    + split; [discriminate |]. intros (H1 & H2 & _). unfold lenN in H2. cbn in H2. assert (i = 0) by lia. subst.
      unfold skipnN in H1. cbn in H1. congruence.
  - cbn [find_sub]. destruct (starts_with p (c :: s)) eqn:E.
    + split.
      * intros H. injection H as <-. repeat split; [exact E | lia | intros j Hj; lia].
      * intros (H1 & H2 & H3). destruct (N.eq_dec i 0) as [-> | Hne]; [reflexivity |].
        specialize (H3 0 ltac:(lia)). unfold skipnN in H3. cbn in H3. congruence.
    + destruct (find_sub p s) as [k |] eqn:Ef.
      * specialize (IH k). destruct IH as [IH _]. specialize (IH eq_refl). destruct IH as (K1 & K2 & K3).
        assert (Hsk : forall j, skipnN (j + 1) (c :: s) = skipnN j s).
        { intros j. unfold skipnN. replace (N.to_nat (j + 1)) with (S (N.to_nat j)) by lia. reflexivity. }
        assert (Hlen : lenN (c :: s) = lenN s + 1) by (unfold lenN; cbn [length]; lia).
        split.
        -- intros H. injection H as <-. rewrite Hsk, Hlen. repeat split; [exact K1 | lia |].
           intros j Hj. destruct (N.eq_dec j 0) as [-> | Hne]; [exact E |].
           replace j with ((j - 1) + 1) by lia. rewrite Hsk. apply K3. lia.
        -- intros (H1 & H2 & H3). f_equal.
           destruct (N.eq_dec i 0) as [-> | Hne]; [unfold skipnN in H1; cbn in H1; congruence |].
           replace i with ((i - 1) + 1) in H1 by lia. rewrite Hsk in H1.
           destruct (N.lt_trichotomy (i - 1) k) as [Hlt | [Heq | Hgt]]; [| lia |].
           ++ rewrite (K3 _ Hlt) in H1. discriminate.
           ++ specialize (H3 (k + 1) ltac:(lia)). rewrite Hsk in H3. congruence.
      * split; [discriminate |]. intros (H1 & H2 & H3).
        destruct (N.eq_dec i 0) as [-> | Hne]; [unfold skipnN in H1; cbn in H1; congruence |].
        exfalso. assert (Hsk : skipnN i (c :: s) = skipnN (i - 1) s).
        { unfold skipnN. replace (N.to_nat i) with (S (N.to_nat (i - 1))) by lia. reflexivity. }
        rewrite Hsk in H1.
        assert (Hnone : forall m, find_sub p m = None -> forall j, starts_with p (skipnN j m) = false).
        { clear. induction m as [| d m IHm]; cbn [find_sub]; intros Hn j.
          - destruct (starts_with p []) eqn:E0; [discriminate |]. unfold skipnN. destruct (N.to_nat j); exact E0.
          - destruct (starts_with p (d :: m)) eqn:E0; [discriminate |].
            destruct (find_sub p m) eqn:Em; [discriminate |].
            unfold skipnN. destruct (N.to_nat j) as [| j'] eqn:Ej; [exact E0 |]. cbn.
            specialize (IHm eq_refl (N.of_nat j')). unfold skipnN in IHm. rewrite Nat2N.id in IHm. exact IHm. }
        rewrite (Hnone s Ef (i - 1)) in H1. discriminate.
Qed.

(* ---------- LEFT$ / RIGHT$ / MID$ / LEN ---------- *)
Lemma lenN_firstn {A} n (s : list A) : lenN (firstnN n s) = N.min n (lenN s).
Proof. unfold lenN, firstnN. rewrite firstn_length. lia. Qed.
Lemma lenN_skipn {A} n (s : list A) : lenN (skipnN n s) = lenN s - n.
Proof. unfold lenN, skipnN. rewrite skipn_length. lia. Qed.
Lemma firstn_skipn_N {A} n (s : list A) : firstnN n s ++ skipnN n s = s.
Proof. apply firstn_skipn. Qed.

(* LEFT$(s, n): the first min(n, LEN s) characters, and s is that followed by the rest *)
Theorem left_spec : forall s n, (0 <= n)%Z -> to_usize (VInt n) = Ok n ->
  exists l, fn_left (VStr s) (VInt n) = Ok (VStr l) /\ lenN l = N.min (Z.to_N n) (lenN s) /\ exists t, s = l ++ t.
Proof.
  intros s n Hn Hu. unfold fn_left. rewrite Hu. cbn. eexists. split; [reflexivity |]. split; [apply lenN_firstn |].
  exists (skipnN (Z.to_N n) s). symmetry. apply firstn_skipn_N.
Qed.

(* RIGHT$(s, n): the last min(n, LEN s) characters *)
Theorem right_spec : forall s n, (0 <= n)%Z -> to_usize (VInt n) = Ok n ->
  exists r, fn_right (VStr s) (VInt n) = Ok (VStr r) /\ lenN r = N.min (Z.to_N n) (lenN s) /\ exists t, s = t ++ r.
Proof.
  intros s n Hn Hu. unfold fn_right. rewrite Hu. cbn [bind]. destruct (Z.eqb_spec n 0) as [-> | Hne].
  - exists []. split; [reflexivity |]. split; [unfold lenN; cbn; lia |]. exists s. rewrite app_nil_r. reflexivity.
  - cbn. eexists. split; [reflexivity |]. split; [rewrite lenN_skipn; lia |].
    exists (firstnN (lenN s - Z.to_N n) s). symmetry. apply firstn_skipn_N.
Qed.

(* MID$(s, p, l): the characters p .. p+l-1 (1-based), cut at the end of s *)
Theorem mid_spec : forall s p l, (1 <= p)%Z -> to_usize (VInt p) = Ok p -> to_u16 (VInt l) = Ok l -> (0 <= l)%Z ->
  exists m, fn_mid [VStr s; VInt p; VInt l] = Ok (VStr m)
    /\ lenN m = N.min (Z.to_N l) (lenN s - (Z.to_N p - 1))
    /\ exists a b, s = a ++ m ++ b /\ lenN a = N.min (Z.to_N p - 1) (lenN s).
Proof.
  intros s p l Hp Hu Hl Hl0. unfold fn_mid. rewrite Hl, Hu. cbn [bind]. destruct (Z.eqb_spec p 0); [lia |]. cbn.
  eexists. split; [reflexivity |]. split; [rewrite lenN_firstn, lenN_skipn; f_equal; lia |].
  exists (firstnN (Z.to_N (p - 1)) s), (skipnN (Z.to_N l) (skipnN (Z.to_N (p - 1)) s)).
  split; [rewrite firstn_skipn_N, firstn_skipn_N; reflexivity | rewrite lenN_firstn; f_equal; lia].
Qed.

(* LEN counts characters *)
Theorem len_spec : forall s, lenN s <= 32767 -> fn_len (VStr s) = Ok (VInt (Z.of_N (lenN s))).
Proof. intros s H. unfold fn_len, val_of_len. cbn. destruct (N.leb_spec (lenN s) 32767); [reflexivity | lia]. Qed.

(* ---------- MID$ assignment ---------- *)
(* the target keeps its length; characters before position p are untouched *)
Lemma letmid_length : forall orig ins index pos len, length (letmid_loop orig ins index pos len) = length orig.
Proof.
  induction orig as [| ch r IH]; intros ins index pos len; cbn [letmid_loop]; [reflexivity |].
  destruct ((pos <=? index + 1) && (0 <? len)); [destruct ins |]; cbn [length]; rewrite IH; reflexivity.
Qed.

Lemma letmid_prefix : forall orig ins index pos len, index + lenN orig < pos ->
  letmid_loop orig ins index pos len = orig.
Proof.
  induction orig as [| ch r IH]; intros ins index pos len H; cbn [letmid_loop]; [reflexivity |].
  assert (Hl : lenN (ch :: r) = lenN r + 1) by (unfold lenN; cbn [length]; lia).
  destruct (N.leb_spec pos (index + 1)); [lia |]. cbn. f_equal. apply IH. lia.
Qed.

(* ---------- CHR$ / ASC ---------- *)
Theorem asc_chr : forall n, (0 <= n <= 32767)%Z -> is_scalar_value n = true -> to_u32 (VInt n) = Ok n ->
  exists s, fn_chr (VInt n) = Ok (VStr s) /\ lenN s = 1 /\ fn_asc (VStr s) = Ok (VInt n).
Proof.
  intros n Hn Hs Hu. unfold fn_chr. rewrite Hu. cbn. rewrite Hs. eexists. split; [reflexivity |]. split; [reflexivity |].
  unfold fn_asc. cbn. rewrite Z2N.id by lia. destruct (Z.leb_spec n 32767); [reflexivity | lia].
Qed.

(* ---------- STRING$ / SPC ---------- *)
Lemma lenN_repeat {A} (c : A) n : lenN (repeatN c n) = n.
Proof. unfold lenN, repeatN. rewrite repeat_length. lia. Qed.

Theorem string_spec : forall n c r, fn_string (VInt n) (VStr (c :: r)) = 
  match to_usize (VInt n) with
  | Ok m => if (255 <? m)%Z then err E_Overflow else Ok (VStr (repeatN c (Z.to_N m)))
  | Err e => Err e | Panic => Panic | Hang => Hang
  end.
Proof. intros n c r. unfold fn_string. destruct (to_usize (VInt n)) as [m | | |]; cbn; try reflexivity. Qed.

(* INSTR(s, p) is 1 + the least index where p occurs in s, 0 when it occurs nowhere (or s is empty) *)
Theorem instr_spec : forall s p, s <> [] ->
  fn_instr [VStr s; VStr p] = match find_sub p s with Some i => val_of_len (i + 1) | None => Ok (VInt 0) end.
Proof.
  intros s p Hs. unfold fn_instr. cbn. 
  destruct (Z.leb_spec (Z.of_N (lenN s)) 0) as [H | H].
  - exfalso. destruct s; [contradiction | unfold lenN in H; cbn in H; lia].
  - unfold skipnN. cbn. reflexivity.
Qed.
