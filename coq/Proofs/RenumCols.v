(* C14 -- what RENUM replaces.  The ranges the renumbering visitor collects from a parsed line are, each of them, exactly the
   range of one number token of that line in its listed text (Proofs/ParseCols.v gives the parser's half): RENUM rewrites
   digits of line-number operands and nothing else. *)
From BL Require Import Base.Prelude Base.Floats Base.Decimal Lang.Token Lang.Ast Mach.Func Lang.Parse Mach.Val Mach.Compile Mach.Listing
     Proofs.DataSeg Proofs.ParseCols.
From Coq Require Import Lia.
Local Open Scope N_scope.

Section RenumCols.
Variable all : list token.
Variable ch : changes.

Lemma operand_cols : forall e c nn, In (c, nn) (renum_operand ch e) ->
  match e with ESng c0 _ | EDbl c0 _ | EInt c0 _ => c = c0 /\ fst c0 <> snd c0 | _ => False end.
Proof.
  intros e c nn H. unfold renum_operand in H.
  assert (G : forall c0 tb n, In (c, nn) (if tb || (fst c0 =? snd c0) || (n <? 0)%Z then []
                                          else match ch_get ch (Z.to_N (Z.max 0 n)) with Some nn0 => [(c0, nn0)] | None => [] end) ->
                              c = c0 /\ fst c0 <> snd c0).
  { intros c0 tb n Hin. destruct tb; [cbn in Hin; contradiction |]. cbn [orb] in Hin.
    destruct (N.eqb_spec (fst c0) (snd c0)); [cbn in Hin; contradiction |]. cbn [orb] in Hin.
    destruct (n <? 0)%Z; [cbn in Hin; contradiction |]. destruct (ch_get ch (Z.to_N (Z.max 0 n))) as [nn0 |]; [| cbn in Hin; contradiction].
    destruct Hin as [Hin | Hin]; [| contradiction]. injection Hin as <- _. split; [reflexivity | assumption]. }
  destruct e; try contradiction.
  - destruct (f32_is_nan bits); exact (G _ _ _ H).
  - destruct (f64_is_nan bits); exact (G _ _ _ H).
  - exact (G _ _ _ H).
Qed.

Lemma none_marker : renum_operand ch (ESng (0, 1) (f32_of_Z (-1))) = [].
Proof. unfold renum_operand. vm_compute. reflexivity. Qed.

Lemma marker_is_skipped : forall c, renum_operand ch (ESng c (f32_of_Z (-1))) = [].
Proof.
  intros c. unfold renum_operand.
  change (f32_is_nan (f32_of_Z (-1))) with false. cbv iota.
  change (f32_lt (f32_of_Z 65529) (f32_of_Z (-1))) with false.
  change (f32_to_Z (f32_trunc (f32_of_Z (-1)))) with (-1)%Z.
  cbn [orb]. rewrite orb_true_r. reflexivity.
Qed.

Lemma lnum_cols : forall e c nn, good_lnum all e -> In (c, nn) (renum_operand ch e) -> num_range all c.
Proof.
  intros e c nn Hg H. pose proof (operand_cols e c nn H) as Hc. destruct e; try contradiction. destruct Hc as [-> _]. exact Hg.
Qed.
Lemma target_cols : forall e c nn, good_target all e -> In (c, nn) (renum_operand ch e) -> num_range all c.
Proof.
  intros e c nn Hg H. pose proof (operand_cols e c nn H) as Hc. destruct e; try contradiction; cbn [good_target] in Hg.
  destruct Hc as [-> _]. destruct Hg as [-> | Hg]; [rewrite marker_is_skipped in H; contradiction | exact Hg].
Qed.
Lemma end_cols : forall e c nn, good_end all e -> In (c, nn) (renum_operand ch e) -> num_range all c.
Proof.
  intros e c nn Hg H. pose proof (operand_cols e c nn H) as Hc. destruct e; try contradiction; cbn [good_end] in Hg; try contradiction.
  destruct Hc as [-> Hne]. destruct Hg as [Hg | Hg]; [contradiction | exact Hg].
Qed.

Lemma stmt_cols : forall s c nn, good_stmt all s -> In (c, nn) (renum_visit ch s) -> num_range all c.
Proof.
  induction s as [c0 p th el IHth IHel | s Hs] using stmt_ind2; intros c nn Hg H.
  - apply good_if in Hg. destruct Hg as [Gth Gel]. cbn [renum_visit] in H. apply in_app_or in H.
    assert (Hl : forall l, Forall (fun s => forall c nn, good_stmt all s -> In (c, nn) (renum_visit ch s) -> num_range all c) l ->
                 good_stmts all l -> In (c, nn) (flat_map (renum_visit ch) l) -> num_range all c).
    { induction l as [| x r IHr]; intros HF HG Hin; [contradiction |]. cbn [flat_map] in Hin. cbn [good_stmts] in HG. destruct HG as [Gx Gr].
      inversion HF as [| ? ? Hx Hr]; subst. apply in_app_or in Hin. destruct Hin as [Hin | Hin]; [exact (Hx c nn Gx Hin) | exact (IHr Hr Gr Hin)]. }
    destruct H as [H | H]; [exact (Hl th IHth Gth H) | exact (Hl el IHel Gel H)].
  - destruct s; try contradiction; cbn [renum_visit good_stmt] in *; try contradiction.
    + destruct Hg as [Ga Gb]. apply in_app_or in H. destruct H as [H | H]; [exact (end_cols _ _ _ Ga H) | exact (end_cols _ _ _ Gb H)].
    + exact (lnum_cols _ _ _ Hg H).
    + exact (lnum_cols _ _ _ Hg H).
    + destruct Hg as [Ga Gb]. apply in_app_or in H. destruct H as [H | H]; [exact (end_cols _ _ _ Ga H) | exact (end_cols _ _ _ Gb H)].
    + apply in_flat_map in H. destruct H as [e0 [He Hin]]. rewrite Forall_forall in Hg. exact (lnum_cols _ _ _ (Hg e0 He) Hin).
    + apply in_flat_map in H. destruct H as [e0 [He Hin]]. rewrite Forall_forall in Hg. exact (lnum_cols _ _ _ (Hg e0 He) Hin).
    + exact (target_cols _ _ _ Hg H).
    + exact (target_cols _ _ _ Hg H).
Qed.
End RenumCols.

(* every range RENUM replaces in a line is exactly the range of one number token of that line *)
Theorem renum_replaces_number_tokens : forall n toks ast ch c nn, parse n toks = Ok ast ->
  In (c, nn) (flat_map (renum_visit ch) ast) -> num_range toks c.
Proof.
  intros n toks ast ch c nn Hp H. pose proof (parse_columns_exact n toks ast Hp) as Hg. clear Hp.
  induction ast as [| s r IH]; [contradiction |]. cbn [flat_map] in H. cbn [good_stmts] in Hg. destruct Hg as [Gs Gr].
  apply in_app_or in H. destruct H as [H | H]; [exact (stmt_cols toks ch s c nn Gs H) | exact (IH H Gr)].
Qed.

(* and what such a range holds: the digits of that token, cut out of the listed text *)
Lemma firstnN_skipnN_app : forall (a b c : str), firstnN (lenN b) (skipnN (lenN a) (a ++ b ++ c)) = b.
Proof.
  intros a b c. unfold firstnN, skipnN, lenN. rewrite !Nat2N.id. rewrite skipn_app, skipn_all, Nat.sub_diag. cbn [skipn app].
  rewrite firstn_app, firstn_all, Nat.sub_diag. cbn [firstn]. apply app_nil_r.
Qed.

Theorem num_range_is_the_digits : forall toks c, num_range toks c ->
  exists l s, In (TLit l) toks /\ is_lnum_lit l = Some s /\ cut (tokens_str toks) c = s.
Proof.
  intros toks c [before [l [s [after (E & Hl & ->)]]]]. exists l, s. split; [rewrite E; apply in_or_app; right; left; reflexivity |].
  split; [exact Hl |]. unfold cut. cbn [fst snd]. replace (widths before + lenN s - widths before) with (lenN s) by lia.
  rewrite E. unfold tokens_str. rewrite flat_map_app. cbn [flat_map]. unfold widths, tokens_str.
  assert (Hs : token_str (TLit l) = s) by (destruct l; try discriminate Hl; cbn in Hl |- *; injection Hl as ->; reflexivity).
  rewrite Hs. apply firstnN_skipnN_app.
Qed.
