(* C15: the operands of LIST and DELETE.  The range parser, on the token-list view of the parser state, reads
   nothing / n / n- / -m / n-m as the documented pair of bounds and rejects an inverted range. *)
From BL Require Import Base.Prelude Base.Floats Base.Decimal Lang.Token Lang.Ast Mach.Func Lang.Parse Proofs.ParseExpr.
From Coq Require Import Lia.
Local Open Scope N_scope.

(* a token that denotes the line number n *)
Definition is_lnum (t : token) (n : N) : Prop :=
  (exists s, (t = TLit (LInt s) \/ t = TLit (LSng s) \/ t = TLit (LDbl s)) /\ parse_u16 s = Some n) /\ n <= 65529.
Definition not_number (ts : list token) : Prop :=
  match ts with TLit (LInt _) :: _ | TLit (LSng _) :: _ | TLit (LDbl _) :: _ => False | _ => True end.
Definition not_dash (ts : list token) : Prop := match ts with TOp OMinus :: _ => False | _ => True end.

Lemma maybe_lnum_yes st t n r : rep st (t :: r) -> is_lnum t n -> exists st', maybe_line_number st = Ok (Some n, st') /\ rep st' r /\ p_peek st' = None.
Proof.
  intros Hr [(s & Ht & Hp) Hn]. destruct (ppeek_rep st t r Hr) as (s1 & E1 & H1). destruct (pnext_rep s1 t r H1) as (s2 & E2 & H2 & Hpk).
  exists s2. split; [| split; assumption]. unfold maybe_line_number, pbind. rewrite E1.
  destruct Ht as [-> | [-> | ->]]; rewrite E2, Hp; destruct (N.leb_spec n 65529); try lia; reflexivity.
Qed.

Lemma maybe_lnum_no st ts : rep st ts -> not_number ts -> exists st', maybe_line_number st = Ok (None, st') /\ rep st' ts.
Proof.
  intros Hr Hn. destruct ts as [| t r].
  - destruct (ppeek_nil st Hr) as (s1 & E1 & H1). exists s1. split; [| exact H1]. unfold maybe_line_number, pbind. rewrite E1. reflexivity.
  - destruct (ppeek_rep st t r Hr) as (s1 & E1 & H1). exists s1. split; [| exact H1]. unfold maybe_line_number, pbind. rewrite E1.
    destruct t as [s0 | n0 | l | w | o | i | | | | |]; try reflexivity. destruct l; try reflexivity; contradiction.
Qed.

Lemma maybe_dash_no st ts : rep st ts -> not_dash ts -> exists st', maybe (TOp OMinus) st = Ok (false, st') /\ rep st' ts.
Proof.
  intros Hr Hn. apply maybe_no; [exact Hr |]. destruct ts as [| t r]; [exact I |].
  destruct t as [s0 | n0 | l | w | o | i | | | | |]; try reflexivity; try (destruct l; reflexivity); try (destruct i; reflexivity).
  destruct o; try reflexivity. contradiction.
Qed.

Definition bound (e : expr) (n : N) : Prop := strip e = ESng (0, 0) (f32_of_Z (Z.of_N n)).
Lemma bound_lnum c n : bound (lnum_expr c n) n. Proof. reflexivity. Qed.

(* nothing: the whole program *)
Theorem range_bare : forall st ts, rep st ts -> not_number ts -> not_dash ts ->
  exists a b st', line_number_range st = Ok ((a, b), st') /\ bound a 0 /\ bound b 65529 /\ rep st' ts.
Proof.
  intros st ts Hr Hn Hd. destruct (maybe_lnum_no st ts Hr Hn) as (s1 & E1 & H1). destruct (maybe_dash_no s1 ts H1 Hd) as (s2 & E2 & H2).
  eexists. eexists. exists s2. unfold line_number_range, pbind, pcolm. rewrite E1, E2. cbn. split; [reflexivity |]. split; [reflexivity |]. split; [reflexivity | exact H2].
Qed.

(* n: that line alone *)
Theorem range_single : forall st t n r, rep st (t :: r) -> is_lnum t n -> not_dash r ->
  exists a b st', line_number_range st = Ok ((a, b), st') /\ bound a n /\ bound b n /\ rep st' r.
Proof.
  intros st t n r Hr Ht Hd. destruct (maybe_lnum_yes st t n r Hr Ht) as (s1 & E1 & H1 & _). destruct (maybe_dash_no s1 r H1 Hd) as (s2 & E2 & H2).
  eexists. eexists. exists s2. unfold line_number_range, pbind, pcolm. rewrite E1, E2. cbn. rewrite N.ltb_irrefl.
  split; [reflexivity |]. split; [reflexivity |]. split; [reflexivity | exact H2].
Qed.

(* n- : from n to the end *)
Theorem range_from : forall st t n r, rep st (t :: TOp OMinus :: r) -> is_lnum t n -> not_number r ->
  exists a b st', line_number_range st = Ok ((a, b), st') /\ bound a n /\ bound b 65529 /\ rep st' r.
Proof.
  intros st t n r Hr Ht Hn. destruct (maybe_lnum_yes st t n _ Hr Ht) as (s1 & E1 & H1 & _). destruct (maybe_yes s1 _ _ H1) as (s2 & E2 & H2).
  destruct (maybe_lnum_no s2 r H2 Hn) as (s3 & E3 & H3). destruct Ht as [_ Hle].
  eexists. eexists. exists s3. unfold line_number_range, pbind, pcolm. rewrite E1, E2, E3. cbn [pret].
  destruct (N.ltb_spec 65529 n); [lia |]. split; [reflexivity |]. split; [reflexivity |]. split; [reflexivity | exact H3].
Qed.

(* -m : from the beginning to m *)
Theorem range_to : forall st t m r, rep st (TOp OMinus :: t :: r) -> is_lnum t m ->
  exists a b st', line_number_range st = Ok ((a, b), st') /\ bound a 0 /\ bound b m /\ rep st' r.
Proof.
  intros st t m r Hr Ht. destruct (maybe_lnum_no st _ Hr I) as (s1 & E1 & H1). destruct (maybe_yes s1 _ _ H1) as (s2 & E2 & H2).
  destruct (maybe_lnum_yes s2 t m r H2 Ht) as (s3 & E3 & H3 & _).
  eexists. eexists. exists s3. unfold line_number_range, pbind, pcolm. rewrite E1, E2, E3. cbn [pret].
  destruct (N.ltb_spec m 0); [lia |]. split; [reflexivity |]. split; [reflexivity |]. split; [reflexivity | exact H3].
Qed.

(* n-m : from n to m, and an inverted range is refused *)
Theorem range_both : forall st t1 n t2 m r, rep st (t1 :: TOp OMinus :: t2 :: r) -> is_lnum t1 n -> is_lnum t2 m ->
  if m <? n then exists e, line_number_range st = Err e /\ ecode e = E_UndefinedLine
  else exists a b st', line_number_range st = Ok ((a, b), st') /\ bound a n /\ bound b m /\ rep st' r.
Proof.
  intros st t1 n t2 m r Hr Ht1 Ht2. destruct (maybe_lnum_yes st t1 n _ Hr Ht1) as (s1 & E1 & H1 & _). destruct (maybe_yes s1 _ _ H1) as (s2 & E2 & H2).
  destruct (maybe_lnum_yes s2 t2 m r H2 Ht2) as (s3 & E3 & H3 & _).
  unfold line_number_range, pbind, pcolm. rewrite E1, E2, E3. cbn [pret].
  destruct (m <? n).
  - eexists. split; reflexivity.
  - eexists. eexists. exists s3. split; [reflexivity |]. split; [reflexivity |]. split; [reflexivity | exact H3].
Qed.

(* the scanner's tokens behind LIST in "LIST 120-300" are of that shape *)
From BL Require Import Lang.Lex.
From Coq Require Import String.
Example range_tokens :
  lex (s2l "LIST 120-300") = Ok (None, [TWord WList; TWs 1; TLit (LInt (s2l "120")); TOp OMinus; TLit (LInt (s2l "300"))])
  /\ is_lnum (TLit (LInt (s2l "120"))) 120 /\ is_lnum (TLit (LInt (s2l "300"))) 300.
Proof.
  split; [vm_compute; reflexivity |]. split; (split; [eexists; split; [left; reflexivity | vm_compute; reflexivity] | lia]).
Qed.
