(* C07: the 255-character limit, concatenation, comparison, STRING$, and HEX$ / OCT$ read back by the interpreter's own
   radix reader. *)
From BL Require Import Base.Prelude Base.Floats Mach.Val Mach.Ops Mach.Func Mach.Var.
From Coq Require Import Lia ZifyBool ZifyN.
Local Open Scope N_scope.

(* ---------- the limit sits at the store ---------- *)
Theorem string_store_limit : forall s, convert_to TStr (VStr s) = if 255 <? lenN s then err E_StringTooLong else Ok (VStr s).
Proof. reflexivity. Qed.

Theorem concat_is_append : forall a b, op_sum (VStr a) (VStr b) = Ok (VStr (a ++ b)).
Proof. reflexivity. Qed.

(* ---------- comparison is lexicographic on character codes; a proper prefix is smaller ---------- *)
Inductive lex_lt : str -> str -> Prop :=
| lex_nil : forall y b, lex_lt [] (y :: b)
| lex_head : forall x y a b, x < y -> lex_lt (x :: a) (y :: b)
| lex_tail : forall x a b, lex_lt a b -> lex_lt (x :: a) (x :: b).

Theorem str_ltb_lex : forall a b, str_ltb a b = true <-> lex_lt a b.
Proof.
  induction a as [| x a IH]; intros [| y b]; cbn [str_ltb]; split; intros H.
  - discriminate.
  - inversion H.
  - apply lex_nil.
  - reflexivity.
  - discriminate.
  - inversion H.
  - destruct (N.ltb_spec x y); [apply lex_head; assumption |]. destruct (N.ltb_spec y x); [discriminate |].
    assert (x = y) by lia. subst y. apply lex_tail. apply IH. exact H.
  - inversion H as [| ? ? ? ? Hxy | ? ? ? Hab]; subst.
    + destruct (N.ltb_spec x y); [reflexivity | lia].
    + destruct (N.ltb_spec y y); [lia |]. apply IH. exact Hab.
Qed.

Theorem string_less : forall a b, op_less (VStr a) (VStr b) = Ok (if str_ltb a b then VInt (-1) else VInt 0).
Proof. intros a b. unfold op_less, less_bool, cmp_bool. cbn. destruct (str_ltb a b); reflexivity. Qed.

Theorem string_equal : forall a b, op_equal (VStr a) (VStr b) = Ok (if str_eqb a b then VInt (-1) else VInt 0).
Proof. intros a b. unfold op_equal, equal_bool. cbn. destruct (str_eqb a b); reflexivity. Qed.

Lemma str_eqb_eq : forall a b, str_eqb a b = true <-> a = b.
Proof.
  induction a as [| x a IH]; intros [| y b]; cbn [str_eqb]; split; intros H; try discriminate; try reflexivity.
  - apply andb_prop in H. destruct H as [H1 H2]. apply N.eqb_eq in H1. apply IH in H2. subst. reflexivity.
  - injection H as -> ->. rewrite N.eqb_refl. apply IH. reflexivity.
Qed.

(* ---------- STRING$(n, c$) ---------- *)
Theorem string_fn : forall n c rest, (0 <= n <= 255)%Z -> fn_string (VInt n) (VStr (c :: rest)) = Ok (VStr (repeatN c (Z.to_N n))).
Proof.
  intros n c rest Hn. unfold fn_string, to_usize, to_unsigned. destruct (Z.leb_spec 0 n); [| lia]. cbn [bind].
  destruct (Z.ltb_spec 255 n); [lia | reflexivity].
Qed.

Theorem string_fn_too_long : forall n cv, (255 < n <= 32767)%Z -> fn_string (VInt n) cv = err E_Overflow.
Proof.
  intros n cv Hn. unfold fn_string, to_usize, to_unsigned. destruct (Z.leb_spec 0 n); [| lia]. cbn [bind].
  destruct (Z.ltb_spec 255 n); [reflexivity | lia].
Qed.

(* ---------- HEX$ and OCT$: the digits, read by the interpreter's own radix reader, give the number back ---------- *)
Lemma digit_char radix d : d < radix -> radix <= 16 ->
  digit_in_radix radix (if d <? 10 then 48 + d else 55 + d) = Some d.
Proof.
  intros Hd Hr. unfold digit_in_radix, is_digit, is_lower, is_upper. destruct (N.ltb_spec d 10).
  - destruct (N.leb_spec 48 (48 + d)); [| lia]. destruct (N.leb_spec (48 + d) 57); [| lia]. cbn [andb].
    replace (48 + d - 48) with d by lia. destruct (N.ltb_spec d radix); [reflexivity | lia].
  - destruct (N.leb_spec 48 (55 + d)); [| lia]. destruct (N.leb_spec (55 + d) 57); [lia |]. cbn [andb].
    destruct (N.leb_spec 97 (55 + d)); [lia |]. cbn [andb].
    destruct (N.leb_spec 65 (55 + d)); [| lia]. destruct (N.leb_spec (55 + d) 90); [| lia]. cbn [andb].
    replace (55 + d - 55) with d by lia. destruct (N.ltb_spec d radix); [reflexivity | lia].
Qed.

Lemma radix_round : forall fuel radix n acc, 2 <= radix <= 16 -> n < radix ^ N.of_nat fuel -> n < 1000000 ->
  radix_digits radix (radix_fuel fuel radix n acc) 0 = radix_digits radix acc n.
Proof.
  induction fuel as [| f IH]; intros radix n acc Hr Hn Hm.
  - cbn in Hn. assert (n = 0) by lia. subst n. reflexivity.
  - cbn [radix_fuel]. set (d := n mod radix). set (q := n / radix).
    assert (Hd : d < radix) by (apply N.mod_lt; lia).
    assert (Hdiv : n = radix * q + d) by (apply N.div_mod; lia).
    destruct (N.eqb_spec q 0) as [Hq | Hq].
    + cbn [radix_digits]. rewrite (digit_char radix d Hd ltac:(lia)). cbn. f_equal. lia.
    + assert (Hq1 : q < radix ^ N.of_nat f).
      { rewrite Nat2N.inj_succ, N.pow_succ_r' in Hn. unfold q. apply N.div_lt_upper_bound; lia. }
      assert (Hq2 : q <= n) by (unfold q; apply N.div_le_upper_bound; nia).
      rewrite (IH radix q _ Hr Hq1 ltac:(lia)).
      cbn [radix_digits]. rewrite (digit_char radix d Hd ltac:(lia)). destruct (N.ltb_spec q 1000000); [f_equal; lia | lia].
Qed.

Theorem hex_reads_back : forall n, (-32768 <= n <= 32767)%Z ->
  exists s, fn_hex (VInt n) = Ok (VStr s) /\ radix_digits 16 s 0 = Some (u16_of_i16 n).
Proof.
  intros n Hn. eexists. split; [reflexivity |]. rewrite radix_round; [reflexivity | lia | | ].
  - unfold u16_of_i16. assert (0 <= n mod 65536 < 65536)%Z by (apply Z.mod_pos_bound; lia). change (16 ^ N.of_nat 16) with 18446744073709551616. lia.
  - unfold u16_of_i16. assert (0 <= n mod 65536 < 65536)%Z by (apply Z.mod_pos_bound; lia). lia.
Qed.

Theorem oct_reads_back : forall n, (-32768 <= n <= 32767)%Z ->
  exists s, fn_oct (VInt n) = Ok (VStr s) /\ radix_digits 8 s 0 = Some (u16_of_i16 n).
Proof.
  intros n Hn. eexists. split; [reflexivity |]. rewrite radix_round; [reflexivity | lia | | ].
  - unfold u16_of_i16. assert (0 <= n mod 65536 < 65536)%Z by (apply Z.mod_pos_bound; lia). change (8 ^ N.of_nat 16) with 281474976710656. lia.
  - unfold u16_of_i16. assert (0 <= n mod 65536 < 65536)%Z by (apply Z.mod_pos_bound; lia). lia.
Qed.

(* ---------- VAL / INPUT read the & forms: "&H" followed by HEX$(n) is n again, "&" followed by OCT$(n) likewise ---------- *)
Lemma radix_fuel_nonempty : forall fuel radix n, radix_fuel (S fuel) radix n [] <> [].
Proof.
  intros fuel radix n. cbn [radix_fuel]. destruct (n / radix =? 0); [discriminate |].
  assert (G : forall f q acc, acc <> [] -> radix_fuel f radix q acc <> []).
  { induction f as [| f IH]; intros q acc Ha; cbn [radix_fuel]; [exact Ha |]. destruct (q / radix =? 0); [discriminate | apply IH; discriminate]. }
  apply G. discriminate.
Qed.

Lemma radix_fuel_head : forall fuel radix n acc c r, 2 <= radix <= 16 ->
  (forall a l, acc = a :: l -> exists d, d < radix /\ a = (if d <? 10 then 48 + d else 55 + d)) ->
  radix_fuel fuel radix n acc = c :: r -> exists d, d < radix /\ c = (if d <? 10 then 48 + d else 55 + d).
Proof.
  induction fuel as [| f IH]; intros radix n acc c r Hr Ha H; cbn [radix_fuel] in H; [exact (Ha c r H) |].
  set (d := n mod radix) in *. assert (Hd : d < radix) by (apply N.mod_lt; lia).
  destruct (n / radix =? 0); [injection H as <- _; exists d; split; [exact Hd | reflexivity] |].
  apply (IH radix _ _ c r Hr) in H; [exact H |]. intros a l E. injection E as <- _. exists d. split; [exact Hd | reflexivity].
Qed.

Theorem val_reads_hex : forall n, (0 <= n <= 32767)%Z ->
  exists s, fn_hex (VInt n) = Ok (VStr s) /\ val_from_str (38 :: 72 :: s) = VInt n.
Proof.
  intros n Hn. eexists. split; [reflexivity |]. unfold val_from_str. cbn [N.eqb orb]. replace (72 =? 72) with true by reflexivity. cbn [orb].
  unfold i16_from_str_radix. set (s := radix_fuel 16 16 (u16_of_i16 n) []).
  assert (Hne : s <> []) by apply radix_fuel_nonempty.
  destruct s as [| c r] eqn:Es; [contradiction |].
  destruct (radix_fuel_head 16 16 (u16_of_i16 n) [] c r ltac:(lia) ltac:(intros a l E; discriminate) Es) as [d [Hd Hc]].
  destruct (N.eqb_spec c 45); [destruct (N.ltb_spec d 10); lia |]. destruct (N.eqb_spec c 43); [destruct (N.ltb_spec d 10); lia |].
  rewrite <- Es. unfold s. rewrite radix_round; [| lia | | ].
  - cbn [radix_digits]. unfold u16_of_i16. rewrite Z.mod_small by lia. rewrite Z2N.id by lia.
    unfold in_i16. destruct (Z.leb_spec (-32768) n), (Z.leb_spec n 32767); try lia. reflexivity.
  - unfold u16_of_i16. rewrite Z.mod_small by lia. change (16 ^ N.of_nat 16) with 18446744073709551616. lia.
  - unfold u16_of_i16. rewrite Z.mod_small by lia. lia.
Qed.

Theorem val_reads_oct : forall n, (0 <= n <= 32767)%Z ->
  exists s, fn_oct (VInt n) = Ok (VStr s) /\ val_from_str (38 :: s) = VInt n.
Proof.
  intros n Hn. eexists. split; [reflexivity |]. unfold val_from_str. cbn [N.eqb orb]. replace (38 =? 38) with true by reflexivity.
  set (s := radix_fuel 16 8 (u16_of_i16 n) []).
  assert (Hne : s <> []) by apply radix_fuel_nonempty.
  destruct s as [| c r] eqn:Es; [contradiction |].
  destruct (radix_fuel_head 16 8 (u16_of_i16 n) [] c r ltac:(lia) ltac:(intros a l E; discriminate) Es) as [d [Hd Hc]].
  assert (Hr : 48 <= c <= 55) by (destruct (N.ltb_spec d 10); lia).
  destruct (N.eqb_spec c 72); [lia |]. destruct (N.eqb_spec c 104); [lia |]. cbn [orb].
  unfold i16_from_str_radix.
  destruct (N.eqb_spec c 45); [lia |]. destruct (N.eqb_spec c 43); [lia |].
  rewrite <- Es. unfold s. rewrite radix_round; [| lia | | ].
  - cbn [radix_digits]. unfold u16_of_i16. rewrite Z.mod_small by lia. rewrite Z2N.id by lia.
    unfold in_i16. destruct (Z.leb_spec (-32768) n), (Z.leb_spec n 32767); try lia. reflexivity.
  - unfold u16_of_i16. rewrite Z.mod_small by lia. change (8 ^ N.of_nat 16) with 281474976710656. lia.
  - unfold u16_of_i16. rewrite Z.mod_small by lia. lia.
Qed.
