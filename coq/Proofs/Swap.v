(* C06: SWAP exchanges two same-typed variables and rejects mixed types leaving both unchanged.
   C12: CLEAR forgets everything dynamic. *)
From BL Require Import Base.Prelude Base.Floats Mach.Val Mach.Ops Mach.Func Mach.Var
     Lang.Token Lang.Lex Lang.Ast Lang.Parse Mach.Compile Mach.Listing Mach.Runtime Proofs.ExprCompile Proofs.Vars.
From Coq Require Import Lia.
Local Open Scope N_scope.

Section Swap.
Variable O : oracle.

(* the code SWAP a,b compiles to for two scalar variables *)
Definition swap_code (a b : str) : list opcode := [OpPush b; OpPush a; OpSwap; OpPop b; OpPop a].

Lemma exec_push_var h n r v : var_fetch (r_vars r) n = Ok v -> r_slen r + 1 <= MAX_POOL ->
  exec_op O h (OpPush n) r = (pushed r v, Ok None).
Proof. intros Hf Hs. cbn [exec_op]. unfold rbind, rget, rlift. rewrite Hf. rewrite (push_ok r v Hs). reflexivity. Qed.

Lemma exec_pop_var h n r v st vs : r_stack r = v :: st -> var_store (r_vars r) n v = Ok vs ->
  exec_op O h (OpPop n) r = (set_vars (set_stack_len r st (r_slen r - 1)) vs, Ok None).
Proof. intros Hst Hv. cbn [exec_op]. unfold rbind, pop. rewrite Hst. cbn [r_vars set_stack_len]. rewrite Hv. reflexivity. Qed.

Lemma run_cons h op rest r r1 : exec_op O h op r = (r1, Ok None) -> run_ops O h (op :: rest) r = run_ops O h rest r1.
Proof. intros E. cbn [run_ops]. unfold rbind. rewrite E. reflexivity. Qed.

(* mixed types: TYPE MISMATCH, and the variable store is untouched *)
Theorem swap_mixed_rejected : forall h a b r va vb, r_slen r + 2 <= MAX_POOL ->
  var_fetch (r_vars r) a = Ok va -> var_fetch (r_vars r) b = Ok vb -> same_kind vb va = false ->
  snd (run_ops O h (swap_code a b) r) = err E_TypeMismatch /\ r_vars (fst (run_ops O h (swap_code a b) r)) = r_vars r.
Proof.
  intros h a b r va vb Hs Ha Hb Hk. unfold swap_code.
  rewrite (run_cons h _ _ r _ (exec_push_var h b r vb Hb ltac:(lia))).
  rewrite (run_cons h _ _ _ _ (exec_push_var h a (pushed r vb) va Ha ltac:(cbn; lia))).
  cbn [run_ops exec_op]. unfold rbind at 1. unfold rbind at 1. unfold do_swap, rbind, pop2, rbind, pop.
  cbn [pushed set_stack_len r_stack r_slen rret fst snd]. rewrite Hk. unfold push. cbn [r_slen r_stack set_stack_len].
  destruct (N.ltb_spec MAX_POOL (r_slen r + 1 + 1 - 1 - 1 + 1)); [lia |]. cbn [fst snd].
  destruct (N.ltb_spec MAX_POOL (r_slen r + 1 + 1 - 1 - 1 + 1 + 1)); [lia |]. cbn. split; reflexivity.
Qed.

(* same types: afterwards a holds what b held and b holds what a held *)
Theorem swap_exchanges : forall h a b r va vb vs1 vs2, r_slen r + 2 <= MAX_POOL ->
  var_fetch (r_vars r) a = Ok va -> var_fetch (r_vars r) b = Ok vb -> same_kind vb va = true ->
  var_store (r_vars r) b va = Ok vs1 -> var_store vs1 a vb = Ok vs2 ->
  run_ops O h (swap_code a b) r = (set_vars r vs2, Ok tt).
Proof.
  intros h a b r va vb vs1 vs2 Hs Ha Hb Hk H1 H2. unfold swap_code.
  rewrite (run_cons h _ _ r _ (exec_push_var h b r vb Hb ltac:(lia))).
  rewrite (run_cons h _ _ _ _ (exec_push_var h a (pushed r vb) va Ha ltac:(cbn; lia))).
  assert (Esw : exec_op O h OpSwap (pushed (pushed r vb) va) = (pushed (pushed r vb) va, Ok None)).
  { cbn [exec_op]. unfold rbind at 1. unfold do_swap, rbind, pop2, rbind, pop.
    cbn [pushed set_stack_len r_stack r_slen rret fst snd]. rewrite Hk. unfold push. cbn [r_slen r_stack set_stack_len].
    destruct (N.ltb_spec MAX_POOL (r_slen r + 1 + 1 - 1 - 1 + 1)); [lia |]. cbn [fst snd].
    destruct (N.ltb_spec MAX_POOL (r_slen r + 1 + 1 - 1 - 1 + 1 + 1)); [lia |]. cbn [fst snd rret].
    f_equal. unfold pushed. cbn [set_stack_len r_stack r_slen]. replace (r_slen r + 1 + 1 - 1 - 1 + 1 + 1) with (r_slen r + 1 + 1) by lia. destruct r; reflexivity. }
  rewrite (run_cons h _ _ _ _ Esw).
  rewrite (run_cons h _ _ _ _ (exec_pop_var h b (pushed (pushed r vb) va) va (vb :: r_stack r) vs1 eq_refl H1)).
  set (r3 := set_vars (set_stack_len (pushed (pushed r vb) va) (vb :: r_stack r) (r_slen (pushed (pushed r vb) va) - 1)) vs1).
  assert (E3 : exec_op O h (OpPop a) r3 = (set_vars (set_stack_len r3 (r_stack r) (r_slen r3 - 1)) vs2, Ok None))
    by (apply (exec_pop_var h a r3 vb (r_stack r) vs2); [reflexivity | exact H2]).
  rewrite (run_cons h _ _ _ _ E3).
  cbn [run_ops rret]. f_equal. unfold r3, pushed. cbn [set_vars set_stack_len r_slen r_stack].
  replace (r_slen r + 1 + 1 - 1 - 1) with (r_slen r) by lia. destruct r; reflexivity.
Qed.

End Swap.

(* ---------- CLEAR forgets ---------- *)
(* two machines that agree on everything static (listing, compiled code and DATA, program counter, trace and cursor state,
   run state) and on the position in the entropy stream are identical after CLEAR, whatever their variables, arrays, DEFtype
   settings, user functions, value stacks, DATA pointers, random-number states and CONT slots were *)
Definition static_eq (r r' : rt) : Prop :=
  r_prompt r = r_prompt r' /\ r_listing r = r_listing r' /\ r_snap r = r_snap r' /\ r_dirty r = r_dirty r'
  /\ pg_errors (r_prog r) = pg_errors (r_prog r') /\ pg_ind_errors (r_prog r) = pg_ind_errors (r_prog r')
  /\ pg_direct (r_prog r) = pg_direct (r_prog r') /\ pg_line (r_prog r) = pg_line (r_prog r')
  /\ l_cur (pg_link (r_prog r)) = l_cur (pg_link (r_prog r')) /\ l_ops (pg_link (r_prog r)) = l_ops (pg_link (r_prog r'))
  /\ l_data (pg_link (r_prog r)) = l_data (pg_link (r_prog r')) /\ l_direct_set (pg_link (r_prog r)) = l_direct_set (pg_link (r_prog r'))
  /\ l_syms (pg_link (r_prog r)) = l_syms (pg_link (r_prog r')) /\ l_unlinked (pg_link (r_prog r)) = l_unlinked (pg_link (r_prog r'))
  /\ l_whiles (pg_link (r_prog r)) = l_whiles (pg_link (r_prog r'))
  /\ r_pc r = r_pc r' /\ r_tr r = r_tr r' /\ r_tron r = r_tron r' /\ r_entry r = r_entry r' /\ r_state r = r_state r'
  /\ r_cont_pc r = r_cont_pc r' /\ r_col r = r_col r' /\ r_ent r = r_ent r'.

Theorem clear_forgets : forall O r r', static_eq r r' -> fst (do_clear O r) = fst (do_clear O r').
Proof.
  intros O r r' H. unfold static_eq in H.
  destruct r as [p1 l1 s1 d1 pr1 pc1 tr1 tn1 en1 st1 sl1 v1 sta1 c1 cp1 col1 rn1 f1 e1].
  destruct r' as [p2 l2 s2 d2 pr2 pc2 tr2 tn2 en2 st2 sl2 v2 sta2 c2 cp2 col2 rn2 f2 e2].
  destruct pr1 as [pe1 pi1 pd1 pl1 lk1]. destruct pr2 as [pe2 pi2 pd2 pl2 lk2].
  destruct lk1 as [a1 b1 cc1 dd1 ee1 ff1 g1 h1]. destruct lk2 as [a2 b2 cc2 dd2 ee2 ff2 g2 h2].
  cbn in H. repeat match goal with H : _ /\ _ |- _ => destruct H end. subst. reflexivity.
Qed.
