(* C03 -- the parser has no way to panic: whatever the tokens and whatever the fuel, every parser function answers with a tree,
   a BASIC error, or (only when the fuel runs out) the fuel signal -- never with the outcome that stands for a Rust panic. *)
From BL Require Import Base.Prelude Base.Floats Base.Decimal Lang.Token Lang.Ast Mach.Func Lang.Parse.
From Coq Require Import Lia.
Local Open Scope N_scope.

Definition np {A} (m : P A) : Prop := forall st, m st <> Panic.

Lemma np_ret {A} (a : A) : np (pret a). Proof. intros st H. discriminate H. Qed.
Lemma np_bind {A B} (m : P A) (f : A -> P B) : np m -> (forall a, np (f a)) -> np (pbind m f).
Proof. intros Hm Hf st H. unfold pbind in H. destruct (m st) as [[a st1] | | |] eqn:E; try discriminate H; [exact (Hf a st1 H) | exact (Hm st E)]. Qed.
Lemma np_fail {A} code c : np (@pfail A code c). Proof. intros st H. discriminate H. Qed.
Lemma np_fail_here {A} code : np (@pfail_here A code). Proof. intros st H. discriminate H. Qed.
Lemma np_pnext : np pnext. Proof. intros st H. discriminate H. Qed.
Lemma np_ppeek : np ppeek. Proof. intros st H. discriminate H. Qed.
Lemma np_pcolm : np pcolm. Proof. intros st H. discriminate H. Qed.
Lemma np_hang {A} : np (fun _ : pst => @Hang (A * pst)). Proof. intros st H. discriminate H. Qed.

Create HintDb npdb.
Ltac np_step :=
  lazymatch goal with
  | |- np (pret _) => apply np_ret
  | |- np (pbind _ _) => apply np_bind; [ | intros ?]
  | |- np (pfail _ _) => apply np_fail
  | |- np (pfail_here _) => apply np_fail_here
  | |- np pnext => apply np_pnext
  | |- np ppeek => apply np_ppeek
  | |- np pcolm => apply np_pcolm
  | |- np (fun _ => Hang) => apply np_hang
  | |- np (if ?b then _ else _) => destruct b
  | |- np (match ?x with _ => _ end) => destruct x
  | |- np (let '(_, _) := ?x in _) => destruct x
  | |- _ => solve [auto with npdb]
  end.
Ltac npt := repeat np_step.

Lemma np_maybe t : np (maybe t). Proof. unfold maybe. npt. Qed.
Lemma np_expect t : np (expect t). Proof. unfold expect. npt. Qed.
#[export] Hint Resolve np_maybe np_expect np_pnext np_ppeek np_pcolm : npdb.

(* literals: the conversion functions answer with a value or an error *)
Lemma parse_literal_np : forall c l, parse_literal c l <> Panic.
Proof.
  intros c l H. unfold parse_literal, err_col in H.
  destruct l; repeat match type of H with context [match ?x with _ => _ end] => destruct x end; try discriminate H.
Qed.
Lemma np_lift_literal c l : np (fun st => match parse_literal c l with Ok e => Ok (e, st) | Err e => Err e | Panic => Panic | Hang => Hang end).
Proof. intros st H. pose proof (parse_literal_np c l) as Hn. destruct (parse_literal c l); try discriminate H. contradiction. Qed.

Lemma np_exprs : forall fuel,
  (forall vm prec, np (descend fuel vm prec)) /\ (forall vm prec lhs, np (climb fuel vm prec lhs)) /\ (forall vm, np (expr_list fuel vm)).
Proof.
  induction fuel as [| f (IHd & IHc & IHl)]; [repeat split; intros; cbn; apply np_hang |].
  split; [| split].
  - intros vm prec. cbn [descend]. apply np_bind; [apply np_pnext | intros t]. apply np_bind; [| intros lhs; apply IHc].
    destruct t as [[| | l | | o | id | | | | |] |]; try apply np_fail_here.
    + apply np_bind; [apply np_pcolm | intros c]. apply np_lift_literal.
    + destruct o; try apply np_fail_here; npt.
    + npt.
    + npt.
  - intros vm prec lhs. cbn [climb]. npt.
  - intros vm. cbn [expr_list]. npt.
Qed.
Lemma np_descend fuel vm prec : np (descend fuel vm prec). Proof. apply np_exprs. Qed.
Lemma np_expr_list fuel vm : np (expr_list fuel vm). Proof. apply np_exprs. Qed.
Lemma np_expression fuel : np (expression fuel). Proof. apply np_descend. Qed.
#[export] Hint Resolve np_descend np_expr_list np_expression : npdb.

Lemma np_expect_ident : np expect_ident. Proof. unfold expect_ident. npt. Qed.
#[export] Hint Resolve np_expect_ident : npdb.
Lemma np_ident_list fuel b : np (ident_list fuel b).
Proof. revert b. induction fuel as [| f IH]; intros b; cbn [ident_list]; [apply np_hang |]. npt. Qed.
Lemma np_expect_var fuel : np (expect_var fuel). Proof. unfold expect_var. npt. Qed.
#[export] Hint Resolve np_ident_list np_expect_var : npdb.
Lemma np_var_list fuel : np (var_list fuel).
Proof. induction fuel as [| f IH]; cbn [var_list]; [apply np_hang |]. npt. Qed.
Lemma np_maybe_line_number : np maybe_line_number. Proof. unfold maybe_line_number. npt. Qed.
#[export] Hint Resolve np_var_list np_maybe_line_number : npdb.
Lemma np_expect_line_number : np expect_line_number. Proof. unfold expect_line_number. npt. Qed.
#[export] Hint Resolve np_expect_line_number : npdb.
Lemma np_line_number_list fuel b : np (line_number_list fuel b).
Proof. revert b. induction fuel as [| f IH]; intros b; cbn [line_number_list]; [apply np_hang |]. npt. Qed.
Lemma np_line_number_range : np line_number_range. Proof. unfold line_number_range. npt. Qed.
Lemma np_var_range : np var_range. Proof. unfold var_range. npt. Qed.
Lemma np_print_list fuel b : np (print_list fuel b).
Proof. revert b. induction fuel as [| f IH]; intros b; cbn [print_list]; [apply np_hang |]. npt. Qed.
Lemma np_skip_to_end fuel : np (skip_to_end fuel).
Proof. induction fuel as [| f IH]; cbn [skip_to_end]; [apply np_hang |]. npt. Qed.
Lemma np_renum_start d : np (renum_start d). Proof. unfold renum_start. npt. Qed.
#[export] Hint Resolve np_line_number_list np_line_number_range np_var_range np_print_list np_skip_to_end np_renum_start : npdb.

Lemma np_stmts : forall fuel, np (statement fuel) /\ (forall b, np (st_let fuel b)) /\ (forall b, np (statements fuel b)).
Proof.
  induction fuel as [| f (IHs & IHl & IHss)]; [repeat split; intros; cbn; apply np_hang |].
  split; [| split].
  - cbn [statement]. apply np_bind; [apply np_ppeek | intros pk].
    destruct pk as [[| | | w | | | | | | |] |]; try apply np_fail_here; try (apply IHl).
    apply np_bind; [apply np_pnext | intros _]. apply np_bind; [apply np_pcolm | intros c].
    destruct w; npt.
  - intros b. cbn [st_let]. npt.
  - intros b. cbn [statements]. npt.
Qed.

(* the whole line *)
Theorem parse_never_panics : forall n toks, parse n toks <> Panic.
Proof.
  intros n toks H. unfold parse in H. destruct (p_peekt _) as [pk st1].
  pose proof (proj2 (proj2 (np_stmts (parse_fuel toks))) false st1) as Hs.
  destruct pk as [[| | [s | s | s | s | s | s] | | | | | | | |] |]; try discriminate H;
    destruct (statements (parse_fuel toks) false st1) as [[l sx] | e | |] eqn:Est; try discriminate H; exact (Hs eq_refl).
Qed.
