(* 16-bit Integer arithmetic of Mach/Ops.v is exact or reports OVERFLOW /
   DIVISION BY ZERO -- for all operands, no enumeration. *)
From BL Require Import Base.Prelude Base.Floats Mach.Val Mach.Ops.
Local Open Scope Z_scope.

Definition I16 (z : Z) : Prop := -32768 <= z <= 32767.

Lemma in_i16_iff z : in_i16 z = true <-> I16 z.
Proof. unfold in_i16, I16. rewrite andb_true_iff, !Z.leb_le. tauto. Qed.

Lemma in_i16_false z : in_i16 z = false <-> ~ I16 z.
Proof. rewrite <- in_i16_iff. destruct (in_i16 z); split; congruence. Qed.

Lemma chk_spec z :
  (I16 z /\ chk z = Ok (VInt z)) \/ (~ I16 z /\ chk z = err E_Overflow).
Proof.
  unfold chk. destruct (in_i16 z) eqn:E.
  - left. split; [apply in_i16_iff; exact E | reflexivity].
  - right. split; [apply in_i16_false; exact E | reflexivity].
Qed.

(* + - * : exact result or OVERFLOW, nothing else *)
Lemma add_exact a b :
  (I16 (a + b) /\ op_sum (VInt a) (VInt b) = Ok (VInt (a + b)))
  \/ (~ I16 (a + b) /\ op_sum (VInt a) (VInt b) = err E_Overflow).
Proof. exact (chk_spec (a + b)). Qed.

Lemma sub_exact a b :
  (I16 (a - b) /\ op_subtract (VInt a) (VInt b) = Ok (VInt (a - b)))
  \/ (~ I16 (a - b) /\ op_subtract (VInt a) (VInt b) = err E_Overflow).
Proof. exact (chk_spec (a - b)). Qed.

Lemma mul_exact a b :
  (I16 (a * b) /\ op_multiply (VInt a) (VInt b) = Ok (VInt (a * b)))
  \/ (~ I16 (a * b) /\ op_multiply (VInt a) (VInt b) = err E_Overflow).
Proof. exact (chk_spec (a * b)). Qed.

Lemma neg_exact a :
  (I16 (- a) /\ op_negate (VInt a) = Ok (VInt (- a)))
  \/ (~ I16 (- a) /\ op_negate (VInt a) = err E_Overflow).
Proof. exact (chk_spec (- a)). Qed.

(* \ : truncating quotient *)
Lemma divint_exact a b :
  (b = 0 /\ op_divint (VInt a) (VInt b) = err E_DivByZero)
  \/ (b <> 0 /\ I16 (Z.quot a b) /\ op_divint (VInt a) (VInt b) = Ok (VInt (Z.quot a b)))
  \/ (b <> 0 /\ ~ I16 (Z.quot a b) /\ op_divint (VInt a) (VInt b) = err E_Overflow).
Proof.
  unfold op_divint. cbn [to_i16 bind].
  destruct (Z.eqb_spec b 0) as [Hb | Hb].
  - left. split; [exact Hb | reflexivity].
  - right. destruct (chk_spec (Z.quot a b)) as [[H1 H2] | [H1 H2]].
    + left. split; [exact Hb | split; [exact H1 | exact H2]].
    + right. split; [exact Hb | split; [exact H1 | exact H2]].
Qed.

(* the only out-of-range quotient of two Integers is -32768 \ -1 *)
Lemma quot_range a b : I16 a -> I16 b -> b <> 0 ->
  I16 (Z.quot a b) \/ (a = -32768 /\ b = -1).
Proof.
  intros Ha Hb Hnz. unfold I16 in *.
  destruct (Z.eq_dec b (-1)) as [-> | Hb1].
  - destruct (Z.eq_dec a (-32768)) as [-> | Ha1]; [right; split; reflexivity |].
    left. replace (Z.quot a (-1)) with (- a).
    + lia.
    + change (-1) with (- (1)). rewrite Z.quot_opp_r by lia. rewrite Z.quot_1_r. reflexivity.
  - left.
    assert (Habs : Z.abs (Z.quot a b) <= Z.abs a).
    { rewrite <- (Z.quot_abs a b) by exact Hnz.
      apply Z.quot_le_upper_bound; [lia | ].
      nia. }
    destruct (Z.eq_dec b 1) as [-> | Hb2].
    + rewrite Z.quot_1_r. lia.
    + assert (2 * Z.abs (Z.quot a b) <= Z.abs a).
      { rewrite <- (Z.quot_abs a b) by exact Hnz.
        pose proof (Z.mul_quot_le (Z.abs a) (Z.abs b) ltac:(lia) ltac:(lia)).
        assert (0 <= Z.quot (Z.abs a) (Z.abs b)) by (apply Z.quot_pos; lia).
        nia. }
      lia.
Qed.

(* MOD : remainder with the dividend's sign, always representable *)
Lemma mod_exact a b :
  (b = 0 /\ op_remainder (VInt a) (VInt b) = err E_DivByZero)
  \/ (b <> 0 /\ op_remainder (VInt a) (VInt b) = Ok (VInt (Z.rem a b))).
Proof.
  unfold op_remainder. cbn [to_i16 bind].
  destruct (Z.eqb_spec b 0) as [Hb | Hb]; [left | right]; (split; [exact Hb | reflexivity]).
Qed.

Lemma rem_range a b : I16 a -> b <> 0 -> I16 (Z.rem a b).
Proof.
  intros Ha Hb. unfold I16 in *.
  assert (H3 : Z.abs (Z.rem a b) <= Z.abs a).
  { rewrite <- Z.rem_abs by exact Hb.
    apply Z.rem_le; lia. }
  assert (H2 : 0 <= Z.rem a b * a) by (apply Z.rem_sign_mul; exact Hb).
  nia.
Qed.

(* ^ with a non-negative Integer exponent *)
Lemma abs_pow_ge1 l k : 1 <= Z.abs l -> 0 <= k -> 1 <= Z.abs (l ^ k).
Proof.
  intros Hl Hk. rewrite Z.abs_pow.
  replace 1 with (1 ^ k) at 1 by (apply Z.pow_1_l; exact Hk).
  apply Z.pow_le_mono_l. lia.
Qed.

Lemma abs_pow_ge2 l k : 2 <= Z.abs l -> 1 <= k -> 2 <= Z.abs (l ^ k).
Proof.
  intros Hl Hk. replace k with (Z.succ (k - 1)) by lia.
  rewrite Z.pow_succ_r by lia. rewrite Z.abs_mul.
  pose proof (abs_pow_ge1 l (k - 1) ltac:(lia) ltac:(lia)). nia.
Qed.

Lemma pow_iter_spec l : 2 <= Z.abs l -> forall n acc, I16 acc ->
  pow_iter n l acc =
    if in_i16 (acc * l ^ Z.of_nat n) then Some (acc * l ^ Z.of_nat n) else None.
Proof.
  intros Hl. induction n as [| n IH]; intros acc Hacc.
  - cbn [pow_iter]. change (Z.of_nat 0) with 0. rewrite Z.pow_0_r, Z.mul_1_r.
    apply in_i16_iff in Hacc. rewrite Hacc. reflexivity.
  - cbn [pow_iter]. rewrite Nat2Z.inj_succ, Z.pow_succ_r by lia.
    rewrite Z.mul_assoc.
    destruct (in_i16 (acc * l)) eqn:E.
    + apply IH. apply in_i16_iff. exact E.
    + apply in_i16_false in E.
      assert (Hout : ~ I16 (acc * l * l ^ Z.of_nat n)).
      { unfold I16 in *. intros Hin.
        destruct n as [| n'].
        - change (Z.of_nat 0) with 0 in Hin. rewrite Z.pow_0_r, Z.mul_1_r in Hin. lia.
        - pose proof (abs_pow_ge2 l (Z.of_nat (S n')) Hl ltac:(lia)) as H2.
          assert (H3 : Z.abs (acc * l * l ^ Z.of_nat (S n')) = Z.abs (acc * l) * Z.abs (l ^ Z.of_nat (S n')))
            by apply Z.abs_mul.
          assert (32768 <= Z.abs (acc * l)) by lia.
          nia. }
      apply in_i16_false in Hout. rewrite Hout. reflexivity.
Qed.

Lemma checked_pow_spec l r : I16 l -> 0 <= r ->
  checked_pow l r = if in_i16 (l ^ r) then Some (l ^ r) else None.
Proof.
  intros Hl Hr. unfold checked_pow.
  destruct (Z.eqb_spec l 0) as [-> | H0].
  { destruct (Z.eqb_spec r 0) as [-> | Hr0].
    - reflexivity.
    - rewrite Z.pow_0_l by lia. reflexivity. }
  destruct (Z.eqb_spec l 1) as [-> | H1].
  { rewrite Z.pow_1_l by lia. reflexivity. }
  destruct (Z.eqb_spec l (-1)) as [-> | Hm1].
  { destruct (Z.even r) eqn:Ev.
    - apply Z.even_spec in Ev. destruct Ev as [k ->].
      rewrite Z.pow_mul_r by lia. change ((-1) ^ 2) with 1. rewrite Z.pow_1_l by lia. reflexivity.
    - assert (Hodd : Z.odd r = true) by (rewrite <- Z.negb_even, Ev; reflexivity).
      apply Z.odd_spec in Hodd. destruct Hodd as [k ->].
      rewrite Z.pow_add_r, Z.pow_mul_r by lia.
      change ((-1) ^ 2) with 1. rewrite Z.pow_1_l by lia. reflexivity. }
  assert (Habs : 2 <= Z.abs l) by lia.
  destruct (Z.ltb_spec 16 r) as [Hbig | Hsmall].
  - assert (Hout : ~ I16 (l ^ r)).
    { unfold I16. intros Hin.
      assert (131072 <= Z.abs (l ^ r)).
      { rewrite Z.abs_pow.
        assert (2 ^ 17 <= 2 ^ r) by (apply Z.pow_le_mono_r; lia).
        assert (2 ^ r <= Z.abs l ^ r) by (apply Z.pow_le_mono_l; lia).
        change (2 ^ 17) with 131072 in *. lia. }
      lia. }
    apply in_i16_false in Hout. rewrite Hout. reflexivity.
  - rewrite (pow_iter_spec l Habs (Z.to_nat r) 1) by (unfold I16; lia).
    rewrite Z2Nat.id by lia. rewrite Z.mul_1_l. reflexivity.
Qed.

Lemma pow_exact (O : oracle) a b : I16 a -> 0 <= b ->
  (I16 (a ^ b) /\ op_power O (VInt a) (VInt b) = Ok (VInt (a ^ b)))
  \/ (~ I16 (a ^ b) /\ op_power O (VInt a) (VInt b) = err E_Overflow).
Proof.
  intros Ha Hb. unfold op_power.
  destruct (Z.leb_spec 0 b) as [_ | Hneg]; [| lia].
  rewrite (checked_pow_spec a b Ha Hb).
  destruct (in_i16 (a ^ b)) eqn:E.
  - left. split; [apply in_i16_iff; exact E | reflexivity].
  - right. split; [apply in_i16_false; exact E | reflexivity].
Qed.

(* results of Integer operations are Integers in range: closure *)
Lemma int_ops_closed a b v : I16 a -> I16 b ->
  (op_sum (VInt a) (VInt b) = Ok v \/ op_subtract (VInt a) (VInt b) = Ok v
   \/ op_multiply (VInt a) (VInt b) = Ok v \/ op_divint (VInt a) (VInt b) = Ok v
   \/ op_remainder (VInt a) (VInt b) = Ok v) ->
  exists z, v = VInt z /\ I16 z.
Proof.
  intros Ha Hb H.
  destruct H as [H | [H | [H | [H | H]]]].
  - destruct (add_exact a b) as [[Hi He] | [_ He]]; rewrite He in H; [injection H as <-; eauto | discriminate].
  - destruct (sub_exact a b) as [[Hi He] | [_ He]]; rewrite He in H; [injection H as <-; eauto | discriminate].
  - destruct (mul_exact a b) as [[Hi He] | [_ He]]; rewrite He in H; [injection H as <-; eauto | discriminate].
  - destruct (divint_exact a b) as [[_ He] | [[_ [Hi He]] | [_ [_ He]]]]; rewrite He in H;
      [discriminate | injection H as <-; eauto | discriminate].
  - destruct (mod_exact a b) as [[_ He] | [Hnz He]]; rewrite He in H; [discriminate |].
    injection H as <-. exists (Z.rem a b). split; [reflexivity | apply rem_range; assumption].
Qed.
