(* C20 -- the symbol table is for messages only.  No instruction reads the linked program's symbol table (TRON stores the
   current line in the trace marker, which nothing but the trace step reads): running on a machine with another symbol table
   gives the same results and events; only line numbers reported afterwards can differ. *)
From BL Require Import Base.Prelude Base.Floats Mach.Val Mach.Ops Mach.Func Mach.Var
     Lang.Token Lang.Lex Lang.Ast Lang.Parse Mach.Compile Mach.Listing Mach.Runtime Proofs.RMFrame Proofs.Dirty.
From Coq Require Import Lia.
Local Open Scope N_scope.

Definition with_syms (p : program) (syms : list (Z * (N * N))) : program :=
  let l := pg_link p in with_link p (mkLink (l_cur l) (l_ops l) (l_data l) (l_data_pos l) (l_direct_set l) syms (l_unlinked l) (l_whiles l)).

(* the lens: trace marker t and symbol table syms replaced (c is kept as a parameter so that the proofs below stay the same) *)
Definition L (c : N) (t : option N) (ops : list (Z * (N * N))) (r : rt) : rt :=
  set_prog (set_tr r t) (with_syms (r_prog r) ops).

Definition lensed {A} (m : RM A) : Prop :=
  forall c t ops r, exists c' t', m (L c t ops r) = (L c' t' ops (fst (m r)), snd (m r)).

Ltac lens_cbn :=
  cbn [L with_syms with_link set_ops set_prog set_cont_pc set_tr set_pc set_stack_len set_stack set_vars set_col set_state set_cont
       set_entry set_listing set_dirty set_tron set_fns set_rand set_snap set_data_pos
       r_prompt r_listing r_snap r_dirty r_prog r_pc r_tr r_tron r_entry r_stack r_slen r_vars r_state r_cont r_cont_pc r_col r_rand r_fns r_ent
       pg_errors pg_ind_errors pg_direct pg_line pg_link l_cur l_ops l_data l_data_pos l_direct_set l_syms l_unlinked l_whiles fst snd].

Ltac lens_done := exists 0; eexists; reflexivity.

Lemma lensed_ret {A} (a : A) : lensed (rret a).
Proof. intros c t ops r. lens_done. Qed.

Lemma lensed_bind {A B} (m : RM A) (f : A -> RM B) : lensed m -> (forall a, lensed (f a)) -> lensed (rbind m f).
Proof.
  intros Hm Hf c t ops r. unfold rbind. destruct (Hm c t ops r) as [c1 [t1 E]]. rewrite E.
  destruct (m r) as [r1 [a | e | |]]; cbn [fst snd]; try lens_done. apply Hf.
Qed.

Lemma lensed_rfail {A} code : lensed (@rfail A code).
Proof. intros c t ops r. lens_done. Qed.
Lemma lensed_rlift {A} (x : res A) : lensed (rlift x).
Proof. intros c t ops r. lens_done. Qed.
Lemma lensed_const {A} (x : res A) : lensed (fun r => (r, x)).
Proof. intros c t ops r. lens_done. Qed.

(* reading the machine: the continuation may use the copy it was handed only through the fields that are not replaced *)
Lemma lensed_rget_bind {B} (f : rt -> RM B) :
  (forall c t ops r0, exists c' t', f (L c t ops r0) (L c t ops r0) = (L c' t' ops (fst (f r0 r0)), snd (f r0 r0))) ->
  lensed (rbind rget f).
Proof. intros H c t ops r. unfold rbind, rget. apply H. Qed.

Lemma lensed_push v : lensed (push v).
Proof. intros c t ops r. unfold push. lens_cbn. lens_done. Qed.
Lemma lensed_pop : lensed pop.
Proof. intros c t ops r. unfold pop. lens_cbn. destruct (r_stack r); lens_done. Qed.
Lemma lensed_pop_n n : lensed (pop_n n).
Proof. intros c t ops r. unfold pop_n. lens_cbn. destruct ((n <? 0)%Z || (r_slen r <? Z.to_N n)); lens_done. Qed.
Lemma lensed_with_vars {A} (f : varstore -> varstore * res A) : lensed (with_vars f).
Proof. intros c t ops r. unfold with_vars. lens_cbn. destruct (f (r_vars r)). lens_done. Qed.

Lemma lensed_rget_bind2 {B} (f : rt -> RM B) :
  (forall c t ops r0, f (L c t ops r0) = f r0) -> (forall r0, lensed (f r0)) -> lensed (rbind rget f).
Proof.
  intros H1 H2. apply lensed_rget_bind. intros c t ops r0. rewrite H1. apply H2.
Qed.

Lemma lensed_rmod (f : rt -> rt) : (forall c t ops r, exists c' t', f (L c t ops r) = L c' t' ops (f r)) -> lensed (rmod f).
Proof. intros H c t ops r. unfold rmod. destruct (H c t ops r) as [c' [t' E]]. rewrite E. lens_done. Qed.

Lemma lensed_try {A} (g : rt -> res A) (set : rt -> A -> rt) :
  (forall c t ops r, g (L c t ops r) = g r) ->
  (forall c t ops r a, exists c' t', set (L c t ops r) a = L c' t' ops (set r a)) ->
  lensed (fun r => match g r with
                   | Ok v => (set r v, Ok tt)
                   | Err e => (r, Err e) | Panic => (r, Panic) | Hang => (r, Hang)
                   end).
Proof.
  intros Hg Hs c t ops r. rewrite Hg. destruct (g r) as [a | e | |]; cbn [fst snd]; try lens_done.
  destruct (Hs c t ops r a) as [c' [t' E]]. rewrite E. lens_done.
Qed.

Lemma lensed_fold_push {A} (l : list A) (g : A -> val) (m0 : RM unit) :
  lensed m0 -> lensed (fold_left (fun m a => rbind m (fun _ => push (g a))) l m0).
Proof.
  revert m0. induction l as [| a l IH]; intros m0 H0; cbn [fold_left]; [exact H0 |].
  apply IH. apply lensed_bind; [exact H0 | intros _; apply lensed_push].
Qed.

Ltac lens_step :=
  lazymatch goal with
  | |- lensed (rret _) => apply lensed_ret
  | |- lensed (rbind rget _) => apply lensed_rget_bind2; [intros; reflexivity | intros ?]
  | |- lensed (rbind _ _) => apply lensed_bind; [ | intros ?]
  | |- lensed (rfail _) => apply lensed_rfail
  | |- lensed (rlift _) => apply lensed_rlift
  | |- lensed (push _) => apply lensed_push
  | |- lensed pop => apply lensed_pop
  | |- lensed (pop_n _) => apply lensed_pop_n
  | |- lensed (with_vars _) => apply lensed_with_vars
  | |- lensed (rmod _) => apply lensed_rmod; intros; lens_cbn; lens_done
  | |- lensed (fun r => (r, _)) => apply lensed_const
  | |- lensed (if ?b then _ else _) => destruct b
  | |- lensed (match ?x with _ => _ end) => destruct x
  | |- lensed (let '(_, _) := ?x in _) => destruct x
  | |- lensed (fun r => match _ with Ok _ => _ | Err _ => _ | Panic => _ | Hang => _ end) =>
      apply lensed_try; [intros; reflexivity | intros; lens_cbn; lens_done]
  end.
Ltac lz := repeat lens_step.

Lemma lensed_pop2 : lensed pop2. Proof. unfold pop2. lz. Qed.
Lemma lensed_pop_vec : lensed pop_vec. Proof. unfold pop_vec. lz. Qed.
Lemma lensed_pop_1_push f : lensed (pop_1_push f). Proof. unfold pop_1_push. lz. Qed.
Lemma lensed_pop_2_push f : lensed (pop_2_push f).
Proof. unfold pop_2_push. apply lensed_bind; [apply lensed_pop2 | intros ?]. lz. Qed.

Section Ops.
Variable O : oracle.

Lemma lensed_do_clear : lensed (do_clear O).
Proof. intros c t ops r. unfold do_clear. lens_cbn. lens_done. Qed.
Lemma lensed_do_end : lensed do_end.
Proof. intros c t ops r. unfold do_end. lens_cbn. destruct (r_pc r <? r_entry r); lens_cbn;
  match goal with |- context [if ?c then _ else _] => destruct c end; lens_done. Qed.
Lemma lensed_do_def name : lensed (do_def name). Proof. unfold do_def. lz. Qed.
Lemma lensed_do_deftype ty : lensed (do_deftype ty).
Proof. unfold do_deftype. apply lensed_bind; [apply lensed_pop2 | intros p]. lz. Qed.
Lemma lensed_do_on : lensed do_on. Proof. unfold do_on. lz. Qed.
Lemma lensed_do_read : lensed do_read. Proof. unfold do_read. lz. Qed.
Lemma lensed_do_letmid : lensed do_letmid. Proof. unfold do_letmid. lz. Qed.
Lemma lensed_do_print : lensed do_print. Proof. unfold do_print. lz. Qed.
Lemma lensed_do_input name : lensed (do_input name). Proof. unfold do_input. lz. Qed.
Lemma lensed_do_list : lensed do_list.
Proof. unfold do_list. apply lensed_bind; [apply lensed_pop2 | intros p]. lz. Qed.
Lemma lensed_do_load a b : lensed (do_load a b).
Proof. unfold do_load. apply lensed_bind; [apply lensed_pop | intros v]. destruct v; try apply lensed_rfail.
  apply lensed_bind; [apply lensed_do_end | intros _]. lz. Qed.
Lemma lensed_do_swap : lensed do_swap.
Proof. unfold do_swap. apply lensed_bind; [apply lensed_pop2 | intros p]. lz. Qed.
Lemma lensed_do_fn name : lensed (do_fn name).
Proof. unfold do_fn. apply lensed_bind; [apply lensed_pop_vec | intros args].
  apply lensed_rget_bind2; [intros; reflexivity | intros r].
  destruct (alist_get name (r_fns r)) as [[arity addr] |]; [| lz]. destruct (arity =? lenN args); [| lz].
  apply lensed_bind; [apply lensed_push | intros _]. apply lensed_bind; [| intros _; lz].
  apply (lensed_fold_push (rev args) (fun a => a)). apply lensed_ret. Qed.
Lemma lensed_do_new : lensed (do_new O).
Proof. unfold do_new. apply lensed_bind; [apply lensed_do_clear | intros _]. lz. Qed.
Lemma lensed_do_builtin name : lensed (do_builtin O name).
Proof. unfold do_builtin. repeat match goal with |- lensed (if ?c then _ else _) => destruct c end;
  try (apply lensed_bind; [first [apply lensed_pop_1_push | apply lensed_pop_2_push | apply lensed_pop_vec] | intros ?]); lz. Qed.
Lemma lensed_at {A} (m : RM A) c t ops r : lensed m -> exists c' t', m (L c t ops r) = (L c' t' ops (fst (m r)), snd (m r)).
Proof. intros H. apply H. Qed.

Lemma lensed_do_return : lensed do_return.
Proof.
  intros c t ops r. unfold do_return. lens_cbn.
  destruct (return_loop (r_stack r) None true) as [[[rest ret] addr] |]; [| unfold set_stack; lens_cbn; lens_done].
  destruct ret as [v |]; [| unfold set_stack; lens_cbn; lens_done].
  assert (Hm : lensed (rdo _ <~ push v ;; rmod (fun r => set_pc r addr))) by lz.
  change (set_stack (L c t ops r) rest) with (L c t ops (set_stack r rest)). apply Hm.
Qed.

Lemma lensed_do_next fuel name : lensed (do_next fuel name).
Proof.
  induction fuel as [| f IH]; cbn [do_next]; [apply lensed_rfail |].
  intros c t ops r. lens_cbn. destruct (r_stack r) as [| v s1]; [lens_done |].
  destruct v; try lens_done.
  change (set_stack_len (L c t ops r) s1 (r_slen r - 1)) with (L c t ops (set_stack_len r s1 (r_slen r - 1))).
  match goal with |- exists c' t', ?m (L c t ops ?r1) = _ => apply (lensed_at m c t ops r1) end.
  apply lensed_bind; [apply lensed_pop | intros nv]. apply lensed_bind; [apply lensed_pop | intros stepv].
  apply lensed_bind; [apply lensed_pop | intros tov].
  destruct nv; try exact IH.
  match goal with |- lensed (if ?c then _ else _) => destruct c end; [exact IH |].
  apply lensed_rget_bind2; [intros; reflexivity | intros r1].
  apply lensed_bind; [apply lensed_rlift | intros cur0].
  apply lensed_bind; [apply lensed_rlift | intros cur]. apply lensed_bind; [lz | intros _].
  destruct (to_f64 stepv); try exact IH. lz.
Qed.

Lemma lensed_do_delete : lensed do_delete.
Proof. unfold do_delete. apply lensed_bind; [apply lensed_pop2 | intros p]. apply lensed_bind; [lz | intros from]. apply lensed_bind; [lz | intros to].
  destruct (to <? from); [lz |]. apply lensed_rget_bind2; [intros; reflexivity | intros r]. apply lensed_bind; [| intros _; apply lensed_do_end].
  match goal with |- lensed (if ?c then _ else _) => destruct c end; [| lz].
  apply lensed_bind; [unfold need_unique; lz | intros _]. lz. Qed.

Lemma lensed_do_renum : lensed do_renum.
Proof. unfold do_renum. apply lensed_rget_bind2; [intros; reflexivity | intros r]. destruct (r_pc r <? r_entry r); [lz |].
  destruct (ls_ind_errors (r_listing r)); [| lz].
  apply lensed_bind; [lz | intros sv]. apply lensed_bind; [lz | intros step]. apply lensed_bind; [lz | intros ov].
  apply lensed_bind; [lz | intros old]. apply lensed_bind; [lz | intros nv]. apply lensed_bind; [lz | intros new].
  apply lensed_bind; [lz | intros _]. apply lensed_bind; [lz | intros _]. apply lensed_do_end.
Qed.
Lemma lensed_exec_op h op : op <> OpCont -> lensed (exec_op O h op).
Proof.
  intros Hne. destruct op; try (exfalso; apply Hne; reflexivity); cbn [exec_op];
  try (apply lensed_bind; [first [apply lensed_do_clear | apply lensed_do_def | apply lensed_do_deftype | apply lensed_do_end
                               | apply lensed_do_fn | apply lensed_do_letmid | apply lensed_do_list | apply lensed_do_load
                               | apply lensed_do_on | apply lensed_do_print | apply lensed_do_read | apply lensed_do_return
                               | apply lensed_do_swap | apply lensed_pop_1_push | apply lensed_pop_2_push
                               | apply lensed_do_new | apply lensed_do_delete | apply lensed_do_renum ] | intros ?; lz]);
  try apply lensed_do_input; try apply lensed_do_builtin.
  all: try (apply lensed_bind; [| intros ?; lz]).
  all: try (apply lensed_bind; [apply lensed_pop_vec | intros ?]).
  all: try solve [lz].
  all: try solve [apply lensed_bind; [apply lensed_pop | intros ?]; lz].
  all: try solve [apply lensed_bind; [lz | intros ?; lz]].
  - intros c t ops r. lens_cbn. change (r_slen r) with (r_slen r). apply lensed_do_next.
Qed.
End Ops.


Section All.
Variable O : oracle.
Lemma lensed_do_cont : lensed do_cont. Proof. unfold do_cont. lz. Qed.
Theorem lensed_exec_op_all h op : lensed (exec_op O h op).
Proof. destruct op; try (apply lensed_exec_op; discriminate). cbn [exec_op]. apply lensed_do_cont. Qed.

(* ---------- the fetch loop: while the machine does not trace, the symbol table is not looked at ---------- *)
Fixpoint quiet_run (fuel : nat) (h : bool) (r : rt) : Prop :=
  match fuel with
  | 0%nat => True
  | S f => r_tron r = false /\ match one_op O h r with (r2, Ok None) => quiet_run f h r2 | _ => True end
  end.

Lemma one_op_eq : forall h r, one_op O h r =
  match nthN (l_ops (pg_link (r_prog r))) (r_pc r) with
  | None => (r, err E_Internal)
  | Some op => exec_op O h op (set_pc r (r_pc r + 1))
  end.
Proof. intros h r. unfold one_op, rbind, rget. destruct (nthN _ _); reflexivity. Qed.

Lemma exec_loop_S_notron : forall f h r, r_tron r = false ->
  exec_loop O (S f) h r =
  match one_op O h r with
  | (r2, Ok (Some ev)) => (r2, Ok ev)
  | (r2, Ok None) => exec_loop O f h r2
  | (r2, Err e) => (r2, Err e)
  | (r2, Panic) => (r2, Panic)
  | (r2, Hang) => (r2, Hang)
  end.
Proof.
  intros f h r Ht. cbn [exec_loop]. unfold rbind at 1. unfold rget at 1. rewrite Ht. cbn [andb].
  unfold rbind at 1. unfold rret at 1. unfold rbind at 1.
  destruct (one_op O h r) as [r2 [[ev |] | e | |]]; reflexivity.
Qed.

Theorem run_ignores_symbols : forall fuel h r t syms, quiet_run fuel h r ->
  exists t', exec_loop O fuel h (L 0 t syms r) = (L 0 t' syms (fst (exec_loop O fuel h r)), snd (exec_loop O fuel h r)).
Proof.
  induction fuel as [| f IH]; intros h r t syms Hq; [cbn [exec_loop]; unfold rret; eexists; reflexivity |].
  destruct Hq as [Htron Hnext].
  rewrite (exec_loop_S_notron f h r Htron). rewrite (exec_loop_S_notron f h (L 0 t syms r)) by exact Htron.
  rewrite one_op_eq in Hnext. rewrite !one_op_eq.
  change (r_pc (L 0 t syms r)) with (r_pc r). change (l_ops (pg_link (r_prog (L 0 t syms r)))) with (l_ops (pg_link (r_prog r))).
  destruct (nthN (l_ops (pg_link (r_prog r))) (r_pc r)) as [op |]; [| eexists; reflexivity].
  change (set_pc (L 0 t syms r) (r_pc r + 1)) with (L 0 t syms (set_pc r (r_pc r + 1))).
  destruct (lensed_exec_op_all h op 0 t syms (set_pc r (r_pc r + 1))) as [c1 [t1 E1]]. rewrite E1.
  change (L c1 t1 syms) with (L 0 t1 syms).
  destruct (exec_op O h op (set_pc r (r_pc r + 1))) as [r2 [[ev |] | e | |]]; cbn [fst snd]; try (eexists; reflexivity).
  exact (IH h r2 t1 syms Hnext).
Qed.
End All.
