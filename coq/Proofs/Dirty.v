(* C04: the stored program changes only through the editing commands, and every change raises `dirty`;
   nothing but the recompilation in enter_direct lowers it. *)
From BL Require Import Base.Prelude Base.Floats Mach.Val Mach.Ops Mach.Func Mach.Var
     Lang.Token Lang.Lex Lang.Ast Lang.Parse Mach.Compile Mach.Listing Mach.Runtime Proofs.RMFrame.
From Coq Require Import Lia.
Local Open Scope N_scope.

Definition lines_t := list (N * list token).

Definition is_edit_op (op : opcode) : bool :=
  match op with OpDelete | OpRenum | OpNew => true | _ => false end.

(* ---------- generic part: any invariant that only reads the listing, the flag and the compiled code ---------- *)
Section Frame.
Variable O : oracle.
Variable T : rt -> Prop.
Hypothesis frame_T : forall r r', r_listing r' = r_listing r -> r_dirty r' = r_dirty r ->
  l_ops (pg_link (r_prog r')) = l_ops (pg_link (r_prog r)) -> T r -> T r'.
(* the opcodes the invariant tolerates, and the editing commands among them *)
Variable allowed : opcode -> bool.
Hypothesis edit_ok : forall h op, is_edit_op op = true -> allowed op = true -> hoare T T (exec_op O h op).
Hypothesis prog_allowed : forall r op, T r -> nthN (l_ops (pg_link (r_prog r))) (r_pc r) = Some op -> allowed op = true.
Notation HT := (hoare T T).

Lemma TT : forall r, T r -> T r. Proof. auto. Qed.
Hint Resolve TT : core.

Ltac fr H := match type of H with T ?r => apply (frame_T r); [reflexivity | reflexivity | reflexivity | exact H] end.

Lemma tr_push v : HT (push v).
Proof. intros r H. unfold push. cbn. destruct (MAX_POOL <? r_slen r + 1); fr H. Qed.
Lemma tr_pop : HT pop.
Proof. intros r H. unfold pop. destruct (r_stack r); cbn; [exact H |]. fr H. Qed.
Lemma tr_pop_n n : HT (pop_n n).
Proof. intros r H. unfold pop_n. destruct ((n <? 0)%Z || (r_slen r <? Z.to_N n)); cbn; [exact H |]. fr H. Qed.

Ltac tr_prim :=
  first [ apply tr_push | apply tr_pop | apply tr_pop_n
        | apply hoare_rmod; let r := fresh "r" in let H := fresh "H" in intros r H; fr H
        | apply hoare_try; [exact TT | let r := fresh "r" in let H := fresh "H" in intros r ? H; fr H]
        | exact TT | assumption ].
Ltac tr := hoare_auto tr_prim.

Lemma tr_pop2 : HT pop2. Proof. unfold pop2. tr. Qed.
Lemma tr_pop_vec : HT pop_vec. Proof. unfold pop_vec. tr. Qed.
Lemma tr_pop_1_push f : HT (pop_1_push f). Proof. unfold pop_1_push. tr. Qed.
Lemma tr_pop_2_push f : HT (pop_2_push f). Proof. unfold pop_2_push. apply hoare_bind; [apply tr_pop2 | intros ?]. tr. Qed.

(* raw state functions: listing and flag are never touched *)
Lemma tr_do_clear : HT (do_clear O).
Proof. intros r H. cbn. fr H. Qed.
Lemma tr_do_end : HT do_end.
Proof. intros r H. unfold do_end. cbn.
  destruct (r_pc r <? r_entry r); cbn; match goal with |- context [if ?c then _ else _] => destruct c end; fr H. Qed.
Lemma tr_do_return : HT do_return.
Proof. intros r H. unfold do_return. destruct (return_loop (r_stack r) None true) as [[[rest ret] addr] |]; [| cbn; fr H].
  destruct ret as [v |]; [| cbn; fr H].
  assert (H1 : T (set_stack r rest)) by fr H.
  revert H1. generalize (set_stack r rest). intros r1 H1.
  change (match snd ((rdo _ <~ push v ;; rmod (fun r => set_pc r addr)) r1) with
          | Ok _ => T (fst ((rdo _ <~ push v ;; rmod (fun r => set_pc r addr)) r1))
          | _ => T (fst ((rdo _ <~ push v ;; rmod (fun r => set_pc r addr)) r1)) end).
  revert r1 H1. change (HT (rdo _ <~ push v ;; rmod (fun r => set_pc r addr))). tr. Qed.

Lemma tr_do_cont : HT do_cont. Proof. unfold do_cont. tr. Qed.
Lemma tr_do_def name : HT (do_def name). Proof. unfold do_def. tr. Qed.
Lemma tr_do_deftype t : HT (do_deftype t).
Proof. unfold do_deftype. apply hoare_bind; [apply tr_pop2 | intros p]. tr. Qed.
Lemma tr_do_fn name : HT (do_fn name).
Proof. unfold do_fn. apply hoare_bind; [apply tr_pop_vec | intros args]. apply hoare_bind; [apply hoare_rget | intros r].
  destruct (alist_get name (r_fns r)) as [[arity addr] |]; [| tr]. destruct (arity =? lenN args); [| tr].
  apply hoare_bind; [apply tr_push | intros _]. apply hoare_bind; [| intros _; tr].
  apply (hoare_fold_push T T (rev args) (fun a => a)); [apply hoare_ret | apply tr_push]. Qed.
Lemma tr_do_input name : HT (do_input name). Proof. unfold do_input. tr. Qed.
Lemma tr_do_letmid : HT do_letmid. Proof. unfold do_letmid. tr. Qed.
Lemma tr_do_list : HT do_list. Proof. unfold do_list. apply hoare_bind; [apply tr_pop2 | intros p]. tr. Qed.
Lemma tr_do_load a b : HT (do_load a b).
Proof. unfold do_load. apply hoare_bind; [apply tr_pop | intros v]. destruct v; try (apply hoare_rfail; auto).
  apply hoare_bind; [apply tr_do_end | intros _]. tr. Qed.
Lemma tr_do_on : HT do_on. Proof. unfold do_on. tr. Qed.
Lemma tr_do_print : HT do_print. Proof. unfold do_print. tr. Qed.
Lemma tr_do_read : HT do_read. Proof. unfold do_read. tr. Qed.
Lemma tr_do_swap : HT do_swap. Proof. unfold do_swap. apply hoare_bind; [apply tr_pop2 | intros p]. tr. Qed.


Lemma tr_do_next fuel name : HT (do_next fuel name).
Proof.
  induction fuel as [| f IH]; cbn [do_next]; [apply hoare_rfail; auto |].
  intros r H. destruct (r_stack r) as [| v s1]; [cbn; exact H |].
  assert (H1 : T (set_stack_len r s1 (r_slen r - 1))) by fr H.
  destruct v; try (cbn; exact H1).
  revert H1. generalize (set_stack_len r s1 (r_slen r - 1)). clear r H. intros r H. revert r H.
  match goal with |- forall r, T r -> match snd (?m r) with _ => _ end => change (HT m) end.
  apply hoare_bind; [apply tr_pop | intros nv]. apply hoare_bind; [apply tr_pop | intros stepv].
  apply hoare_bind; [apply tr_pop | intros tov].
  destruct nv; try exact IH.
  match goal with |- HT (if ?c then _ else _) => destruct c end; [exact IH |].
  apply hoare_bind; [apply hoare_rget | intros r1]. apply hoare_bind; [apply hoare_rlift; auto | intros cur0].
  apply hoare_bind; [apply hoare_rlift; auto | intros cur]. apply hoare_bind; [tr | intros _].
  destruct (to_f64 stepv); try exact IH. tr.
Qed.

(* the editing commands, for invariants that survive their three state updates *)
Section Edits.
Variable K : rt -> Prop.
Hypothesis upd_new : forall r, T r -> T (set_tron (set_state (set_dirty (set_listing r listing_empty) true) StStopped) false).
Hypothesis upd_delete : forall r a b, T r ->
  T (set_state (set_dirty (set_listing r (with_lines (r_listing r)
       (filter (fun e => negb (in_rng a b (fst e))) (ls_lines (r_listing r))))) true) StStopped).
Hypothesis upd_renum1 : forall r l a b c, T r -> listing_renum (r_listing r) a b c = Ok l -> K (set_listing r l).
Hypothesis upd_renum2 : forall r, K r -> T (set_state (set_dirty r true) StStopped).

Lemma tr_do_new : HT (do_new O).
Proof. unfold do_new. apply hoare_bind; [apply tr_do_clear | intros _]. apply hoare_bind; [| intros _; tr].
  apply hoare_rmod. exact upd_new. Qed.
Lemma tr_do_delete : HT do_delete.
Proof. unfold do_delete. apply hoare_bind; [apply tr_pop2 | intros p]. apply hoare_bind; [tr | intros from]. apply hoare_bind; [tr | intros to].
  destruct (to <? from); [tr |]. apply hoare_bind; [tr | intros r]. apply hoare_bind; [| intros _; apply tr_do_end].
  match goal with |- HT (if ?c then _ else _) => destruct c end; [| tr].
  apply hoare_bind; [unfold need_unique; tr | intros _]. apply hoare_rmod. intros r0 H0. apply upd_delete. exact H0. Qed.
Lemma tr_do_renum : HT do_renum.
Proof. unfold do_renum. apply hoare_bind; [tr | intros r]. destruct (r_pc r <? r_entry r); [tr |].
  destruct (ls_ind_errors (r_listing r)); [| tr].
  apply hoare_bind; [tr | intros sv]. apply hoare_bind; [tr | intros step]. apply hoare_bind; [tr | intros ov].
  apply hoare_bind; [tr | intros old]. apply hoare_bind; [tr | intros nv]. apply hoare_bind; [tr | intros new].
  (* the listing is replaced and the flag raised in two consecutive updates: in between only K holds *)
  apply hoare3_eq. apply (hoare3_bind T K T T).
  - intros r0 H0. destruct (listing_renum (r_listing r0) (Z.to_N new) (Z.to_N old) (Z.to_N step)) eqn:El; cbn; try exact H0.
    exact (upd_renum1 r0 _ _ _ _ H0 El).
  - intros _. apply (hoare3_bind _ T T T).
    + intros r0 H0. cbn. apply upd_renum2. exact H0.
    + intros _. apply hoare3_eq. apply tr_do_end.
Qed.
Lemma tr_edit_ops h op : is_edit_op op = true -> HT (exec_op O h op).
Proof. destruct op; try discriminate; intros _; cbn [exec_op];
  (apply hoare_bind; [first [apply tr_do_new | apply tr_do_delete | apply tr_do_renum] | intros ?; tr]). Qed.
End Edits.

Lemma tr_do_builtin name : HT (do_builtin O name).
Proof. unfold do_builtin. repeat match goal with |- HT (if ?c then _ else _) => destruct c end;
  try (apply hoare_bind; [first [apply tr_pop_1_push | apply tr_pop_2_push | apply tr_pop_vec] | intros ?]); tr. Qed.

Lemma tr_exec_op h op : allowed op = true -> HT (exec_op O h op).
Proof.
  intros Hall. destruct (is_edit_op op) eqn:Ee; [apply edit_ok; assumption |].
  destruct op; try discriminate Ee; cbn [exec_op];
  try (apply hoare_bind; [first [apply tr_do_clear | apply tr_do_def | apply tr_do_deftype | apply tr_do_end
                               | apply tr_do_fn | apply tr_do_letmid | apply tr_do_list | apply tr_do_load
                               | apply tr_do_on | apply tr_do_print | apply tr_do_read | apply tr_do_return
                               | apply tr_do_swap | apply tr_pop_1_push | apply tr_pop_2_push ] | intros ?; tr]);
  try apply tr_do_cont; try apply tr_do_input; try apply tr_do_builtin.
  all: try (apply hoare_bind; [| intros ?; tr]).
  all: try (apply hoare_bind; [apply tr_pop_vec | intros ?]).
  all: try solve [tr].
  all: try solve [apply hoare_with_vars; auto; intros r v H; fr H].
  all: try solve [apply hoare_bind; [apply tr_pop | intros ?]; apply hoare_with_vars; auto; intros r v H; fr H].
  all: try solve [apply hoare_bind; [apply hoare_with_vars; auto; intros r v H; fr H | intros ?; tr]].
  - intros r H. apply tr_do_next. exact H.
Qed.

Lemma tr_one_op h : HT (one_op O h).
Proof. unfold one_op. apply hoare_bind_rget. intros r H.
  destruct (nthN (l_ops (pg_link (r_prog r))) (r_pc r)) as [op |] eqn:Eop; [| exact H].
  pose proof (prog_allowed r op H Eop) as Hall.
  assert (Hm : HT (rdo _ <~ rmod (fun r => set_pc r (r_pc r + 1)) ;; exec_op O h op))
    by (apply hoare_bind; [tr | intros _; apply tr_exec_op; exact Hall]).
  exact (Hm r H). Qed.

Lemma tr_exec_loop fuel h : HT (exec_loop O fuel h).
Proof. induction fuel as [| f IH]; cbn [exec_loop]; [apply hoare_ret |].
  apply hoare_bind; [apply hoare_rget | intros r]. apply hoare_bind; [tr | intros _].
  match goal with |- HT (match ?x with _ => _ end) => destruct x end; [tr |].
  apply hoare_bind; [apply tr_one_op | intros e]. destruct e; [apply hoare_ret | exact IH]. Qed.

Lemma tr_ready_prompt r : T r -> T (fst (ready_prompt r)).
Proof. intros H. unfold ready_prompt. destruct (negb (r_entry r =? 0)); [| exact H]. cbn.
  destruct (0 <? r_col r); cbn; fr H. Qed.

Lemma tr_finish_ok r2 ev r' e : T r2 ->
  match r_state r2, ev with
  | StStopped, EvStopped => match ready_prompt r2 with
                            | (r3, Some e) => Ok (r3, e)
                            | (r3, None) => Ok (r3, EvStopped)
                            end
  | _, _ => Ok (r2, ev)
  end = Ok (r', e) -> T r'.
Proof.
  intros H2 E. generalize (tr_ready_prompt r2 H2). destruct (ready_prompt r2) as [r3 [e3 |]]; cbn; intros H3.
  all: destruct (r_state r2); try (injection E as <- _; exact H2); destruct ev; injection E as <- _; assumption.
Qed.

Lemma tr_finish_err r2 er r' (e : event) : T r2 ->
  match r_state r2 with
  | StInputRunning =>
      let '(s, a) := unwind_input (r_stack r2) in
      let r3 := set_stack r2 s in
      let r4 := match a with Some addr => set_pc r3 addr | None => r3 end in
      Ok (set_state r4 StInputRedo, EvRunning)
  | st =>
      let r3 := set_cont_pc (set_cont (set_state r2 (StRuntimeError (in_line er (cur_line r2)))) st) (r_pc r2) in
      let r4 := if (r_entry r3 <=? r_pc r3) || stack_is_full r3
                then set_cont (set_stack r3 []) StStopped else r3 in
      Ok (r4, EvRunning)
  end = Ok (r', e) -> T r'.
Proof.
  intros H2 E. destruct (r_state r2);
    try (destruct (unwind_input (r_stack r2)) as [s [a |]]; injection E as <- _; fr H2);
    injection E as <- _; match goal with |- T (if ?c then _ else _) => destruct c end; fr H2.
Qed.

(* execute(): whatever state the machine is in *)
Lemma tr_rt_execute r n r' e : T r -> rt_execute O r n = Ok (r', e) -> T r'.
Proof.
  intros H. unfold rt_execute.
  match goal with |- (do pr <- ?pre; _) = _ -> _ => 
    assert (Hpre : forall r1 early, pre = Ok (r1, early) -> T r1); [| destruct pre as [[r1 early] | | |] eqn:Epre; try discriminate] end.
  { intros r1 early. destruct (r_state r).
    - intros E; injection E as <- _; fr H.
    - generalize (tr_ready_prompt r H). destruct (ready_prompt r) as [r2 [ev |]]; cbn; intros H2 E; injection E as <- _; exact H2.
    - destruct (list_line (r_listing r) a b) as [[[[text cols] [a' b']] |] | | |]; cbn; intros E; try discriminate; injection E as <- _; fr H.
    - intros E; injection E as <- _; exact H.
    - destruct (ls_dir_errors (r_listing r)); intros E; injection E as <- _; [exact H | fr H].
    - assert (Hx : HT execute_input) by (unfold execute_input; tr; destruct (r_stack a1); tr).
      specialize (Hx r H). destruct (execute_input r) as [r2 [ev | er | |]]; cbn in Hx; intros E; try discriminate; injection E as <- _; [exact Hx | fr Hx].
    - intros E; injection E as <- _; fr H.
    - destruct (ls_dir_errors (r_listing r)); intros E; injection E as <- _; [exact H | fr H].
    - intros E; injection E as <- _; fr H.
    - intros E; injection E as <- _; exact H. }
  specialize (Hpre r1 early eq_refl). cbn [bind].
  destruct early as [ev |]; [intros E; injection E as <- _; exact Hpre |].
  destruct (r_state r1) eqn:Est;
    try (destruct (0 <? r_col r1); intros E; injection E as <- _; fr Hpre).
  all: generalize (tr_exec_loop (N.to_nat n) (match ls_ind_errors (r_listing r1) with [] => false | _ => true end) r1 Hpre);
       destruct (exec_loop O (N.to_nat n) (match ls_ind_errors (r_listing r1) with [] => false | _ => true end) r1) as [r2 [ev | er | |]];
       cbn; intros H2 E; try discriminate;
       [exact (tr_finish_ok _ _ _ _ H2 E) | exact (tr_finish_err _ _ _ _ H2 E)].
Qed.

Lemma tr_rt_interrupt r : T r -> T (rt_interrupt r).
Proof. intros H. unfold rt_interrupt. match goal with |- context [if ?c then _ else _] => destruct c end; fr H. Qed.


Lemma tr_enter_input r s : T r -> T (enter_input O r s).
Proof.
  intros H. unfold enter_input. destruct (MAX_LINE_LEN <? utf8_len s); [fr H |].
  destruct (r_stack r) as [| v st]; [cbn; fr H |].
  destruct v; try (cbn; fr H).
  match goal with |- T (if ?c then _ else _) => destruct c end; [fr H |].
  match goal with |- T (match ?m r with _ => _ end) => assert (Hm : HT m) end.
  { apply hoare_bind; [apply tr_push | intros _]. apply hoare_bind; [| intros _; tr].
    apply (hoare_fold_push T T _ (fun f => VStr f)); [apply hoare_ret | apply tr_push]. }
  specialize (Hm r H).
  match goal with |- T (match ?m r with _ => _ end) => destruct (m r) as [r2 [u | e | |]] end; cbn in Hm; try exact Hm.
  all: cbn; fr Hm.
Qed.

Lemma tr_enter_inkey r s : T r -> T (enter_inkey O r s).
Proof.
  intros H. unfold enter_inkey. cbv zeta.
  match goal with |- context [push ?v r] => pose proof (tr_push v r H) as H2; destruct (push v r) as [r2 [u | e | |]] end;
    cbn [fst snd] in H2; cbn; fr H2.
Qed.

End Frame.

(* ---------- instance 1: the dirty flag tracks every change of the lines ---------- *)

(* relative to a starting point (lines L, flag d0): the flag never falls, and the lines are still L unless it is up *)
Definition Track (L : lines_t) (d0 : bool) (r : rt) : Prop :=
  (d0 = true -> r_dirty r = true) /\ (ls_lines (r_listing r) = L \/ r_dirty r = true).

Lemma track_start r : Track (ls_lines (r_listing r)) (r_dirty r) r.
Proof. split; auto. Qed.

Section Track.
Variable O : oracle.
Variable L : lines_t.
Variable d0 : bool.
Notation T := (Track L d0).

Lemma track_frame : forall r r', r_listing r' = r_listing r -> r_dirty r' = r_dirty r ->
  l_ops (pg_link (r_prog r')) = l_ops (pg_link (r_prog r)) -> T r -> T r'.
Proof. intros r r' E1 E2 _ [H1 H2]. unfold Track. rewrite E1, E2. split; assumption. Qed.

Definition all_ops (_ : opcode) := true.

Lemma track_edit_ok : forall h op, is_edit_op op = true -> all_ops op = true -> hoare T T (exec_op O h op).
Proof.
  intros h op He _. apply (tr_edit_ops O T track_frame (fun r => d0 = true -> r_dirty r = true)); try exact He.
  - intros r H. split; cbn; auto.
  - intros r a b H. split; cbn; auto.
  - intros r l a b c H _. cbn. exact (proj1 H).
  - intros r H. split; cbn; auto.
Qed.

Lemma track_prog_allowed : forall r op, T r -> nthN (l_ops (pg_link (r_prog r))) (r_pc r) = Some op -> all_ops op = true.
Proof. reflexivity. Qed.

Definition tk_execute := tr_rt_execute O T track_frame all_ops track_edit_ok track_prog_allowed.
Definition tk_interrupt := tr_rt_interrupt T track_frame.
Definition tk_enter_input := tr_enter_input O T track_frame.
Definition tk_enter_inkey := tr_enter_inkey O T track_frame.

(* a numbered line: the lines change only together with the flag; deleting an absent line changes neither *)
Lemma lines_remove_absent ls n : lines_has ls n = false -> lines_remove ls n = ls.
Proof.
  unfold lines_has, lines_remove. induction ls as [| e ls IH]; cbn; [reflexivity |].
  destruct (fst e =? n); cbn; [discriminate |]. intros Hh. rewrite IH by exact Hh. reflexivity.
Qed.

Lemma tk_enter_indirect r l r' : T r -> enter_indirect r l = Ok r' -> T r'.
Proof.
  intros [H1 H2] E. unfold enter_indirect in E. destruct (fst l) as [n |]; [| injection E as <-; split; cbn; assumption].
  destruct (snd l) as [| t ts]; injection E as <-; [| split; cbn; auto].
  split; cbn.
  - intros Hd. rewrite (H1 Hd). reflexivity.
  - destruct (r_dirty r); [right; reflexivity |]. cbn.
    destruct (lines_has (ls_lines (r_listing r)) n) eqn:Eh; [right; reflexivity |].
    left. rewrite lines_remove_absent by exact Eh. destruct H2 as [H2 | H2]; [exact H2 | discriminate].
Qed.

End Track.

(* ---- the statements used by Props/C04.v ---- *)

(* enter() of anything but a direct line, execute() and interrupt() *)
Theorem dirty_tracks_edits_execute : forall O r n r' e, rt_execute O r n = Ok (r', e) ->
  (r_dirty r = true -> r_dirty r' = true) /\ (ls_lines (r_listing r') = ls_lines (r_listing r) \/ r_dirty r' = true).
Proof. intros O r n r' e E. exact (tk_execute O _ _ r n r' e (track_start r) E). Qed.

Theorem dirty_tracks_edits_indirect : forall r l r', enter_indirect r l = Ok r' ->
  (r_dirty r = true -> r_dirty r' = true) /\ (ls_lines (r_listing r') = ls_lines (r_listing r) \/ r_dirty r' = true).
Proof. intros r l r' E. exact (tk_enter_indirect _ _ r l r' (track_start r) E). Qed.

Theorem dirty_tracks_edits_interrupt : forall r,
  r_dirty (rt_interrupt r) = r_dirty r /\ r_listing (rt_interrupt r) = r_listing r.
Proof. intros r. unfold rt_interrupt. match goal with |- context [if ?c then _ else _] => destruct c end; split; reflexivity. Qed.

Theorem dirty_tracks_edits_reply : forall O r s,
  Track (ls_lines (r_listing r)) (r_dirty r) (enter_input O r s) /\ Track (ls_lines (r_listing r)) (r_dirty r) (enter_inkey O r s).
Proof. intros O r s. split; [apply tk_enter_input | apply tk_enter_inkey]; apply track_start. Qed.

(* ---------- instance 2: statements other than the editing commands never alter the stored program ---------- *)

Definition Keep (L : lines_t) (d : bool) (OPS : list opcode) (r : rt) : Prop :=
  ls_lines (r_listing r) = L /\ r_dirty r = d /\ l_ops (pg_link (r_prog r)) = OPS.

Definition not_edit (op : opcode) : bool := negb (is_edit_op op).

Section Keep.
Variable O : oracle.
Variable L : lines_t.
Variable d : bool.
Variable OPS : list opcode.
Hypothesis no_edit : forallb not_edit OPS = true.
Notation T := (Keep L d OPS).

Lemma keep_frame : forall r r', r_listing r' = r_listing r -> r_dirty r' = r_dirty r ->
  l_ops (pg_link (r_prog r')) = l_ops (pg_link (r_prog r)) -> T r -> T r'.
Proof. intros r r' E1 E2 E3 (H1 & H2 & H3). unfold Keep. rewrite E1, E2, E3. repeat split; assumption. Qed.

Lemma keep_edit_ok : forall h op, is_edit_op op = true -> not_edit op = true -> hoare T T (exec_op O h op).
Proof. intros h op He Hn. unfold not_edit in Hn. rewrite He in Hn. discriminate. Qed.

Lemma keep_prog_allowed : forall r op, T r -> nthN (l_ops (pg_link (r_prog r))) (r_pc r) = Some op -> not_edit op = true.
Proof.
  intros r op (_ & _ & H3) Hn. rewrite H3 in Hn. unfold nthN in Hn. apply nth_error_In in Hn.
  rewrite forallb_forall in no_edit. apply no_edit. exact Hn.
Qed.

Definition kp_execute := tr_rt_execute O T keep_frame not_edit keep_edit_ok keep_prog_allowed.
Definition kp_exec_op := tr_exec_op O T keep_frame not_edit keep_edit_ok.
End Keep.

(* one statement opcode at a time *)
Theorem noedit_op_frame : forall O h op r, is_edit_op op = false ->
  let r' := fst (exec_op O h op r) in
  ls_lines (r_listing r') = ls_lines (r_listing r) /\ r_dirty r' = r_dirty r.
Proof.
  intros O h op r He.
  assert (Hk : Keep (ls_lines (r_listing r)) (r_dirty r) (l_ops (pg_link (r_prog r))) r) by (repeat split).
  pose proof (kp_exec_op O _ _ _ h op (f_equal negb He) r Hk) as H.
  cbn zeta. destruct (snd (exec_op O h op r)); destruct H as (H1 & H2 & _); split; assumption.
Qed.

(* a whole execute() call on compiled code that contains no editing opcode *)
Theorem noedit_execute_frame : forall O r n r' e,
  forallb not_edit (l_ops (pg_link (r_prog r))) = true ->
  rt_execute O r n = Ok (r', e) ->
  ls_lines (r_listing r') = ls_lines (r_listing r) /\ r_dirty r' = r_dirty r
  /\ l_ops (pg_link (r_prog r')) = l_ops (pg_link (r_prog r)).
Proof.
  intros O r n r' e Hno E.
  exact (kp_execute O _ _ _ Hno r n r' e (conj eq_refl (conj eq_refl eq_refl)) E).
Qed.

(* ---------- entering a direct line: the only place where the flag is lowered ---------- *)

Theorem direct_keeps_lines : forall r l,
  ls_lines (r_listing (enter_direct r l)) = ls_lines (r_listing r) /\ r_dirty (enter_direct r l) = false.
Proof. intros r l. unfold enter_direct. destruct (r_dirty r) eqn:Ed; cbn; auto. Qed.

(* with the flag up, the previously compiled code is thrown away: only Program::clear's residue of it is read *)
Theorem stale_code_discarded : forall r l p1, r_dirty r = true -> program_clear p1 = program_clear (r_prog r) ->
  enter_direct (set_prog r p1) l = enter_direct r l.
Proof. intros r l p1 Hd Hp. unfold enter_direct, compile_listing. cbn. rewrite Hd, Hp. reflexivity. Qed.

(* ... and so are the value stack (pending RETURN / NEXT frames), the user functions and the CONT state *)
Theorem stale_state_discarded : forall r l st sl fns c, r_dirty r = true ->
  enter_direct (set_cont (set_fns (set_stack_len r st sl) fns) c) l = enter_direct r l.
Proof. intros r l st sl fns c Hd. unfold enter_direct. cbn. rewrite Hd. reflexivity. Qed.

(* what the direct line is compiled behind is then exactly a fresh compilation of the lines LIST shows *)
Theorem recompiled_from_listing : forall r l, r_dirty r = true ->
  enter_direct r l =
  enter_direct (set_cont (set_fns (set_stack_len (set_dirty (set_prog r (compile_listing (r_prog r) (ls_lines (r_listing r)))) false) [] 0) []) StStopped) l.
Proof. intros r l Hd. unfold enter_direct at 1. rewrite Hd. unfold enter_direct. cbn. reflexivity. Qed.
