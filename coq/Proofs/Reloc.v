(* C20 (and C01): branch targets are resolved through the symbol table.
   (i)  appending a fragment re-bases it: its code lands unchanged behind the existing code;
   (ii) linking patches every recorded reference with the address of its symbol and touches no other instruction. *)
From BL Require Import Base.Prelude Base.Floats Mach.Val Lang.Token Lang.Ast Mach.Compile.
From Coq Require Import Lia.
Local Open Scope N_scope.

(* ---------- (i) append ---------- *)
Theorem append_ops : forall f l l', l_append f l = (l', Ok tt) ->
  l_ops l' = l_ops l ++ l_ops f /\ l_data l' = l_data l ++ l_data f /\ l_cur l' = (l_cur l + l_cur f)%Z.
Proof.
  intros f l l' H. unfold l_append in H.
  destruct (l_direct_set l && match l_data f with [] => false | _ => true end); [discriminate |].
  destruct (MAX_POOL <? lenN _) in H; [discriminate |].
  match type of H with (?a, (if ?c then _ else _)) = _ => destruct c end; [discriminate |].
  injection H as <-. cbn. repeat split; reflexivity.
Qed.

(* so instruction i of the fragment is instruction (old length + i) of the result, and the old code is untouched *)
Corollary append_places_code : forall f l l' i op, l_append f l = (l', Ok tt) -> nth_error (l_ops f) i = Some op ->
  nthN (l_ops l') (lenN (l_ops l) + N.of_nat i) = Some op.
Proof.
  intros f l l' i op H Hi. destruct (append_ops _ _ _ H) as [-> _]. unfold nthN, lenN.
  rewrite nth_error_app2 by lia. replace (N.to_nat (N.of_nat (length (l_ops l)) + N.of_nat i) - length (l_ops l))%nat with i by lia. exact Hi.
Qed.
Corollary append_keeps_code : forall f l l' a, l_append f l = (l', Ok tt) -> a < lenN (l_ops l) ->
  nthN (l_ops l') a = nthN (l_ops l) a.
Proof.
  intros f l l' a H Ha. destruct (append_ops _ _ _ H) as [-> _]. unfold nthN, lenN in *. apply nth_error_app1. lia.
Qed.

(* ---------- (ii) link ---------- *)
Lemma list_set_length {A} (l : list A) i x : length (list_set l i x) = length l.
Proof. revert i. induction l as [| y r IH]; intros i; destruct i; cbn; auto. Qed.

Lemma list_set_nth {A} (l : list A) i x j :
  nth_error (list_set l i x) j = if Nat.eqb i j then (match nth_error l j with Some _ => Some x | None => None end) else nth_error l j.
Proof.
  revert i j. induction l as [| y r IH]; intros i j; destruct i, j; cbn; try reflexivity.
  - destruct (Nat.eqb i j); reflexivity.
  - apply IH.
Qed.

Section Link.
Variable syms : list (Z * (N * N)).

Definition lstep (acc : list opcode * list error) (e : N * (col * Z)) : list opcode * list error :=
  let '(ops, errs) := acc in
  let '(addr, (c, sym)) := e in
  let fail := (ops, errs ++ [mkErr E_Internal (line_number_for syms addr) c]) in
  match zassoc_get sym syms with
  | None => if (0 <=? sym)%Z then (ops, errs ++ [mkErr E_UndefinedLine (line_number_for syms addr) c]) else fail
  | Some dest =>
      match nthN ops addr with
      | Some op => match patch_op op dest with
                   | Some op' => (list_set ops (N.to_nat addr) op', errs)
                   | None => fail
                   end
      | None => fail
      end
  end.

Lemma lstep_other acc e a : a <> fst e -> nthN (fst (lstep acc e)) a = nthN (fst acc) a.
Proof.
  destruct acc as [ops errs]. destruct e as [addr [c sym]]. cbn [fst]. intros Hne. unfold lstep.
  destruct (zassoc_get sym syms) as [dest |]; [| destruct (0 <=? sym)%Z; reflexivity].
  destruct (nthN ops addr) as [op |]; [| reflexivity]. destruct (patch_op op dest); [| reflexivity].
  cbn [fst]. unfold nthN. rewrite list_set_nth. destruct (Nat.eqb_spec (N.to_nat addr) (N.to_nat a)); [lia | reflexivity].
Qed.

Lemma fold_other : forall unl acc a, ~ In a (map fst unl) -> nthN (fst (fold_left lstep unl acc)) a = nthN (fst acc) a.
Proof.
  induction unl as [| e r IH]; intros acc a Hn; [reflexivity |]. cbn [fold_left].
  rewrite IH by (intros Hin; apply Hn; right; exact Hin). apply lstep_other. intros E. apply Hn. left. symmetry. exact E.
Qed.

(* every recorded reference whose symbol is defined ends up holding that symbol's address *)
Theorem fold_patches : forall unl acc addr c sym dest op op',
  NoDup (map fst unl) -> In (addr, (c, sym)) unl ->
  zassoc_get sym syms = Some dest -> nthN (fst acc) addr = Some op -> patch_op op dest = Some op' ->
  nthN (fst (fold_left lstep unl acc)) addr = Some op'.
Proof.
  induction unl as [| e r IH]; intros acc addr c sym dest op op' Hnd Hin Hs Hop Hp; [destruct Hin |].
  inversion Hnd as [| ? ? Hna Hnd']; subst. cbn [fold_left]. destruct Hin as [-> | Hin].
  - rewrite fold_other by exact Hna. destruct acc as [ops errs]. cbn [fst] in *. unfold lstep. rewrite Hs, Hop, Hp. cbn [fst].
    unfold nthN in *. rewrite list_set_nth, Nat.eqb_refl, Hop. reflexivity.
  - apply (IH _ addr c sym dest op op' Hnd' Hin Hs); [| exact Hp].
    rewrite lstep_other; [exact Hop |]. intros E. apply Hna. rewrite <- E. rewrite in_map_iff. exists (addr, (c, sym)). split; [reflexivity | exact Hin].
Qed.

End Link.

(* link_link is that fold over the references left after WHILE/WEND pairing *)
Theorem link_link_is_fold : forall l,
  let '(unl, werrs) := link_whiles_loop (l_whiles l) [] (l_syms l) (l_unlinked l) [] in
  l_ops (fst (link_link l)) = fst (fold_left (lstep (l_syms l)) unl (l_ops l, werrs)).
Proof.
  intros l. unfold link_link. destruct (link_whiles_loop _ _ _ _ _) as [unl werrs].
  match goal with |- context [fold_left ?f unl ?a] => change f with (lstep (l_syms l)) end.
  destruct (fold_left (lstep (l_syms l)) unl (l_ops l, werrs)) as [ops errs]. reflexivity.
Qed.

(* what patching does to each kind of reference: only the address operand changes *)
Theorem patch_op_spec : forall op dest op', patch_op op dest = Some op' ->
  (exists a, op = OpIfNot a /\ op' = OpIfNot (fst dest)) \/ (exists a, op = OpJump a /\ op' = OpJump (fst dest))
  \/ (exists a, op = OpLiteral (VRet a) /\ op' = OpLiteral (VRet (fst dest)))
  \/ (exists a, op = OpLiteral (VNext a) /\ op' = OpLiteral (VNext (fst dest)))
  \/ (exists a, op = OpRestore a /\ op' = OpRestore (snd dest)).
Proof.
  intros op dest op' H. destruct op; cbn in H; try discriminate; try (injection H as <-; eauto 10).
  destruct v; try discriminate; injection H as <-; eauto 10.
Qed.
