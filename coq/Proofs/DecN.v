(* decimal rendering of line numbers and subscripts: reading back what dec_of_N prints gives the number *)
From BL Require Import Base.Prelude.
From Coq Require Import Lia ZifyBool ZifyNat ZifyN.
Local Open Scope N_scope.
Ltac Zify.zify_post_hook ::= Z.div_mod_to_equations.

Lemma is_digit_48 d : d < 10 -> is_digit (48 + d) = true.
Proof. intros H. unfold is_digit. apply andb_true_intro. split; apply N.leb_le; lia. Qed.

Lemma dec_fuel_val : forall fuel n acc, n < 2 ^ N.of_nat fuel ->
  digits_val (dec_fuel fuel n acc) 0 = digits_val acc n.
Proof.
  induction fuel as [| f IH]; intros n acc Hn.
  - change (N.of_nat 0) with 0 in Hn. rewrite N.pow_0_r in Hn. assert (n = 0) by lia. subst. reflexivity.
  - cbn [dec_fuel]. assert (Hd : n mod 10 < 10) by (apply N.mod_lt; lia).
    assert (Hstep : digits_val ((48 + n mod 10) :: acc) (n / 10) = digits_val acc n).
    { cbn [digits_val]. rewrite (is_digit_48 _ Hd). f_equal.
      replace (48 + n mod 10 - 48) with (n mod 10) by lia. rewrite N.mul_comm. symmetry. apply N.div_mod. lia. }
    destruct (N.eqb_spec (n / 10) 0) as [Hq | Hq].
    + rewrite <- Hstep, Hq. reflexivity.
    + rewrite IH; [exact Hstep |].
      rewrite Nat2N.inj_succ, N.pow_succ_r' in Hn. 
      assert (n / 10 <= n / 2) by (apply N.div_le_compat_l; lia).
      assert (n / 2 < 2 ^ N.of_nat f) by (apply N.div_lt_upper_bound; lia). lia.
Qed.

Lemma dec_fuel_nonempty : forall fuel n acc, dec_fuel (S fuel) n acc <> [].
Proof.
  induction fuel as [| f IH]; intros n acc; cbn [dec_fuel].
  - destruct (n / 10 =? 0); discriminate.
  - destruct (n / 10 =? 0); [discriminate |]. apply IH.
Qed.

Theorem parse_dec_of_N : forall n, parse_udec (dec_of_N n) = Some n.
Proof.
  intros n. unfold parse_udec, dec_of_N.
  pose proof (dec_fuel_nonempty (N.to_nat (N.log2 n)) n []) as Hne.
  destruct (dec_fuel (S (N.to_nat (N.log2 n))) n []) eqn:E; [contradiction |].
  rewrite <- E, dec_fuel_val; [reflexivity |].
  rewrite Nat2N.inj_succ, N2Nat.id. destruct n as [| p]; [cbn; lia |].
  apply N.log2_spec. lia.
Qed.

Corollary dec_of_N_inj : forall a b, dec_of_N a = dec_of_N b -> a = b.
Proof. intros a b H. pose proof (parse_dec_of_N a) as Ha. rewrite H, parse_dec_of_N in Ha. congruence. Qed.

(* every character printed is a digit: no comma, no blank, no letter *)
Lemma dec_fuel_digits : forall fuel n acc, all_b is_digit acc = true -> all_b is_digit (dec_fuel fuel n acc) = true.
Proof.
  induction fuel as [| f IH]; intros n acc Ha; [exact Ha |]. cbn [dec_fuel].
  assert (Hd : n mod 10 < 10) by (apply N.mod_lt; lia).
  assert (Ha' : all_b is_digit ((48 + n mod 10) :: acc) = true) by (cbn [all_b]; rewrite (is_digit_48 _ Hd); exact Ha).
  destruct (n / 10 =? 0); [exact Ha' | apply IH; exact Ha'].
Qed.
Lemma dec_of_N_digits n : all_b is_digit (dec_of_N n) = true.
Proof. apply dec_fuel_digits. reflexivity. Qed.
