(* C02: result types of the operators (promotion Integer < Single < Double) and of assignment. *)
From BL Require Import Base.Prelude Base.Floats Mach.Val Mach.Ops Mach.Var.
From Coq Require Import Lia.
Local Open Scope Z_scope.

Definition rank (t : vtype) : nat := match t with TInt => 0 | TSng => 1 | TDbl => 2 | TStr => 3 end.
Definition numeric (v : val) : bool := match v with VInt _ | VSng _ | VDbl _ => true | _ => false end.
Definition wider (a b : vtype) : vtype := if Nat.leb (rank a) (rank b) then b else a.

(* + - * : the result has the wider of the two operand types; Integer results are range-checked *)
Lemma arith_type fi f32 f64 l r v tl tr : arith fi f32 f64 l r = Ok v ->
  val_type l = Some tl -> val_type r = Some tr -> numeric l = true -> numeric r = true ->
  val_type v = Some (wider tl tr).
Proof.
  unfold arith. destruct l, r; cbn; intros H Hl Hr Nl Nr; try discriminate;
    injection Hl as <-; injection Hr as <-; try (injection H as <-; reflexivity).
  unfold chk in H. destruct (in_i16 _); [injection H as <-; reflexivity | discriminate].
Qed.

Theorem sum_type : forall l r v tl tr, op_sum l r = Ok v -> val_type l = Some tl -> val_type r = Some tr ->
  numeric l = true -> numeric r = true -> val_type v = Some (wider tl tr).
Proof.
  intros l r v tl tr H Hl Hr Nl Nr. unfold op_sum in H.
  destruct l; cbn in Nl; try discriminate; exact (arith_type _ _ _ _ _ _ _ _ H Hl Hr eq_refl Nr).
Qed.
Theorem subtract_type : forall l r v tl tr, op_subtract l r = Ok v -> val_type l = Some tl -> val_type r = Some tr ->
  numeric l = true -> numeric r = true -> val_type v = Some (wider tl tr).
Proof. intros l r v tl tr H. exact (arith_type _ _ _ _ _ _ _ _ H). Qed.
Theorem multiply_type : forall l r v tl tr, op_multiply l r = Ok v -> val_type l = Some tl -> val_type r = Some tr ->
  numeric l = true -> numeric r = true -> val_type v = Some (wider tl tr).
Proof. intros l r v tl tr H. exact (arith_type _ _ _ _ _ _ _ _ H). Qed.

(* the only error of + - * on numbers is OVERFLOW, and only between two Integers *)
Theorem arith_error : forall fi f32 f64 l r e, numeric l = true -> numeric r = true ->
  arith fi f32 f64 l r = Err e -> ecode e = E_Overflow /\ val_type l = Some TInt /\ val_type r = Some TInt.
Proof.
  unfold arith. destruct l, r; cbn; intros e Nl Nr H; try discriminate.
  unfold chk in H. destruct (in_i16 _); [discriminate |]. injection H as <-. repeat split; reflexivity.
Qed.

(* / : two Integers divide in Single; otherwise the wider type, never Integer *)
Theorem divide_type : forall l r v tl tr, op_divide l r = Ok v -> val_type l = Some tl -> val_type r = Some tr ->
  val_type v = Some (wider TSng (wider tl tr)).
Proof.
  intros l r v tl tr H Hl Hr. unfold op_divide in H.
  destruct l, r; cbn in *; try discriminate; injection Hl as <-; injection Hr as <-; injection H as <-; reflexivity.
Qed.

(* \ MOD AND OR XOR IMP EQV NOT work on 16-bit Integers and give an Integer *)
Theorem integer_ops_type : forall l r v,
  (op_divint l r = Ok v \/ op_remainder l r = Ok v \/ op_and l r = Ok v \/ op_or l r = Ok v \/ op_xor l r = Ok v
   \/ op_imp l r = Ok v \/ op_eqv l r = Ok v) ->
  val_type v = Some TInt /\ (exists a b, to_i16 l = Ok a /\ to_i16 r = Ok b).
Proof.
  intros l r v H. unfold op_divint, op_remainder, op_and, op_or, op_xor, op_imp, op_eqv, logic2 in H.
  assert (Hgen : forall (k : Z -> Z -> res val), (forall a b w, k a b = Ok w -> val_type w = Some TInt) ->
            (do a <- to_i16 l; do b <- to_i16 r; k a b) = Ok v ->
            val_type v = Some TInt /\ (exists a b, to_i16 l = Ok a /\ to_i16 r = Ok b)).
  { intros k Hk E. destruct (to_i16 l) as [a | | |]; cbn in E; try discriminate.
    destruct (to_i16 r) as [b | | |]; cbn in E; try discriminate. split; [exact (Hk a b v E) | exists a, b; split; reflexivity]. }
  destruct H as [H | [H | [H | [H | [H | [H | H]]]]]]; revert H; apply Hgen; intros a b w E.
  - destruct (b =? 0); [discriminate |]. unfold chk in E. destruct (in_i16 _); [injection E as <-; reflexivity | discriminate].
  - destruct (b =? 0); [discriminate | injection E as <-; reflexivity].
  - injection E as <-; reflexivity.
  - injection E as <-; reflexivity.
  - injection E as <-; reflexivity.
  - injection E as <-; reflexivity.
  - injection E as <-; reflexivity.
Qed.

Theorem not_type : forall x v, op_not x = Ok v -> val_type v = Some TInt.
Proof. intros x v H. unfold op_not in H. destruct (to_i16 x); cbn in H; try discriminate. injection H as <-. reflexivity. Qed.

(* conversion to a variable's type fails only with OVERFLOW, TYPE MISMATCH or STRING TOO LONG *)
Theorem convert_errors : forall t v e, convert_to t v = Err e ->
  ecode e = E_Overflow \/ ecode e = E_TypeMismatch \/ ecode e = E_StringTooLong.
Proof.
  intros t v e H. unfold convert_to in H.
  destruct t, v; cbn in H; try discriminate; try (injection H as <-; cbn; tauto);
    unfold float_to_int32, float_to_int64, bind in H;
    repeat match type of H with
           | (if ?c then _ else _) = _ => destruct c
           | match (if ?c then _ else _) with _ => _ end = _ => destruct c
           end; try discriminate; try (injection H as <-; cbn; tauto).
Qed.
