(* C13: program behaviour does not depend on how many instructions each bounded execution call is given. *)
From BL Require Import Base.Prelude Base.Floats Mach.Val Mach.Ops Mach.Func Mach.Var
     Lang.Token Lang.Lex Lang.Ast Lang.Parse Mach.Compile Mach.Listing Mach.Runtime.
From Coq Require Import Lia.
Local Open Scope N_scope.

Section Slicing.
Variable O : oracle.

(* execute_loop with the reason for stopping made visible: None = the instruction budget ran out *)
Fixpoint exec_loop_x (fuel : nat) (h : bool) : RM (option event) :=
  match fuel with
  | 0%nat => rret None
  | S f =>
      rdo r <~ rget ;;
      let tr := prog_line_for r (r_pc r) in
      let traced := r_tron r && line_changed tr (r_tr r) in
      rdo _ <~ (if traced then rmod (fun r => set_tr r tr) else rret tt) ;;
      match (if traced then tr else None) with
      | Some num =>
          let text := [91] ++ dec_of_N num ++ [93] in
          rdo _ <~ rmod (fun r => set_col r (r_col r + lenN text)) ;;
          rret (Some (EvPrint text))
      | None =>
          rdo e <~ one_op O h ;;
          match e with
          | Some ev => rret (Some ev)
          | None => exec_loop_x f h
          end
      end
  end.

Definition ev_or_running (x : option event) : event := match x with Some e => e | None => EvRunning end.

(* it is the model's execute_loop *)
Lemma exec_loop_x_loop : forall fuel h r,
  exec_loop O fuel h r = (fst (exec_loop_x fuel h r), match snd (exec_loop_x fuel h r) with
                                                      | Ok x => Ok (ev_or_running x)
                                                      | Err e => Err e | Panic => Panic | Hang => Hang
                                                      end).
Proof.
  induction fuel as [| f IH]; intros h r; [reflexivity |].
  cbn [exec_loop exec_loop_x]. cbv beta delta [rbind rget rret rmod] iota.
  destruct (r_tron r && line_changed (prog_line_for r (r_pc r)) (r_tr r)); cbv beta iota.
  - destruct (prog_line_for r (r_pc r)) as [num |]; [reflexivity |].
    destruct (one_op O h (set_tr r None)) as [r1 [[ev |] | e | |]]; try reflexivity. apply IH.
  - destruct (one_op O h r) as [r1 [[ev |] | e | |]]; try reflexivity. apply IH.
Qed.

(* running n+m instructions = running n and, if nothing but the budget stopped that, m more from where it stopped *)
Theorem exec_loop_split : forall n m h r,
  exec_loop_x (n + m) h r =
  match exec_loop_x n h r with
  | (r1, Ok None) => exec_loop_x m h r1
  | other => other
  end.
Proof.
  induction n as [| n IH]; intros m h r; [reflexivity |].
  cbn [Nat.add exec_loop_x]. cbv beta delta [rbind rget rret rmod] iota.
  destruct (r_tron r && line_changed (prog_line_for r (r_pc r)) (r_tr r)); cbv beta iota.
  - destruct (prog_line_for r (r_pc r)) as [num |]; [reflexivity |].
    destruct (one_op O h (set_tr r None)) as [r1 [[ev |] | e | |]]; try reflexivity. apply IH.
  - destruct (one_op O h r) as [r1 [[ev |] | e | |]]; try reflexivity. apply IH.
Qed.

(* the same for any number of slices *)
Fixpoint run_slices (qs : list nat) (h : bool) (r : rt) : rt * res (option event) :=
  match qs with
  | [] => (r, Ok None)
  | q :: rest => match exec_loop_x q h r with
                 | (r1, Ok None) => run_slices rest h r1
                 | other => other
                 end
  end.

Theorem slicing_irrelevant : forall qs h r, run_slices qs h r = exec_loop_x (fold_right Nat.add 0%nat qs) h r.
Proof.
  induction qs as [| q rest IH]; intros h r; [reflexivity |].
  cbn [run_slices fold_right]. rewrite exec_loop_split.
  destruct (exec_loop_x q h r) as [r1 [[ev |] | e | |]]; try reflexivity. apply IH.
Qed.

Corollary same_total_same_run : forall qs qs' h r,
  fold_right Nat.add 0%nat qs = fold_right Nat.add 0%nat qs' -> run_slices qs h r = run_slices qs' h r.
Proof. intros qs qs' h r E. rewrite !slicing_irrelevant, E. reflexivity. Qed.

(* at the API: while the machine stays in a running state between calls, execute(n+m) is execute(n) then execute(m) *)
Definition running_state (s : rstate) : bool := match s with StRunning | StInputRunning => true | _ => false end.

Theorem execute_split : forall n m r r1,
  running_state (r_state r) = true -> ls_dir_errors (r_listing r) = [] ->
  let h := match ls_ind_errors (r_listing r) with [] => false | _ => true end in
  exec_loop_x (N.to_nat n) h r = (r1, Ok None) ->
  running_state (r_state r1) = true -> r_listing r1 = r_listing r ->
  rt_execute O r n = Ok (r1, EvRunning) /\ rt_execute O r (n + m) = rt_execute O r1 m.
Proof.
  intros n m r r1 Hs Hd h Hx Hs1 Hl.
  assert (Hpre : forall k (rr : rt), running_state (r_state rr) = true -> ls_dir_errors (r_listing rr) = [] ->
            rt_execute O rr k =
            match exec_loop O (N.to_nat k) (match ls_ind_errors (r_listing rr) with [] => false | _ => true end) rr with
            | (r2, Ok ev) => match r_state r2, ev with
                             | StStopped, EvStopped => match ready_prompt r2 with (r3, Some e) => Ok (r3, e) | (r3, None) => Ok (r3, EvStopped) end
                             | _, _ => Ok (r2, ev)
                             end
            | (r2, Err e) => match r_state r2 with
                             | StInputRunning =>
                                 let '(s, a) := unwind_input (r_stack r2) in
                                 let r3 := set_stack r2 s in
                                 let r4 := match a with Some addr => set_pc r3 addr | None => r3 end in
                                 Ok (set_state r4 StInputRedo, EvRunning)
                             | st =>
                                 let r3 := set_cont_pc (set_cont (set_state r2 (StRuntimeError (in_line e (cur_line r2)))) st) (r_pc r2) in
                                 let r4 := if (r_entry r3 <=? r_pc r3) || stack_is_full r3 then set_cont (set_stack r3 []) StStopped else r3 in
                                 Ok (r4, EvRunning)
                             end
            | (_, Panic) => Panic
            | (_, Hang) => Hang
            end).
  { intros k rr Hrs Hde. unfold rt_execute. destruct (r_state rr) eqn:Est; try discriminate; rewrite Hde; cbn [bind]; rewrite Est; reflexivity. }
  split.
  - rewrite (Hpre n r Hs Hd). rewrite exec_loop_x_loop. fold h. rewrite Hx. cbn.
    destruct (r_state r1); try discriminate; reflexivity.
  - rewrite (Hpre (n + m) r Hs Hd). rewrite (Hpre m r1 Hs1) by (rewrite Hl; exact Hd).
    rewrite !exec_loop_x_loop. rewrite Hl. fold h.
    replace (N.to_nat (n + m)) with (N.to_nat n + N.to_nat m)%nat by lia.
    rewrite exec_loop_split, Hx. reflexivity.
Qed.

End Slicing.

(* ---------- STOP / interrupt, then CONT ---------- *)
Section Cont.
Variable O : oracle.

(* a STOP, an error or ?BREAK inside the program: the error path of execute() saves the state and the address of the next
   instruction in the continuation slot and leaves stack and variables alone (unless the stack is nearly full) *)
Theorem break_saves : forall r2 er r' e st, r_state r2 = st -> running_state st = true -> st = StRunning ->
  r_pc r2 < r_entry r2 -> stack_is_full r2 = false ->
  match r_state r2 with
  | StInputRunning =>
      let '(s, a) := unwind_input (r_stack r2) in
      let r3 := set_stack r2 s in
      let r4 := match a with Some addr => set_pc r3 addr | None => r3 end in
      Ok (set_state r4 StInputRedo, EvRunning)
  | st =>
      let r3 := set_cont_pc (set_cont (set_state r2 (StRuntimeError (in_line er (cur_line r2)))) st) (r_pc r2) in
      let r4 := if (r_entry r3 <=? r_pc r3) || stack_is_full r3 then set_cont (set_stack r3 []) StStopped else r3 in
      Ok (r4, EvRunning)
  end = Ok (r', e) ->
  r_cont r' = StRunning /\ r_cont_pc r' = r_pc r2 /\ r_stack r' = r_stack r2 /\ r_vars r' = r_vars r2 /\ r_pc r' = r_pc r2
  /\ r_prog r' = r_prog r2 /\ r_listing r' = r_listing r2.
Proof.
  intros r2 er r' e st Hst _ -> Hpc Hfull E. rewrite Hst in E. cbn zeta in E.
  cbn [r_entry r_pc set_cont_pc set_cont set_state] in E.
  destruct (N.leb_spec (r_entry r2) (r_pc r2)); [lia |]. cbn [orb] in E.
  assert (Hf : stack_is_full (set_cont_pc (set_cont (set_state r2 (StRuntimeError (in_line er (cur_line r2)))) StRunning) (r_pc r2)) = false) by exact Hfull.
  rewrite Hf in E. injection E as <- _. cbn. repeat split; reflexivity.
Qed.

(* CONT: the saved state and address come back, the slot is emptied, nothing else is touched *)
Theorem cont_restores : forall r st, r_cont r = st -> is_stopped st = false -> r_state r = StRunning ->
  fst (do_cont r) = set_pc (set_cont (set_state r st) StStopped) (r_cont_pc r)
  /\ snd (do_cont r) = Ok (if is_running st then None else Some EvRunning).
Proof.
  intros r st Hc Hs Hr. unfold do_cont, rbind, rget. rewrite Hc, Hs, Hr. cbn [is_running rmod].
  cbn [r_cont r_cont_pc r_state set_pc set_cont set_state]. rewrite Hc. destruct (is_running st); split; reflexivity.
Qed.

(* and with an empty slot CONT is refused *)
Theorem cont_refused : forall r, r_cont r = StStopped -> do_cont r = (r, err E_CantContinue).
Proof. intros r H. unfold do_cont, rbind, rget. rewrite H. reflexivity. Qed.

(* waiting for a key: the wait state answers "key wanted" again and changes nothing, so an interrupt taken while the
   program waits, followed by CONT, comes back to the same wait with the same address and stack *)
Theorem key_wait_asks_again : forall r k, r_state r = StInkey -> rt_execute O r k = Ok (r, EvInkey).
Proof. intros r k H. unfold rt_execute. rewrite H. reflexivity. Qed.

Theorem key_wait_resumes : forall r k, r_state r = StRunning -> r_cont r = StInkey ->
  let r' := fst (do_cont r) in
  snd (do_cont r) = Ok (Some EvRunning) /\ r_state r' = StInkey /\ r_pc r' = r_cont_pc r /\ r_stack r' = r_stack r
  /\ r_vars r' = r_vars r /\ rt_execute O r' k = Ok (r', EvInkey).
Proof.
  intros r k Hr Hc. destruct (cont_restores r StInkey Hc eq_refl Hr) as [Hf Hs]. cbn zeta. rewrite Hf, Hs.
  split; [reflexivity |]. split; [reflexivity |]. split; [reflexivity |]. split; [reflexivity |]. split; [reflexivity |].
  apply key_wait_asks_again. reflexivity.
Qed.

End Cont.
