(* C15 at the level of the runtime: in every state reachable through enter / execute / interrupt the stored
   lines ascend strictly, and a numbered line / DELETE act on the abstract map exactly as specified. *)
From BL Require Import Base.Prelude Base.Floats Mach.Val Mach.Ops Mach.Func Mach.Var
     Lang.Token Lang.Lex Lang.Ast Lang.Parse Mach.Compile Mach.Listing Mach.Runtime
     Proofs.RMFrame Proofs.Dirty Proofs.Store Proofs.LexTotal.
From Coq Require Import Lia.
Local Open Scope N_scope.

Definition Sorted (r : rt) : Prop := asc (ls_lines (r_listing r)).

Lemma sorted_frame : forall r r', r_listing r' = r_listing r -> r_dirty r' = r_dirty r ->
  l_ops (pg_link (r_prog r')) = l_ops (pg_link (r_prog r)) -> Sorted r -> Sorted r'.
Proof. intros r r' E _ _ H. unfold Sorted. rewrite E. exact H. Qed.

(* RENUM rebuilds the listing by inserting the renumbered lines one by one *)
Lemma renum_sorted : forall l a b c l', listing_renum l a b c = Ok l' -> asc (ls_lines l').
Proof.
  intros l a b c l' H. unfold listing_renum in H. destruct (c =? 0); [discriminate |].
  destruct (renum_changes _ _ _ _ _ _ _) as [ch | | |]; cbn in H; try discriminate.
  match type of H with bind ?f _ = _ => destruct f as [ls | | |] eqn:Ef end; cbn in H; try discriminate.
  injection H as <-. cbn.
  assert (Hinv : forall lines acc ls, (forall x, acc = Ok x -> asc x) ->
            fold_left (fun acc e => do ls <- acc; do nl <- line_renum ch (Some (fst e), snd e);
                                    match fst nl with Some n => Ok (lines_insert ls n (snd nl)) | None => Ok ls end) lines acc = Ok ls -> asc ls).
  { induction lines as [| e r IH]; intros acc ls0 Hacc Hf; cbn in Hf; [exact (Hacc _ Hf) |].
    refine (IH _ _ _ Hf). intros x Hx. destruct acc as [y | | |]; cbn in Hx; try discriminate.
    destruct (line_renum ch (Some (fst e), snd e)) as [nl | | |]; cbn in Hx; try discriminate.
    destruct (fst nl); injection Hx as <-; [apply insert_asc |]; apply Hacc; reflexivity. }
  refine (Hinv _ _ _ _ Ef). intros x Hx. injection Hx as <-. constructor.
Qed.

Section Rt.
Variable O : oracle.

Definition all_ops (_ : opcode) := true.

Lemma sorted_edit_ok : forall h op, is_edit_op op = true -> all_ops op = true -> hoare Sorted Sorted (exec_op O h op).
Proof.
  intros h op He _. apply (tr_edit_ops O Sorted sorted_frame Sorted); try exact He.
  - intros r H. unfold Sorted. cbn. constructor.
  - intros r a b H. unfold Sorted. cbn. apply filter_asc. exact H.
  - intros r l a b c H E. unfold Sorted. cbn. exact (renum_sorted _ _ _ _ _ E).
  - intros r H. exact H.
Qed.

Lemma sorted_prog_allowed : forall r op, Sorted r -> nthN (l_ops (pg_link (r_prog r))) (r_pc r) = Some op -> all_ops op = true.
Proof. reflexivity. Qed.

Definition sorted_execute := tr_rt_execute O Sorted sorted_frame all_ops sorted_edit_ok sorted_prog_allowed.

Lemma sorted_enter : forall r s r' b, Sorted r -> rt_enter O r s = Ok (r', b) -> Sorted r'.
Proof.
  intros r s r' b H E. unfold rt_enter in E.
  assert (Hin : Sorted (enter_input O r s)) by (apply (tr_enter_input O Sorted sorted_frame); exact H).
  assert (Hik : Sorted (enter_inkey O r s)) by (apply (tr_enter_inkey O Sorted sorted_frame); exact H).
  assert (Hrest : (if MAX_LINE_LEN <? utf8_len s
                   then Ok (set_state r (StRuntimeError (mkErr E_LineBufferOverflow None (0, 0))), false)
                   else do l <- line_new s;
                        match fst l with
                        | None => match snd l with [] => Ok (r, false) | _ => Ok (enter_direct r l, true) end
                        | Some _ => do r' <- enter_indirect r l; Ok (r', false)
                        end) = Ok (r', b) -> Sorted r').
  { destruct (MAX_LINE_LEN <? utf8_len s); [intros E2; injection E2 as <- _; exact H |].
    destruct (line_new s) as [l | | |]; cbn [bind]; try discriminate.
    destruct (fst l) as [n |] eqn:Efl.
    - unfold enter_indirect. rewrite Efl. destruct (snd l) as [| t ts]; cbn [bind]; intros E2; injection E2 as <- _; unfold Sorted; cbn.
      + apply remove_asc. exact H.
      + apply insert_asc. exact H.
    - destruct (snd l); intros E2; injection E2 as <- _; [exact H |].
      unfold Sorted. rewrite (proj1 (direct_keeps_lines r l)). exact H. }
  destruct (r_state r); try exact (Hrest E); injection E as <- _; unfold Sorted in *; cbn; assumption.
Qed.

Lemma sorted_interrupt : forall r, Sorted r -> Sorted (rt_interrupt r).
Proof. intros r H. unfold Sorted. rewrite (proj2 (dirty_tracks_edits_interrupt r)). exact H. Qed.

(* every state the public API can reach from start-up *)
Inductive reachable : rt -> Prop :=
| reach_start : reachable rt_default
| reach_enter : forall r s r' b, reachable r -> rt_enter O r s = Ok (r', b) -> reachable r'
| reach_execute : forall r n r' e, reachable r -> rt_execute O r n = Ok (r', e) -> reachable r'
| reach_interrupt : forall r, reachable r -> reachable (rt_interrupt r)
| reach_snapshot : forall r hold, reachable r -> reachable (rt_get_listing r hold)
| reach_drop : forall r, reachable r -> reachable (rt_drop_listing r).

Theorem reachable_sorted : forall r, reachable r -> Sorted r.
Proof.
  induction 1 as [| r s r' b _ IH E | r n r' e _ IH E | r _ IH | r hold _ IH | r _ IH].
  - constructor.
  - exact (sorted_enter _ _ _ _ IH E).
  - exact (sorted_execute _ _ _ _ IH E).
  - exact (sorted_interrupt _ IH).
  - destruct hold; exact IH.
  - exact IH.
Qed.

(* what a numbered line does to the abstract map, in any reachable state *)
Theorem numbered_line_effect : forall r s n toks r' b k, reachable r ->
  (match r_state r with StInput | StInkey => False | _ => True end) ->
  utf8_len s <= MAX_LINE_LEN -> lex s = Ok (Some n, toks) -> rt_enter O r s = Ok (r', b) ->
  n <= 65529 /\
  get (ls_lines (r_listing r')) k =
    if n =? k then (match toks with [] => None | _ => Some toks end) else get (ls_lines (r_listing r)) k.
Proof.
  intros r s n toks r' b k Hr Hst Hlen Hlex E. split; [exact (lex_line_number_bound _ _ _ Hlex) |].
  pose proof (reachable_sorted r Hr) as Hs. unfold Sorted in Hs.
  unfold rt_enter in E. destruct (N.ltb_spec MAX_LINE_LEN (utf8_len s)); [lia |].
  unfold line_new in E. rewrite Hlex in E. cbn [bind fst snd] in E.
  assert (E2 : (do r'0 <- enter_indirect r (Some n, toks); Ok (r'0, false)) = Ok (r', b))
    by (destruct (r_state r); try contradiction; exact E).
  unfold enter_indirect in E2. cbn [fst snd] in E2. destruct toks as [| t ts]; cbn [bind] in E2; injection E2 as <- _; cbn.
  - apply get_remove.
  - apply get_insert. exact Hs.
Qed.

End Rt.
