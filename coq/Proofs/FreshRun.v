(* C04 / C12: compiling the listing does not depend on the program compiled before, and a direct line entered after an edit
   finds the same machine -- as far as a run can tell -- whatever the history was. *)
From BL Require Import Base.Prelude Base.Floats Mach.Val Mach.Ops Mach.Func Mach.Var
     Lang.Token Lang.Lex Lang.Ast Lang.Parse Mach.Compile Mach.Listing Mach.Runtime Proofs.Slicing Proofs.ExprCompile Proofs.Swap Proofs.RunForgets.
From Coq Require Import Lia.
Local Open Scope N_scope.

(* the DATA pointer lives in the link object; everything the compiler does carries it along untouched *)
Definition with_dp (l : link) (d : N) : link :=
  mkLink (l_cur l) (l_ops l) (l_data l) d (l_direct_set l) (l_syms l) (l_unlinked l) (l_whiles l).
Definition with_pdp (p : program) (d : N) : program := with_link p (with_dp (pg_link p) d).

Lemma push_symbol_dp s l d : l_push_symbol s (with_dp l d) = (with_dp (fst (l_push_symbol s l)) d, snd (l_push_symbol s l)).
Proof. reflexivity. Qed.
Lemma push_dp op l d : l_push op (with_dp l d) = (with_dp (fst (l_push op l)) d, snd (l_push op l)).
Proof. reflexivity. Qed.
Lemma append_dp f l d : l_append f (with_dp l d) = (with_dp (fst (l_append f l)) d, snd (l_append f l)).
Proof.
  unfold l_append. cbn [with_dp l_direct_set l_ops l_data l_cur l_syms l_unlinked l_whiles l_data_pos set_data].
  destruct (l_direct_set l && match l_data f with [] => false | _ => true end); [reflexivity |].
  destruct (MAX_POOL <? lenN (l_ops l ++ l_ops f)); [reflexivity |].
  destruct (MAX_POOL <? lenN (l_data l ++ l_data f)); reflexivity.
Qed.

Lemma link_link_dp l d : link_link (with_dp l d) = (with_dp (fst (link_link l)) d, snd (link_link l)).
Proof.
  unfold link_link. cbn [with_dp l_whiles l_syms l_unlinked l_ops l_data l_data_pos l_direct_set].
  destruct (link_whiles_loop (l_whiles l) [] (l_syms l) (l_unlinked l) []) as [unl werrs].
  match goal with |- context [fold_left ?f unl ?a] => destruct (fold_left f unl a) as [ops errs] end. reflexivity.
Qed.

Lemma pdp_link p d : pg_link (with_pdp p d) = with_dp (pg_link p) d. Proof. reflexivity. Qed.

Lemma prog_error_dp p e d : prog_error (with_pdp p d) e = with_pdp (prog_error p e) d. Proof. reflexivity. Qed.
Lemma prog_raw_error_dp p e d : prog_raw_error (with_pdp p d) e = with_pdp (prog_raw_error p e) d. Proof. reflexivity. Qed.

Lemma fold_prog_error_dp : forall errs p d, fold_left prog_error errs (with_pdp p d) = with_pdp (fold_left prog_error errs p) d.
Proof. induction errs as [| e r IH]; intros p d; cbn [fold_left]; [reflexivity |]. rewrite prog_error_dp. apply IH. Qed.

Lemma append_frags_dp : forall fs p d, append_stmt_frags (with_pdp p d) fs = with_pdp (append_stmt_frags p fs) d.
Proof.
  induction fs as [| f r IH]; intros p d; cbn [append_stmt_frags]; [reflexivity |]. rewrite pdp_link, append_dp.
  destruct (l_append (snd f) (pg_link p)) as [l' [u | e | |]]; cbn [fst snd]; try reflexivity.
  change (with_link (with_pdp p d) (with_dp l' d)) with (with_pdp (with_link p l') d). apply IH.
Qed.

Lemma codegen_ast_dp p ast d : codegen_ast (with_pdp p d) ast = with_pdp (codegen_ast p ast) d.
Proof. unfold codegen_ast. rewrite fold_prog_error_dp. apply append_frags_dp. Qed.

Lemma program_link_dp p d : program_link (with_pdp p d) = with_pdp (program_link p) d.
Proof.
  unfold program_link. rewrite !pdp_link. cbn [with_dp l_ops l_syms].
  set (c := last_is_end (l_ops (pg_link p)) && negb (existsb _ (l_syms (pg_link p)))).
  assert (Hstep : forall q, (let '(l2, lerrs) := link_link (pg_link (with_pdp q d)) in
                             let errs := match pg_errors (with_pdp q d) with [] => lerrs | _ => pg_errors (with_pdp q d) end in
                             if pg_direct (with_pdp q d) =? 0 then
                               mkProg [] errs (lenN (l_ops l2)) (pg_line (with_pdp q d))
                                 (mkLink (l_cur l2) (l_ops l2) (l_data l2) (l_data_pos l2) true
                                    (zassoc_set 65530 (lenN (l_ops l2), lenN (l_data l2)) (l_syms l2)) (l_unlinked l2) (l_whiles l2))
                             else mkProg errs (pg_ind_errors (with_pdp q d)) (pg_direct (with_pdp q d)) (pg_line (with_pdp q d)) l2)
                          = with_pdp (let '(l2, lerrs) := link_link (pg_link q) in
                             let errs := match pg_errors q with [] => lerrs | _ => pg_errors q end in
                             if pg_direct q =? 0 then
                               mkProg [] errs (lenN (l_ops l2)) (pg_line q)
                                 (mkLink (l_cur l2) (l_ops l2) (l_data l2) (l_data_pos l2) true
                                    (zassoc_set 65530 (lenN (l_ops l2), lenN (l_data l2)) (l_syms l2)) (l_unlinked l2) (l_whiles l2))
                             else mkProg errs (pg_ind_errors q) (pg_direct q) (pg_line q) l2) d).
  { intros q. rewrite pdp_link, link_link_dp. destruct (link_link (pg_link q)) as [l2 lerrs]. cbn [fst snd with_pdp with_link pg_errors pg_direct pg_line pg_ind_errors].
    destruct (pg_direct q =? 0); reflexivity. }
  destruct c.
  - exact (Hstep p).
  - rewrite push_dp. destruct (l_push OpEnd (pg_link p)) as [l' [u | e | |]]; cbn [fst snd].
    + change (with_link (with_pdp p d) (with_dp l' d)) with (with_pdp (with_link p l') d). exact (Hstep _).
    + change (prog_raw_error (with_link (with_pdp p d) (with_dp l' d)) e) with (with_pdp (prog_raw_error (with_link p l') e) d). exact (Hstep _).
    + change (with_link (with_pdp p d) (with_dp l' d)) with (with_pdp (with_link p l') d). exact (Hstep _).
    + change (with_link (with_pdp p d) (with_dp l' d)) with (with_pdp (with_link p l') d). exact (Hstep _).
Qed.

Definition close_direct (p3 : program) : program :=
  match l_push OpEnd (pg_link p3) with
  | (l', Ok _) => with_link p3 l'
  | (l', Err e) => prog_raw_error (with_link p3 l') e
  | (l', _) => with_link p3 l'
  end.
Definition open_direct (p0 : program) : program :=
  mkProg [] (pg_ind_errors p0) (pg_direct p0) None (set_ops (pg_link p0) (firstnN (pg_direct p0) (l_ops (pg_link p0)))).

Lemma codegen_direct_eq p ast : codegen_line p None ast =
  match ast with
  | Ok stmts => close_direct (codegen_ast (open_direct (program_link p)) stmts)
  | Err e => prog_raw_error (open_direct (program_link p)) e
  | _ => open_direct (program_link p)
  end.
Proof. reflexivity. Qed.

Lemma close_direct_dp p d : close_direct (with_pdp p d) = with_pdp (close_direct p) d.
Proof. unfold close_direct. rewrite pdp_link, push_dp. destruct (l_push OpEnd (pg_link p)) as [l' [u | e | |]]; reflexivity. Qed.
Lemma open_direct_dp p d : open_direct (with_pdp p d) = with_pdp (open_direct p) d.
Proof. reflexivity. Qed.

Lemma codegen_line_dp p num ast d : codegen_line (with_pdp p d) num ast = with_pdp (codegen_line p num ast) d.
Proof.
  destruct num as [n |].
  - unfold codegen_line.
    cbn [with_pdp with_link pg_errors pg_ind_errors pg_direct pg_link l_push_symbol with_dp l_cur l_ops l_data l_data_pos l_direct_set l_syms l_unlinked l_whiles].
    destruct ast as [stmts | e | |]; try reflexivity.
    match goal with |- codegen_ast ?q stmts = _ => change q with (with_pdp (mkProg (pg_errors p) (pg_ind_errors p) (pg_direct p) (Some n)
          (mkLink (l_cur (pg_link p)) (l_ops (pg_link p)) (l_data (pg_link p)) (l_data_pos (pg_link p)) (l_direct_set (pg_link p))
             (zassoc_set (Z.of_N n) (lenN (l_ops (pg_link p)), lenN (l_data (pg_link p))) (l_syms (pg_link p))) (l_unlinked (pg_link p)) (l_whiles (pg_link p)))) d) end.
    apply codegen_ast_dp.
  - rewrite !codegen_direct_eq, program_link_dp, open_direct_dp. destruct ast as [stmts | e | |]; try reflexivity.
    rewrite codegen_ast_dp. apply close_direct_dp.
Qed.

(* compiling the stored lines: the program compiled before enters only through its DATA pointer (and its pending
   WHILE/WEND records, which are empty after every link) *)
Lemma program_clear_any p p' : l_whiles (pg_link p) = l_whiles (pg_link p') ->
  program_clear p' = with_pdp (program_clear p) (l_data_pos (pg_link p')).
Proof. intros H. unfold program_clear, with_pdp, with_link, with_dp. cbn. rewrite H. reflexivity. Qed.

Theorem compile_listing_any : forall ls p p', l_whiles (pg_link p) = l_whiles (pg_link p') ->
  compile_listing p' ls = with_pdp (compile_listing p ls) (l_data_pos (pg_link p')).
Proof.
  intros ls p p' H. unfold compile_listing. rewrite (program_clear_any p p' H). generalize (program_clear p) as q. generalize (l_data_pos (pg_link p')) as d.
  induction ls as [| e r IH]; intros d q; cbn [fold_left]; [reflexivity |]. rewrite codegen_line_dp. apply IH.
Qed.

(* two machines whose stored lines were edited (flag up) and agree on the listing and on what no statement resets (prompt
   text, live snapshots, trace mode, cursor column, position in the entropy stream, the dead continuation address): after the
   same direct line is entered they agree on everything static -- the compiled code, the direct-mode code, the entry
   point -- whatever program was compiled before and whatever variables, stack, functions, DATA pointer, random state or
   continuation state they held *)
Theorem edited_machines_agree : forall r r' l,
  r_dirty r = true -> r_dirty r' = true -> r_listing r = r_listing r' ->
  l_whiles (pg_link (r_prog r)) = l_whiles (pg_link (r_prog r')) ->
  r_prompt r = r_prompt r' -> r_snap r = r_snap r' -> r_tron r = r_tron r' -> r_col r = r_col r' -> r_ent r = r_ent r' ->
  r_cont_pc r = r_cont_pc r' ->
  static_eq (enter_direct r l) (enter_direct r' l).
Proof.
  intros r r' l Hd Hd' Hl Hw Hp Hs Ht Hc He Hcp. unfold enter_direct. rewrite Hd, Hd'.
  cbn [r_prog r_listing set_cont set_fns set_stack_len set_dirty set_prog].
  rewrite <- Hl. rewrite (compile_listing_any (ls_lines (r_listing r)) (r_prog r) (r_prog r') Hw).
  rewrite codegen_line_dp, program_link_dp.
  set (P := program_link (codegen_line (compile_listing (r_prog r) (ls_lines (r_listing r))) None (parse None (snd l)))).
  unfold static_eq. cbn. repeat split; try assumption; try reflexivity.
Qed.

Section FreshRun.
Variable O : oracle.

(* ... and so, when that direct line starts with RUN's CLEAR (RUN, RUN n), everything the fetch loop does from there is the
   same on both: RUN after any history of edits and runs = RUN in any other machine holding the same listing *)
Corollary run_after_edit_is_fresh : forall r r' l n h,
  r_dirty r = true -> r_dirty r' = true -> r_listing r = r_listing r' ->
  l_whiles (pg_link (r_prog r)) = l_whiles (pg_link (r_prog r')) ->
  r_prompt r = r_prompt r' -> r_snap r = r_snap r' -> r_tron r = r_tron r' -> r_col r = r_col r' -> r_ent r = r_ent r' ->
  r_cont_pc r = r_cont_pc r' ->
  nthN (l_ops (pg_link (r_prog (enter_direct r l)))) (r_pc (enter_direct r l)) = Some OpClear ->
  prog_line_for (enter_direct r l) (r_pc (enter_direct r l)) = None ->
  exec_loop_x O (S n) h (enter_direct r l) = exec_loop_x O (S n) h (enter_direct r' l).
Proof.
  intros r r' l n h Hd Hd' Hl Hw Hp Hs Ht Hc He Hcp Hop Hln.
  apply run_forgets; [apply edited_machines_agree; assumption | exact Hop | right; exact Hln].
Qed.

End FreshRun.

(* ---------- the premises are met ---------- *)
From Coq Require Import String.
Definition stored : listing := mkListing [(10, match lex (s2l "PRINT 1") with Ok (_, t) => t | _ => [] end)] [] [].
Definition edited_fresh : rt := set_dirty (set_listing rt_default stored) true.
Definition edited_used : rt :=
  set_cont (set_fns (set_vars (set_stack_len edited_fresh [VInt 3; VRet 7] 2) (fst (match var_store vars_empty [65] (VInt 5) with Ok v => (v, tt) | _ => (vars_empty, tt) end)))
                    [([70; 78; 65], (1, 9))]) StRunning.
Definition run_line : line := match line_new (s2l "RUN") with Ok l => l | _ => (None, []) end.

Example fresh_run_premises :
  r_dirty edited_fresh = true /\ r_dirty edited_used = true /\ r_listing edited_fresh = r_listing edited_used
  /\ edited_fresh <> edited_used
  /\ nthN (l_ops (pg_link (r_prog (enter_direct edited_fresh run_line)))) (r_pc (enter_direct edited_fresh run_line)) = Some OpClear
  /\ prog_line_for (enter_direct edited_fresh run_line) (r_pc (enter_direct edited_fresh run_line)) = None.
Proof. vm_compute. repeat split; try reflexivity. discriminate. Qed.
