(* C16: the whole scanner, post passes included, does not depend on letter case -- for every text without a string literal
   and without a remark (inside those, every character is kept as typed, so case matters there by design). *)
From BL Require Import Base.Prelude Lang.Token Mach.Func Lang.Lex Proofs.CaseFold.
From Coq Require Import Lia.
Local Open Scope N_scope.

Lemma same_letters_refl a : same_letters a a. Proof. reflexivity. Qed.
Lemma same_letters_cons c c' a b : to_upper c = to_upper c' -> same_letters a b -> same_letters (c :: a) (c' :: b).
Proof. unfold same_letters. intros H1 H2. cbn [map]. rewrite H1, H2. reflexivity. Qed.
Lemma same_letters_inv c c' a b : same_letters (c :: a) (c' :: b) -> to_upper c = to_upper c' /\ same_letters a b.
Proof. unfold same_letters. cbn [map]. intros H. injection H as H1 H2. split; assumption. Qed.
Lemma same_letters_nil_l b : same_letters [] b -> b = [].
Proof. unfold same_letters. destruct b; [reflexivity | discriminate]. Qed.
Lemma same_letters_nil_r a : same_letters a [] -> a = [].
Proof. unfold same_letters. destruct a; [reflexivity | discriminate]. Qed.

(* a character that is not a letter has no other spelling *)
Lemma nonletter_eq c d : to_upper c = to_upper d -> is_alpha c = false -> c = d.
Proof.
  intros H Ha. destruct (to_upper_cases c d H) as [E | [[Hc ->] | [Hd ->]]]; [exact E | |].
  - exfalso. unfold is_alpha in Ha. rewrite (proj2 (lower_range c) Hc), Bool.orb_true_r in Ha. discriminate.
  - exfalso. unfold is_alpha in Ha. rewrite (proj2 (upper_range (d - 32))) in Ha by lia. discriminate.
Qed.

Lemma eqb_nonletter c d k : to_upper c = to_upper d -> is_alpha k = false -> (c =? k) = (d =? k).
Proof.
  intros H Hk. destruct (N.eqb_spec c k) as [-> | Hn].
  - rewrite <- (nonletter_eq k d H Hk). symmetry. apply N.eqb_refl.
  - destruct (N.eqb_spec d k) as [-> | _]; [| reflexivity]. exfalso. apply Hn. symmetry. apply (nonletter_eq k c (eq_sym H) Hk).
Qed.

(* ---------- blanks ---------- *)
Lemma ws_loop_case : forall cs cs' n, same_letters cs cs' ->
  fst (ws_loop cs n) = fst (ws_loop cs' n) /\ same_letters (snd (ws_loop cs n)) (snd (ws_loop cs' n)).
Proof.
  induction cs as [| c r IH]; intros cs' n H.
  - rewrite (same_letters_nil_l _ H). split; reflexivity.
  - destruct cs' as [| c' r']; [discriminate (same_letters_nil_r _ H) |]. destruct (same_letters_inv _ _ _ _ H) as [Hc Hr].
    cbn [ws_loop]. destruct (to_upper_class c c' Hc) as (_ & _ & _ & Ew). rewrite <- Ew.
    destruct (is_ws c); [apply IH; exact Hr | cbn [fst snd]; split; [reflexivity | exact H]].
Qed.

(* ---------- numbers: the exponent letters are normalised, a pushed-back letter comes back in upper case ---------- *)
Definition expl (c : N) : bool := (c =? 69) || (c =? 101) || (c =? 68) || (c =? 100).
(* the characters a number can be made of *)
Definition nc (c : N) : bool := is_digit c || (c =? 46) || (c =? 43) || (c =? 45) || expl c || (c =? 33) || (c =? 35) || (c =? 37).
Definition nc_head (cs : str) : Prop := match cs with [] => True | c :: _ => nc c = true end.
Definition norm_e (c : N) : N := if c =? 101 then 69 else if c =? 100 then 68 else c.

Lemma expl_case c d : to_upper c = to_upper d -> expl c = expl d.
Proof.
  intros H. unfold expl. destruct (to_upper_cases c d H) as [-> | [[Hl ->] | [Hl ->]]]; [reflexivity | |];
    repeat match goal with |- context [?a =? ?b] => destruct (N.eqb_spec a b) end; try reflexivity; lia.
Qed.

Lemma norm_e_case c d : to_upper c = to_upper d -> nc c = true -> norm_e c = norm_e d.
Proof.
  intros H Hn. unfold norm_e. destruct (to_upper_cases c d H) as [-> | [[Hl ->] | [Hl ->]]]; [reflexivity | |].
  - (* c lower case: among the number characters only e and d *)
    unfold nc, expl, is_digit in Hn.
    repeat match goal with |- context [?a =? ?b] => destruct (N.eqb_spec a b) end; try reflexivity; try lia.
    exfalso. repeat match type of Hn with context [?a =? ?b] => destruct (N.eqb_spec a b); try lia end.
    destruct (N.leb_spec 48 c), (N.leb_spec c 57); cbn in Hn; try discriminate; lia.
  - unfold nc, expl, is_digit in Hn.
    repeat match goal with |- context [?a =? ?b] => destruct (N.eqb_spec a b) end; try reflexivity; try lia.
    exfalso. repeat match type of Hn with context [?a =? ?b] => destruct (N.eqb_spec a b); try lia end.
    destruct (N.leb_spec 48 (d - 32)), (N.leb_spec (d - 32) 57); cbn in Hn; try discriminate; lia.
Qed.

Definition num_rel (x y : res (token * str)) : Prop :=
  match x, y with
  | Ok (t, r), Ok (t', r') => t = t' /\ same_letters r r'
  | Err e, Err e' => e = e'
  | Panic, Panic => True
  | Hang, Hang => True
  | _, _ => False
  end.

Lemma number_loop_case : forall cs cs' s d dec ex, same_letters cs cs' -> nc_head cs ->
  num_rel (number_loop cs s d dec ex) (number_loop cs' s d dec ex).
Proof.
  assert (Hfin : forall (s : str) (d : N) (dec ex : bool) (r r' : str), same_letters r r' ->
            num_rel (let s' := rev s in
                     if 7 <? d then Ok (TLit (LDbl s'), r)
                     else if negb ex && negb dec && (match parse_i16 s' with Some _ => true | None => false end) then Ok (TLit (LInt s'), r)
                     else Ok (TLit (LSng s'), r))
                    (let s' := rev s in
                     if 7 <? d then Ok (TLit (LDbl s'), r')
                     else if negb ex && negb dec && (match parse_i16 s' with Some _ => true | None => false end) then Ok (TLit (LInt s'), r')
                     else Ok (TLit (LSng s'), r'))).
  { intros s d dec ex r r' Hr. cbv zeta. destruct (7 <? d); [split; [reflexivity | exact Hr] |].
    destruct (negb ex && negb dec && _); split; try reflexivity; exact Hr. }
  induction cs as [| c0 rest IH]; intros cs' s d dec ex H Hnc.
  - rewrite (same_letters_nil_l _ H). cbn [number_loop]. apply (Hfin s d dec ex [] []). reflexivity.
  - destruct cs' as [| c0' rest']; [discriminate (same_letters_nil_r _ H) |]. destruct (same_letters_inv _ _ _ _ H) as [Hc Hr].
    cbn [nc_head] in Hnc. cbn [number_loop]. fold (norm_e c0). fold (norm_e c0'). rewrite <- (norm_e_case c0 c0' Hc Hnc). set (ch := norm_e c0).
    destruct (ch =? 33); [split; [reflexivity | exact Hr] |].
    destruct (ch =? 35); [split; [reflexivity | exact Hr] |].
    destruct (ch =? 37); [split; [reflexivity | exact Hr] |].
    destruct rest as [| pk r2], rest' as [| pk' r2'].
    + apply Hfin. reflexivity.
    + discriminate (same_letters_nil_l _ Hr).
    + discriminate (same_letters_nil_r _ Hr).
    + destruct (same_letters_inv _ _ _ _ Hr) as [Hpk Hr2].
      destruct (to_upper_class pk pk' Hpk) as (_ & Ed & _ & _).
      change ((pk' =? 69) || (pk' =? 101) || (pk' =? 68) || (pk' =? 100)) with (expl pk').
      change ((pk =? 69) || (pk =? 101) || (pk =? 68) || (pk =? 100)) with (expl pk).
      rewrite <- (eqb_nonletter pk pk' 43 Hpk eq_refl), <- (eqb_nonletter pk pk' 45 Hpk eq_refl), <- (eqb_nonletter pk pk' 46 Hpk eq_refl),
              <- (eqb_nonletter pk pk' 33 Hpk eq_refl), <- (eqb_nonletter pk pk' 35 Hpk eq_refl), <- (eqb_nonletter pk pk' 37 Hpk eq_refl),
              <- Ed, <- (expl_case pk pk' Hpk).
      (* now both sides branch on the same conditions *)
      destruct (((ch =? 69) || (ch =? 68)) && ((pk =? 43) || (pk =? 45))) eqn:E1.
      { apply IH; [exact Hr |]. cbn [nc_head]. unfold nc. apply andb_prop in E1. destruct E1 as [_ E1]. apply Bool.orb_prop in E1.
        destruct E1 as [E1 | E1]; rewrite E1; rewrite ?Bool.orb_true_r; reflexivity. }
      destruct (((ch =? 69) || (ch =? 68)) && negb (is_digit pk)) eqn:E2.
      { apply Hfin. apply same_letters_cons; [reflexivity | exact Hr]. }
      destruct (is_digit pk) eqn:E3.
      { apply IH; [exact Hr |]. cbn [nc_head]. unfold nc. rewrite E3. reflexivity. }
      match goal with |- context [negb ?e && negb ?dd && (pk =? 46)] => destruct (negb e && negb dd && (pk =? 46)) eqn:E4 end.
      { apply IH; [exact Hr |]. cbn [nc_head]. unfold nc. apply andb_prop in E4. destruct E4 as [_ E4]. rewrite E4, ?Bool.orb_true_r. reflexivity. }
      match goal with |- context [negb ?e && expl pk] => destruct (negb e && expl pk) eqn:E5 end.
      { apply IH; [exact Hr |]. cbn [nc_head]. unfold nc. apply andb_prop in E5. destruct E5 as [_ E5]. rewrite E5, ?Bool.orb_true_r. reflexivity. }
      destruct ((pk =? 33) || (pk =? 35) || (pk =? 37)) eqn:E6.
      { apply IH; [exact Hr |]. cbn [nc_head]. unfold nc. apply Bool.orb_prop in E6. destruct E6 as [E6 | E6]; [apply Bool.orb_prop in E6; destruct E6 as [E6 | E6] |];
          rewrite E6, ?Bool.orb_true_r; reflexivity. }
      apply Hfin. exact Hr.
Qed.

(* ---------- & literals ---------- *)
Lemma to_upper_idem c : to_upper (to_upper c) = to_upper c.
Proof.
  unfold to_upper. destruct (is_lower c) eqn:E; [| rewrite E; reflexivity]. apply lower_range in E.
  assert (is_lower (c - 32) = false) by (apply not_true_is_false; intros F; apply lower_range in F; lia). rewrite H. reflexivity.
Qed.

Lemma radix_loop_case : forall cs cs' hex acc, same_letters cs cs' ->
  fst (radix_loop cs hex acc) = fst (radix_loop cs' hex acc) /\ same_letters (snd (radix_loop cs hex acc)) (snd (radix_loop cs' hex acc)).
Proof.
  induction cs as [| c r IH]; intros cs' hex acc H.
  - rewrite (same_letters_nil_l _ H). split; reflexivity.
  - destruct cs' as [| c' r']; [discriminate (same_letters_nil_r _ H) |]. destruct (same_letters_inv _ _ _ _ H) as [Hc Hr].
    cbn [radix_loop]. rewrite <- Hc.
    match goal with |- context [if ?b then _ else _] => destruct b end.
    + apply IH. exact Hr.
    + cbn [fst snd]. split; [reflexivity |]. apply same_letters_cons; [reflexivity | exact Hr].
Qed.

Lemma radix_case cs cs' : same_letters cs cs' ->
  fst (lex_radix cs) = fst (lex_radix cs') /\ same_letters (snd (lex_radix cs)) (snd (lex_radix cs')).
Proof.
  intros H. unfold lex_radix. destruct cs as [| h r].
  - rewrite (same_letters_nil_l _ H). split; reflexivity.
  - destruct cs' as [| h' r']; [discriminate (same_letters_nil_r _ H) |]. destruct (same_letters_inv _ _ _ _ H) as [Hh Hr].
    assert (Eh : ((h =? 72) || (h =? 104)) = ((h' =? 72) || (h' =? 104))).
    { destruct (to_upper_cases h h' Hh) as [-> | [[Hl ->] | [Hl ->]]]; [reflexivity | |];
        repeat match goal with |- context [?a =? ?b] => destruct (N.eqb_spec a b) end; try reflexivity; lia. }
    rewrite <- Eh. destruct ((h =? 72) || (h =? 104)).
    + destruct (radix_loop_case r r' true [] Hr) as [E1 E2]. destruct (radix_loop r true []), (radix_loop r' true []). cbn [fst snd] in *. subst. split; [reflexivity | exact E2].
    + destruct (radix_loop_case (h :: r) (h' :: r') false [] H) as [E1 E2]. destruct (radix_loop (h :: r) false []), (radix_loop (h' :: r') false []). cbn [fst snd] in *. subst. split; [reflexivity | exact E2].
Qed.

(* ---------- punctuation and unknown characters: no letter is consumed ---------- *)
Lemma minutia_loop_case : forall cs cs' acc, same_letters cs cs' -> match cs with c :: _ => is_alpha c = false | [] => True end ->
  fst (minutia_loop cs acc) = fst (minutia_loop cs' acc) /\ same_letters (snd (minutia_loop cs acc)) (snd (minutia_loop cs' acc)).
Proof.
  induction cs as [| c r IH]; intros cs' acc H Hna.
  - rewrite (same_letters_nil_l _ H). split; reflexivity.
  - destruct cs' as [| c' r']; [discriminate (same_letters_nil_r _ H) |]. destruct (same_letters_inv _ _ _ _ H) as [Hc Hr].
    rewrite <- (nonletter_eq c c' Hc Hna). cbn [minutia_loop]. destruct r as [| pk r2], r' as [| pk' r2'].
    + split; reflexivity.
    + discriminate (same_letters_nil_l _ Hr).
    + discriminate (same_letters_nil_r _ Hr).
    + destruct (same_letters_inv _ _ _ _ Hr) as [Hpk _]. destruct (to_upper_class pk pk' Hpk) as (Ea & Ed & _ & Ew). rewrite <- Ea, <- Ed, <- Ew.
      destruct (is_alpha pk) eqn:Eal; cbn [orb]; [split; [reflexivity | exact Hr] |].
      destruct (is_digit pk || is_ws pk); [split; [reflexivity | exact Hr] |]. apply IH; [exact Hr | first [exact Eal | reflexivity]].
Qed.

Lemma minutia_case cs cs' : same_letters cs cs' -> match cs with c :: _ => is_alpha c = false | [] => True end ->
  fst (lex_minutia cs) = fst (lex_minutia cs') /\ same_letters (snd (lex_minutia cs)) (snd (lex_minutia cs')).
Proof.
  intros H Hna. unfold lex_minutia. destruct cs as [| c r].
  - rewrite (same_letters_nil_l _ H). split; reflexivity.
  - destruct cs' as [| c' r']; [discriminate (same_letters_nil_r _ H) |]. destruct (same_letters_inv _ _ _ _ H) as [Hc Hr].
    pose proof (nonletter_eq c c' Hc Hna) as Ec. subst c'. destruct (match_minutia c); [split; [reflexivity | exact Hr] |].
    apply minutia_loop_case; assumption.
Qed.

(* ---------- the token loop ---------- *)
Definition verbatim (t : token) : bool :=
  match t with TLit (LStr _) | TWord WRem1 | TWord WRem2 => true | _ => false end.
Definition no_verbatim (ts : list token) : Prop := forall t, In t ts -> verbatim t = false.

Lemma lex_loop_acc : forall fuel cs acc ts, lex_loop fuel cs acc = Ok ts -> exists more, ts = rev acc ++ more.
Proof.
  induction fuel as [| f IH]; intros cs acc ts H; cbn [lex_loop] in H; [discriminate |].
  destruct cs as [| pk r]; [injection H as <-; exists []; rewrite app_nil_r; reflexivity |].
  assert (Hone : forall t rest, lex_loop f rest (t :: acc) = Ok ts -> exists more, ts = rev acc ++ more).
  { intros t rest E. destruct (IH _ _ _ E) as [more ->]. cbn [rev]. rewrite <- app_assoc. eexists. reflexivity. }
  destruct (is_ws pk); [destruct (ws_loop (pk :: r) 0) as [t rest]; exact (Hone _ _ H) |].
  destruct (is_digit pk || (pk =? 46)).
  { destruct (lex_number (pk :: r)) as [[t rest] | e | |]; try discriminate. cbn [bind] in H. exact (Hone _ _ H). }
  destruct (is_alpha pk).
  { destruct (alpha_loop (pk :: r) [] false []) as [toks rest].
    assert (Hdef : lex_loop f rest (rev toks ++ acc) = Ok ts -> exists more, ts = rev acc ++ more).
    { intros E. destruct (IH _ _ _ E) as [more ->]. rewrite rev_app_distr, rev_involutive, <- app_assoc. eexists. reflexivity. }
    destruct toks as [| t0 more0]; [exact (Hdef H) |]. destruct t0; try exact (Hdef H). destruct w; try exact (Hdef H).
    injection H as <-. eexists. reflexivity. }
  destruct (pk =? 34); [destruct (string_loop r []) as [t rest]; exact (Hone _ _ H) |].
  destruct (pk =? 38); [destruct (lex_radix r) as [t rest]; exact (Hone _ _ H) |].
  destruct (lex_minutia (pk :: r)) as [t rest]. destruct t; try exact (Hone _ _ H). destruct w; try exact (Hone _ _ H).
  injection H as <-. eexists. reflexivity.
Qed.

Lemma in_result_of_acc fuel cs acc ts t : lex_loop fuel cs acc = Ok ts -> In t acc -> In t ts.
Proof. intros H Hin. destruct (lex_loop_acc _ _ _ _ H) as [more ->]. apply in_or_app. left. apply in_rev in Hin. exact Hin. Qed.

Theorem lex_loop_case : forall fuel cs cs' acc ts, same_letters cs cs' -> lex_loop fuel cs acc = Ok ts -> no_verbatim ts ->
  lex_loop fuel cs' acc = Ok ts.
Proof.
  induction fuel as [| f IH]; intros cs cs' acc ts H E Hnv; cbn [lex_loop] in *; [discriminate |].
  destruct cs as [| pk r].
  - rewrite (same_letters_nil_l _ H). exact E.
  - destruct cs' as [| pk' r']; [discriminate (same_letters_nil_r _ H) |]. destruct (same_letters_inv _ _ _ _ H) as [Hpk Hr].
    destruct (to_upper_class pk pk' Hpk) as (Ea & Ed & _ & Ew).
    rewrite <- Ew, <- Ed, <- Ea, <- (eqb_nonletter pk pk' 46 Hpk eq_refl), <- (eqb_nonletter pk pk' 34 Hpk eq_refl), <- (eqb_nonletter pk pk' 38 Hpk eq_refl).
    destruct (is_ws pk).
    { destruct (ws_loop_case (pk :: r) (pk' :: r') 0 H) as [E1 E2]. destruct (ws_loop (pk :: r) 0) as [t rest], (ws_loop (pk' :: r') 0) as [t' rest'].
      cbn [fst snd] in *. subst t'. exact (IH _ _ _ _ E2 E Hnv). }
    destruct (is_digit pk || (pk =? 46)) eqn:Enum.
    { assert (Hnc : nc_head (pk :: r)).
      { cbn [nc_head]. unfold nc. apply Bool.orb_prop in Enum. destruct Enum as [En | En]; rewrite En, ?Bool.orb_true_r; reflexivity. }
      pose proof (number_loop_case (pk :: r) (pk' :: r') [] 0 false false H Hnc) as Hn. unfold lex_number in *.
      destruct (number_loop (pk :: r) [] 0 false false) as [[t rest] | e | |], (number_loop (pk' :: r') [] 0 false false) as [[t' rest'] | e' | |];
        cbn [num_rel] in Hn; try contradiction; try discriminate. destruct Hn as [-> Hrr]. cbn [bind] in *. exact (IH _ _ _ _ Hrr E Hnv). }
    destruct (is_alpha pk) eqn:Eal.
    { destruct (alpha_loop_case (pk :: r) (pk' :: r') [] false [] H) as [E1 E2].
      destruct (alpha_loop (pk :: r) [] false []) as [toks rest], (alpha_loop (pk' :: r') [] false []) as [toks' rest']. cbn [fst snd] in *. subst toks'.
      assert (Hdef : lex_loop f rest (rev toks ++ acc) = Ok ts -> lex_loop f rest' (rev toks ++ acc) = Ok ts) by (intros E0; exact (IH _ _ _ _ E2 E0 Hnv)).
      destruct toks as [| t0 more0]; [exact (Hdef E) |]. destruct t0; try exact (Hdef E). destruct w; try exact (Hdef E).
      (* a remark: excluded *)
      exfalso. injection E as <-. assert (Hv : verbatim (TWord WRem1) = false) by (apply Hnv; apply in_or_app; right; left; reflexivity). discriminate. }
    destruct (pk =? 34).
    { exfalso. destruct (string_loop r []) as [t rest] eqn:Es.
      assert (Ht : verbatim t = true).
      { clear - Es. revert Es. generalize (@nil N). induction r as [| c r IHr]; intros a Es; cbn [string_loop] in Es; [injection Es as <- _; reflexivity |].
        destruct (c =? 34); [injection Es as <- _; reflexivity | exact (IHr _ Es)]. }
      rewrite (Hnv t (in_result_of_acc _ _ _ _ t E (or_introl eq_refl))) in Ht. discriminate. }
    destruct (pk =? 38).
    { destruct (radix_case r r' Hr) as [E1 E2]. destruct (lex_radix r) as [t rest], (lex_radix r') as [t' rest']. cbn [fst snd] in *. subst t'. exact (IH _ _ _ _ E2 E Hnv). }
    destruct (minutia_case (pk :: r) (pk' :: r') H Eal) as [E1 E2].
    destruct (lex_minutia (pk :: r)) as [t rest], (lex_minutia (pk' :: r')) as [t' rest']. cbn [fst snd] in *. subst t'.
    assert (Hdef : lex_loop f rest (t :: acc) = Ok ts -> lex_loop f rest' (t :: acc) = Ok ts) by (intros E0; exact (IH _ _ _ _ E2 E0 Hnv)).
    destruct t; try exact (Hdef E). destruct w; try exact (Hdef E).
    exfalso. injection E as <-. assert (Hv : verbatim (TWord WRem2) = false) by (apply Hnv; apply in_or_app; right; left; reflexivity). discriminate.
Qed.

(* ---------- the line-number prefix ---------- *)
Lemma same_letters_length a b : same_letters a b -> List.length a = List.length b.
Proof. unfold same_letters. intros H. apply (f_equal (@List.length N)) in H. rewrite !map_length in H. exact H. Qed.
Lemma same_letters_skipn k a b : same_letters a b -> same_letters (skipn k a) (skipn k b).
Proof. unfold same_letters. intros H. rewrite <- !skipn_map, H. reflexivity. Qed.

Lemma prefix_len_ge : forall cs sd n, n <= prefix_len cs sd n.
Proof.
  induction cs as [| c r IH]; intros sd n; cbn [prefix_len]; [lia |].
  destruct (sd && is_ws c); [lia |]. destruct (is_digit c); [specialize (IH true (n + 1)); lia |]. destruct (is_ws c); [specialize (IH sd (n + 1)); lia | lia].
Qed.

Lemma prefix_case : forall a b sd n, same_letters a b ->
  prefix_len a sd n = prefix_len b sd n /\ forall k, N.of_nat k <= prefix_len a sd n - n -> firstn k a = firstn k b.
Proof.
  induction a as [| c r IH]; intros b sd n H.
  - rewrite (same_letters_nil_l _ H). split; [reflexivity | intros; reflexivity].
  - destruct b as [| c' r']; [discriminate (same_letters_nil_r _ H) |]. destruct (same_letters_inv _ _ _ _ H) as [Hc Hr].
    destruct (to_upper_class c c' Hc) as (_ & Ed & _ & Ew). cbn [prefix_len]. rewrite <- Ed, <- Ew.
    destruct (sd && is_ws c); [split; [reflexivity |]; intros k Hk; assert (k = 0%nat) by lia; subst; reflexivity |].
    assert (Hstep : forall sd', is_alpha c = false -> 
              prefix_len r sd' (n + 1) = prefix_len r' sd' (n + 1) /\ (forall k, N.of_nat k <= prefix_len r sd' (n + 1) - n -> firstn k (c :: r) = firstn k (c' :: r'))).
    { intros sd' Hna. destruct (IH r' sd' (n + 1) Hr) as [E1 E2]. split; [exact E1 |]. intros k Hk. destruct k as [| k]; [reflexivity |].
      cbn [firstn]. rewrite (nonletter_eq c c' Hc Hna). f_equal. apply E2. pose proof (prefix_len_ge r sd' (n + 1)). lia. }
    destruct (is_digit c) eqn:Edg.
    + apply Hstep. unfold is_alpha, is_upper, is_lower. apply digit_range in Edg.
      destruct (N.leb_spec 65 c), (N.leb_spec 97 c); try lia; reflexivity.
    + destruct (is_ws c) eqn:Ews.
      * apply Hstep. unfold is_ws in Ews. unfold is_alpha, is_upper, is_lower.
        destruct (N.eqb_spec c 32), (N.eqb_spec c 9); try discriminate; subst; reflexivity.
      * split; [reflexivity |]. intros k Hk. assert (k = 0%nat) by lia. subst. reflexivity.
Qed.

Lemma split_case src src' : same_letters src src' ->
  fst (split_line_number src) = fst (split_line_number src') /\ same_letters (snd (split_line_number src)) (snd (split_line_number src')).
Proof.
  intros H. unfold split_line_number. destruct (prefix_case src src' false 0 H) as [Ep Ef]. rewrite <- Ep. set (p := prefix_len src false 0).
  unfold firstnN, skipnN. rewrite <- (Ef (N.to_nat p)) by lia.
  destruct (parse_u16 (trim_start (firstn (N.to_nat p) src))) as [num |]; [| split; [reflexivity | exact H]].
  destruct (num <=? 65529); [| split; [reflexivity | exact H]]. cbn [fst snd]. split; [reflexivity |].
  pose proof (same_letters_skipn (N.to_nat p) src src' H) as Hs.
  destruct (skipn (N.to_nat p) src) as [| c r], (skipn (N.to_nat p) src') as [| c' r'].
  - exact Hs.
  - discriminate (same_letters_nil_l _ Hs).
  - discriminate (same_letters_nil_r _ Hs).
  - destruct (same_letters_inv _ _ _ _ Hs) as [Hc Hr]. rewrite <- (eqb_nonletter c c' 32 Hc eq_refl). destruct (c =? 32); [exact Hr | exact Hs].
Qed.

(* ---------- the whole scanner ---------- *)
(* the tokens before the post passes *)
Definition raw_tokens (src : str) : res (list token) :=
  let body := snd (split_line_number src) in lex_loop (S (List.length body)) body [].

Lemma lex_raw src : lex src = (do ts <- raw_tokens src;
                               Ok (fst (split_line_number src), pp_separate_words (pp_collapse_doubles (pp_collapse_triples (pp_trim_end ts))))).
Proof. unfold lex, raw_tokens. destruct (split_line_number src) as [num body]. reflexivity. Qed.

(* THE THEOREM: a line without a string literal and without a remark scans to the same line number and the same tokens in
   every spelling of its letters -- keywords, identifiers, exponent letters, the H of &H *)
Theorem lex_ignores_case : forall src src' ts, same_letters src src' -> raw_tokens src = Ok ts -> no_verbatim ts -> lex src' = lex src.
Proof.
  intros src src' ts H E Hnv. rewrite !lex_raw. destruct (split_case src src' H) as [En Eb]. rewrite <- En.
  assert (E' : raw_tokens src' = Ok ts).
  { unfold raw_tokens in *. rewrite <- (same_letters_length _ _ Eb). exact (lex_loop_case _ _ _ _ _ Eb E Hnv). }
  rewrite E, E'. reflexivity.
Qed.

From Coq Require Import String.
Example case_example :
  lex (s2l "10 for i=1 to 1e3:print a1;&hff:next") = lex (s2l "10 FOR I=1 TO 1E3:PRINT A1;&HFF:NEXT")
  /\ same_letters (s2l "10 for i=1 to 1e3:print a1;&hff:next") (s2l "10 FOR I=1 TO 1E3:PRINT A1;&HFF:NEXT")
  /\ exists ts, raw_tokens (s2l "10 for i=1 to 1e3:print a1;&hff:next") = Ok ts /\ forallb (fun t => negb (verbatim t)) ts = true.
Proof. split; [vm_compute; reflexivity |]. split; [vm_compute; reflexivity |]. eexists. split; vm_compute; reflexivity. Qed.
