(* C01: the Single that holds a line number n (0 <= n <= 65535, as the parser writes branch targets: f32_of_Z n) denotes n
   both in the compiler's reading (floor, range test, cast) and in the reference reading (truncation).  Proved from
   Flocq's specification of binary32, for every n at once. *)
From BL Require Import Base.Prelude Base.Floats Mach.Val.
From Flocq Require Import Core.Core IEEE754.BinarySingleNaN IEEE754.Binary IEEE754.Bits.
From Coq Require Import Reals Lia Lra.
Local Open Scope Z_scope.

Section LineLit.
Variable n : Z.
Hypothesis Hn : 0 <= n <= 65535.

Definition Bn : binary32 := Binary.binary_normalize 24 128 Hp32 Hpe32 mode_NE n 0 false.

Lemma F2R_int : F2R (Float radix2 n 0) = IZR n.
Proof. unfold F2R. cbn [Fnum Fexp bpow]. ring. Qed.

Lemma int_format : generic_format radix2 (FLT_exp (3 - 128 - 24) 24) (IZR n).
Proof.
  apply generic_format_FLT. apply (FLT_spec radix2 (3 - 128 - 24) 24 (IZR n) (Float radix2 n 0)).
  - symmetry. exact F2R_int.
  - cbn [Fnum]. change (Z.pow radix2 24) with 16777216. lia.
  - cbn [Fexp]. lia.
Qed.

Lemma Bn_props : Binary.B2R 24 128 Bn = IZR n /\ Binary.is_finite 24 128 Bn = true.
Proof.
  pose proof (binary_normalize_correct 24 128 Hp32 Hpe32 mode_NE n 0 false) as H.
  rewrite F2R_int in H. rewrite (round_generic radix2 _ _ (IZR n) int_format) in H.
  rewrite Rlt_bool_true in H.
  - destruct H as (H1 & H2 & _). split; assumption.
  - rewrite <- abs_IZR. change (bpow radix2 128) with (IZR (2 ^ 128)). apply IZR_lt. rewrite Z.abs_eq by lia.
    assert (65535 < 2 ^ 128) by (apply Z.pow_gt_lin_r || (vm_compute; reflexivity)). lia.
Qed.

Lemma finite_not_nan (b : binary32) : Binary.is_finite 24 128 b = true -> Binary.is_nan 24 128 b = false.
Proof. destruct b; cbn; congruence. Qed.

Lemma bits_back (b : binary32) : Binary.is_finite 24 128 b = true -> b32_of_bits (canon32 b) = b.
Proof.
  intros H. unfold canon32. rewrite (finite_not_nan b H). unfold b32_of_bits, bits_of_b32.
  exact (binary_float_of_bits_of_binary_float 23 8 eq_refl eq_refl eq_refl b).
Qed.

Lemma of_Z_back : b32_of_bits (f32_of_Z n) = Bn.
Proof. unfold f32_of_Z, norm32. apply bits_back. exact (proj2 Bn_props). Qed.

Lemma int_fix : generic_format radix2 (FIX_exp 0) (IZR n).
Proof. apply generic_format_FIX. exists (Float radix2 n 0); [symmetry; exact F2R_int | reflexivity]. Qed.

Lemma trunc_int (b : binary32) : Binary.B2R 24 128 b = IZR n -> Binary.Btrunc 24 128 b = n.
Proof.
  intros H. apply eq_IZR. rewrite Btrunc_correct, H. apply round_generic; [apply valid_rnd_ZR | exact int_fix]. exact Hpe32.
Qed.

Lemma to_Z_of_Z : f32_to_Z (f32_of_Z n) = n.
Proof. unfold f32_to_Z. rewrite of_Z_back. exact (trunc_int Bn (proj1 Bn_props)). Qed.

Definition Fn : binary32 := Binary.Bnearbyint 24 128 Hpe32 unop_nan_pl32 mode_DN Bn.

Lemma Fn_props : Binary.B2R 24 128 Fn = IZR n /\ Binary.is_finite 24 128 Fn = true.
Proof.
  destruct (Bnearbyint_correct 24 128 Hpe32 unop_nan_pl32 mode_DN Bn) as (H1 & H2 & _). fold Fn in H1, H2.
  destruct Bn_props as [Hr Hf]. rewrite Hr in H1. rewrite Hf in H2. split; [| exact H2].
  rewrite H1. apply round_generic; [apply valid_rnd_DN | exact int_fix].
Qed.

Lemma floor_back : b32_of_bits (f32_floor (f32_of_Z n)) = Fn.
Proof. unfold f32_floor. rewrite of_Z_back. apply bits_back. exact (proj2 Fn_props). Qed.
End LineLit.

Lemma le_ints a b (Ha : 0 <= a <= 65535) (Hb : 0 <= b <= 65535) (x y : Z) :
  b32_of_bits x = Bn a -> b32_of_bits y = Fn b -> a <= b -> f32_le x y = true.
Proof.
  intros Ex Ey Hab. unfold f32_le, cmp32, b32_compare. rewrite Ex, Ey.
  rewrite (Bcompare_correct 24 128 _ _ (proj2 (Bn_props a Ha)) (proj2 (Fn_props b Hb))).
  rewrite (proj1 (Bn_props a Ha)), (proj1 (Fn_props b Hb)), Rcompare_IZR. unfold is_le.
  destruct (Z.compare_spec a b); try reflexivity. lia.
Qed.

Lemma le_ints' a b (Ha : 0 <= a <= 65535) (Hb : 0 <= b <= 65535) (x y : Z) :
  b32_of_bits x = Fn a -> b32_of_bits y = Bn b -> a <= b -> f32_le x y = true.
Proof.
  intros Ex Ey Hab. unfold f32_le, cmp32, b32_compare. rewrite Ex, Ey.
  rewrite (Bcompare_correct 24 128 _ _ (proj2 (Fn_props a Ha)) (proj2 (Bn_props b Hb))).
  rewrite (proj1 (Fn_props a Ha)), (proj1 (Bn_props b Hb)), Rcompare_IZR. unfold is_le.
  destruct (Z.compare_spec a b); try reflexivity. lia.
Qed.

(* THE THEOREM *)
Theorem line_literal_all : forall n : N, (n <= 65529)%N ->
  to_line_number (VSng (f32_of_Z (Z.of_N n))) = Ok n /\ Z.to_N (f32_to_Z (f32_of_Z (Z.of_N n))) = n.
Proof.
  intros n Hle. set (z := Z.of_N n). assert (Hz : 0 <= z <= 65535) by (unfold z; lia).
  assert (H0 : 0 <= 0 <= 65535) by lia. assert (Hm : 0 <= 65535 <= 65535) by lia.
  split.
  - unfold to_line_number, to_u16, to_unsigned, float_to_int32.
    rewrite (le_ints 0 z H0 Hz _ _ (of_Z_back 0 H0) (floor_back z Hz) ltac:(lia)).
    rewrite (le_ints' z 65535 Hz Hm _ _ (floor_back z Hz) (of_Z_back 65535 Hm) ltac:(lia)).
    cbn [andb bind]. unfold f32_to_Z. rewrite (floor_back z Hz), (trunc_int z (Fn z) (proj1 (Fn_props z Hz))).
    rewrite Z.min_l by lia. destruct (Z.leb_spec z 65529); [| unfold z in *; lia]. unfold z. rewrite N2Z.id. reflexivity.
  - rewrite (to_Z_of_Z z Hz). unfold z. apply N2Z.id.
Qed.
Print Assumptions line_literal_all.
