(* C01 / C02: for expressions built from literals, scalar variables, unary minus, NOT and the binary operators,
   the code the compiler emits, run on the VM model, computes what the reference semantics prescribes.
   Three steps: (1) the emitted code is the postfix form of the expression; (2) the VM running a postfix form
   pushes the value of the expression (or stops with its error); (3) the reference semantics Sem.eval computes
   the same value. *)
From BL Require Import Base.Prelude Base.Floats Mach.Val Mach.Ops Mach.Func Mach.Var
     Lang.Token Lang.Lex Lang.Ast Lang.Parse Mach.Compile Mach.Listing Mach.Runtime Spec.Sem.
From Coq Require Import Lia.
Local Open Scope N_scope.

(* ---------- the fragment ---------- *)
Fixpoint pure (e : expr) : bool :=
  match e with
  | ESng _ _ | EDbl _ _ | EInt _ _ | EStr _ _ => true
  | EUnary _ i => match builtin_arity (ident_str i) with None => true | Some _ => false end
  | ENeg _ x | ENot _ x => pure x
  | EBin _ _ a b => pure a && pure b
  | EArray _ _ _ => false
  end.

Fixpoint postfix (e : expr) : list opcode :=
  match e with
  | ESng _ b => [OpLiteral (VSng b)]
  | EDbl _ b => [OpLiteral (VDbl b)]
  | EInt _ n => [OpLiteral (VInt n)]
  | EStr _ s => [OpLiteral (VStr s)]
  | EUnary _ i => [OpPush (ident_str i)]
  | ENeg _ x => postfix x ++ [OpNeg]
  | ENot _ x => postfix x ++ [OpNot]
  | EBin _ o a b => postfix a ++ postfix b ++ [OpBin o]
  | EArray _ _ _ => []
  end.

(* ---------- (1) code generation ---------- *)
Definition plain (ops : list opcode) : link := mkLink 0 ops [] 0 false [] [] [].

Lemma l_push_plain op ops : lenN (ops ++ [op]) <= MAX_POOL -> l_push op (plain ops) = (plain (ops ++ [op]), Ok tt).
Proof. intros H. unfold l_push, plain, set_ops. cbn. destruct (N.ltb_spec MAX_POOL (lenN (ops ++ [op]))); [lia | reflexivity]. Qed.

Lemma l_append_plain a b : lenN (a ++ b) <= MAX_POOL -> l_append (plain b) (plain a) = (plain (a ++ b), Ok tt).
Proof.
  intros H. unfold l_append, plain, set_data. cbn.
  destruct (N.ltb_spec MAX_POOL (lenN (a ++ b))); [lia |]. cbn. reflexivity.
Qed.

Lemma lenN_one {A} (x : A) : lenN [x] = 1.
Proof. reflexivity. Qed.

Lemma lenN_app {A} (a b : list A) : lenN (a ++ b) = lenN a + lenN b.
Proof. unfold lenN. rewrite app_length. lia. Qed.

Theorem cg_expr_postfix : forall e, pure e = true -> lenN (postfix e) <= MAX_POOL ->
  snd (fst (cg_expr e)) = plain (postfix e) /\ snd (cg_expr e) = [].
Proof.
  induction e as [c i | c i args | c b | c b | c n | c s | c x IH | c x IH | c o a IHa b IHb]; intros Hp Hl; cbn [pure postfix] in *;
    try discriminate.
  - (* variable *)
    cbn [cg_expr]. unfold run_frag, push_as_expression. cbn [vi_link vi_name vi_len vi_col].
    destruct (builtin_arity (ident_str i)); [discriminate |].
    unfold lbind. change link_empty with (plain []). rewrite (l_append_plain [] []) by (cbn; unfold MAX_POOL; lia). cbn [app].
    rewrite (l_push_plain _ []) by exact Hl. cbn. split; reflexivity.
  - cbn [cg_expr]. unfold run_frag, lbind. change link_empty with (plain []). rewrite (l_push_plain _ []) by exact Hl. split; reflexivity.
  - cbn [cg_expr]. unfold run_frag, lbind. change link_empty with (plain []). rewrite (l_push_plain _ []) by exact Hl. split; reflexivity.
  - cbn [cg_expr]. unfold run_frag, lbind. change link_empty with (plain []). rewrite (l_push_plain _ []) by exact Hl. split; reflexivity.
  - cbn [cg_expr]. unfold run_frag, lbind. change link_empty with (plain []). rewrite (l_push_plain _ []) by exact Hl. split; reflexivity.
  - rewrite lenN_app in Hl. destruct (IH Hp ltac:(lia)) as [E1 E2]. cbn [cg_expr].
    destruct (cg_expr x) as [[xc xl] xerrs]. cbn [fst snd] in E1, E2. subst xl xerrs. cbn [fst snd].
    unfold run_frag, lbind. change link_empty with (plain []).
    rewrite (l_append_plain [] (postfix x)) by (cbn [app]; lia). cbn [app].
    rewrite (l_push_plain OpNeg (postfix x)) by (rewrite lenN_app; exact Hl). split; reflexivity.
  - rewrite lenN_app in Hl. destruct (IH Hp ltac:(lia)) as [E1 E2]. cbn [cg_expr].
    destruct (cg_expr x) as [[xc xl] xerrs]. cbn [fst snd] in E1, E2. subst xl xerrs. cbn [fst snd].
    unfold run_frag, lbind. change link_empty with (plain []).
    rewrite (l_append_plain [] (postfix x)) by (cbn [app]; lia). cbn [app].
    rewrite (l_push_plain OpNot (postfix x)) by (rewrite lenN_app; exact Hl). split; reflexivity.
  - apply andb_prop in Hp. destruct Hp as [Hpa Hpb]. rewrite !lenN_app in Hl.
    destruct (IHa Hpa ltac:(lia)) as [A1 A2]. destruct (IHb Hpb ltac:(lia)) as [B1 B2]. cbn [cg_expr].
    destruct (cg_expr a) as [[ac al] aerrs]. destruct (cg_expr b) as [[bc bl] berrs]. cbn [fst snd] in A1, A2, B1, B2. subst al aerrs bl berrs. cbn [fst snd].
    unfold run_frag, lbind. change link_empty with (plain []).
    rewrite (l_append_plain [] (postfix a)) by (cbn [app]; lia). cbn [app].
    rewrite (l_append_plain (postfix a) (postfix b)) by (rewrite lenN_app; lia).
    rewrite (l_push_plain (OpBin o) (postfix a ++ postfix b)) by (rewrite !lenN_app; lia).
    rewrite <- app_assoc. split; reflexivity.
Qed.

(* ---------- (2) the VM on a postfix form ---------- *)
Section VM.
Variable O : oracle.

Fixpoint eval_pure (vs : varstore) (e : expr) : res val :=
  match e with
  | ESng _ b => Ok (VSng b)
  | EDbl _ b => Ok (VDbl b)
  | EInt _ n => Ok (VInt n)
  | EStr _ s => Ok (VStr s)
  | EUnary _ i => var_fetch vs (ident_str i)
  | ENeg _ x => do v <- eval_pure vs x; op_negate v
  | ENot _ x => do v <- eval_pure vs x; op_not v
  | EBin _ o a b => do x <- eval_pure vs a; do y <- eval_pure vs b; binop_fn O o x y
  | EArray _ _ _ => err E_Internal
  end.

(* straight-line execution of a list of opcodes, none of which may produce an event *)
Fixpoint run_ops (h : bool) (ops : list opcode) : RM unit :=
  match ops with
  | [] => rret tt
  | op :: rest => rdo e <~ exec_op O h op ;; match e with None => run_ops h rest | Some _ => rfail E_Internal end
  end.

Lemma run_ops_app h a b r :
  run_ops h (a ++ b) r = match run_ops h a r with (r1, Ok _) => run_ops h b r1 | (r1, Err e) => (r1, Err e) | (r1, Panic) => (r1, Panic) | (r1, Hang) => (r1, Hang) end.
Proof.
  revert r. induction a as [| op a IH]; intros r; [reflexivity |]. cbn [app run_ops]. unfold rbind.
  destruct (exec_op O h op r) as [r1 [[ev |] | e | |]]; try reflexivity. apply IH.
Qed.

(* the state after pushing one value *)
Definition pushed (r : rt) (v : val) : rt := set_stack_len r (v :: r_stack r) (r_slen r + 1).

Lemma push_ok r v : r_slen r + 1 <= MAX_POOL -> push v r = (pushed r v, Ok tt).
Proof. intros H. unfold push, pushed. cbn. destruct (N.ltb_spec MAX_POOL (r_slen r + 1)); [lia | reflexivity]. Qed.


(* the expression's code leaves exactly its value on top of the stack and touches nothing else; when evaluation
   fails, the code stops with the same error *)
Theorem run_postfix : forall h e r, pure e = true -> r_slen r + lenN (postfix e) <= MAX_POOL ->
  match eval_pure (r_vars r) e with
  | Ok v => run_ops h (postfix e) r = (pushed r v, Ok tt)
  | Err er => snd (run_ops h (postfix e) r) = Err er
  | Panic => snd (run_ops h (postfix e) r) = Panic
  | Hang => snd (run_ops h (postfix e) r) = Hang
  end.
Proof.
  intros h e. induction e as [c i | c i args | c b | c b | c n | c s | c x IH | c x IH | c o a IHa b IHb]; intros r Hp Hl;
    cbn [pure postfix eval_pure] in *; try discriminate.
  - (* variable *)
    cbn [run_ops exec_op]. unfold rbind. cbn [rget rlift].
    destruct (var_fetch (r_vars r) (ident_str i)) as [v | er | |]; try reflexivity.
    rewrite push_ok by (rewrite lenN_one in Hl; exact Hl). reflexivity.
  - cbn [run_ops exec_op]. unfold rbind. rewrite push_ok by (rewrite lenN_one in Hl; exact Hl). reflexivity.
  - cbn [run_ops exec_op]. unfold rbind. rewrite push_ok by (rewrite lenN_one in Hl; exact Hl). reflexivity.
  - cbn [run_ops exec_op]. unfold rbind. rewrite push_ok by (rewrite lenN_one in Hl; exact Hl). reflexivity.
  - cbn [run_ops exec_op]. unfold rbind. rewrite push_ok by (rewrite lenN_one in Hl; exact Hl). reflexivity.
  - (* unary minus *)
    rewrite lenN_app, lenN_one in Hl. rewrite run_ops_app. specialize (IH r Hp ltac:(lia)).
    destruct (eval_pure (r_vars r) x) as [v | er | |]; cbn [bind].
    + rewrite IH. cbn [run_ops exec_op]. unfold rbind, pop_1_push, rbind, pop. cbn [pushed set_stack_len r_stack r_slen rlift].
      destruct (op_negate v) as [w | er | |]; try reflexivity.
      unfold push. cbn. destruct (N.ltb_spec MAX_POOL (r_slen r + 1 - 1 + 1)); [lia |].
      unfold pushed. cbn. replace (r_slen r + 1 - 1 + 1) with (r_slen r + 1) by lia. reflexivity.
    + destruct (run_ops h (postfix x) r) as [r1 [u | e1 | |]]; cbn in IH; try discriminate; try (injection IH as ->); reflexivity.
    + destruct (run_ops h (postfix x) r) as [r1 [u | e1 | |]]; cbn in IH; try discriminate; reflexivity.
    + destruct (run_ops h (postfix x) r) as [r1 [u | e1 | |]]; cbn in IH; try discriminate; reflexivity.
  - (* NOT *)
    rewrite lenN_app, lenN_one in Hl. rewrite run_ops_app. specialize (IH r Hp ltac:(lia)).
    destruct (eval_pure (r_vars r) x) as [v | er | |]; cbn [bind].
    + rewrite IH. cbn [run_ops exec_op]. unfold rbind, pop_1_push, rbind, pop. cbn [pushed set_stack_len r_stack r_slen rlift].
      destruct (op_not v) as [w | er | |]; try reflexivity.
      unfold push. cbn. destruct (N.ltb_spec MAX_POOL (r_slen r + 1 - 1 + 1)); [lia |].
      unfold pushed. cbn. replace (r_slen r + 1 - 1 + 1) with (r_slen r + 1) by lia. reflexivity.
    + destruct (run_ops h (postfix x) r) as [r1 [u | e1 | |]]; cbn in IH; try discriminate; try (injection IH as ->); reflexivity.
    + destruct (run_ops h (postfix x) r) as [r1 [u | e1 | |]]; cbn in IH; try discriminate; reflexivity.
    + destruct (run_ops h (postfix x) r) as [r1 [u | e1 | |]]; cbn in IH; try discriminate; reflexivity.
  - (* binary operator: left operand, right operand, operator *)
    apply andb_prop in Hp. destruct Hp as [Hpa Hpb]. rewrite !lenN_app, lenN_one in Hl.
    rewrite run_ops_app. specialize (IHa r Hpa ltac:(lia)).
    destruct (eval_pure (r_vars r) a) as [x | er | |]; cbn [bind].
    + rewrite IHa. rewrite run_ops_app.
      assert (Hv : r_vars (pushed r x) = r_vars r) by reflexivity.
      specialize (IHb (pushed r x) Hpb ltac:(cbn; lia)). rewrite Hv in IHb.
      destruct (eval_pure (r_vars r) b) as [y | er | |]; cbn [bind].
      * rewrite IHb. cbn [run_ops exec_op]. unfold rbind, pop_2_push, rbind, pop2, rbind, pop.
        cbn [pushed set_stack_len r_stack r_slen rlift rret fst snd].
        destruct (binop_fn O o x y) as [w | er | |]; try reflexivity.
        unfold push. cbn. destruct (N.ltb_spec MAX_POOL (r_slen r + 1 + 1 - 1 - 1 + 1)); [lia |].
        unfold pushed. cbn. replace (r_slen r + 1 + 1 - 1 - 1 + 1) with (r_slen r + 1) by lia. reflexivity.
      * destruct (run_ops h (postfix b) (pushed r x)) as [r1 [u | e1 | |]]; cbn in IHb; try discriminate; try (injection IHb as ->); reflexivity.
      * destruct (run_ops h (postfix b) (pushed r x)) as [r1 [u | e1 | |]]; cbn in IHb; try discriminate; reflexivity.
      * destruct (run_ops h (postfix b) (pushed r x)) as [r1 [u | e1 | |]]; cbn in IHb; try discriminate; reflexivity.
    + destruct (run_ops h (postfix a) r) as [r1 [u | e1 | |]]; cbn in IHa; try discriminate; try (injection IHa as ->); reflexivity.
    + destruct (run_ops h (postfix a) r) as [r1 [u | e1 | |]]; cbn in IHa; try discriminate; reflexivity.
    + destruct (run_ops h (postfix a) r) as [r1 [u | e1 | |]]; cbn in IHa; try discriminate; reflexivity.
Qed.

End VM.

(* ---------- (3) the reference semantics computes the same value ---------- *)
Section Spec.
Variable O : oracle.

Fixpoint depth (e : expr) : nat :=
  match e with
  | ENeg _ x | ENot _ x => S (depth x)
  | EBin _ _ a b => S (Nat.max (depth a) (depth b))
  | _ => 0%nat
  end.

Lemma apply_binop_fn b x y : apply_binop O b x y = binop_fn O b x y.
Proof. destruct b; reflexivity. Qed.

Theorem sem_eval_pure : forall fuel e s line, pure e = true -> (depth e < fuel)%nat -> s_locals s = [] ->
  eval O fuel line e s = (s, of_res (eval_pure O (s_vars s) e)).
Proof.
  induction fuel as [| f IH]; intros e s line Hp Hd Hloc; [lia |].
  destruct e as [c i | c i args | c b | c b | c n | c st | c x | c x | c o a b]; cbn [pure depth] in *; try discriminate; cbn [eval eval_pure].
  - destruct (builtin_arity (ident_str i)); [discriminate |].
    unfold fetch_var, sbind, sget. rewrite Hloc. cbn. reflexivity.
  - reflexivity.
  - reflexivity.
  - reflexivity.
  - reflexivity.
  - unfold sbind. rewrite (IH x s line Hp ltac:(lia) Hloc).
    destruct (eval_pure O (s_vars s) x) as [v | er | |]; reflexivity.
  - unfold sbind. rewrite (IH x s line Hp ltac:(lia) Hloc).
    destruct (eval_pure O (s_vars s) x) as [v | er | |]; reflexivity.
  - apply andb_prop in Hp. destruct Hp as [Hpa Hpb].
    unfold sbind. rewrite (IH a s line Hpa ltac:(lia) Hloc).
    destruct (eval_pure O (s_vars s) a) as [x | er | |]; try reflexivity. cbn [of_res bind].
    rewrite (IH b s line Hpb ltac:(lia) Hloc).
    destruct (eval_pure O (s_vars s) b) as [y | er | |]; try reflexivity. cbn [of_res bind].
    unfold slift. rewrite apply_binop_fn. reflexivity.
Qed.

(* ---------- the three steps together ---------- *)
(* compiled code on the VM against the reference semantics, for the same variable store *)
Theorem compiled_expression_correct : forall h e r s line,
  pure e = true -> lenN (postfix e) <= MAX_POOL -> r_slen r + lenN (postfix e) <= MAX_POOL ->
  s_locals s = [] -> s_vars s = r_vars r ->
  let code := l_ops (snd (fst (cg_expr e))) in
  snd (cg_expr e) = [] /\
  match snd (eval O (S (depth e)) line e s) with
  | EvOk v => run_ops O h code r = (pushed r v, Ok tt)
  | EvErr c => exists er, snd (run_ops O h code r) = Err er /\ ecode er = c
  | EvUndef => True
  end.
Proof.
  intros h e r s line Hp Hl Hs Hloc Hv. destruct (cg_expr_postfix e Hp Hl) as [E1 E2]. cbn zeta. rewrite E1. cbn [plain l_ops].
  split; [exact E2 |]. rewrite (sem_eval_pure (S (depth e)) e s line Hp ltac:(lia) Hloc). cbn [snd]. rewrite Hv.
  pose proof (run_postfix O h e r Hp Hs) as Hrun.
  destruct (eval_pure O (r_vars r) e) as [v | er | |]; cbn [of_res]; [exact Hrun | exists er; split; [exact Hrun | reflexivity] | exact I | exact I].
Qed.

End Spec.

(* ---------- (2') the same through the VM's own fetch loop ---------- *)
From BL Require Import Proofs.Slicing.

Section Fetch.
Variable O : oracle.

(* opcodes of expression code and of scalar assignment neither read nor write the program counter, the program or the trace flags *)
Definition expr_op (op : opcode) : bool :=
  match op with OpLiteral _ | OpPush _ | OpPop _ | OpNeg | OpNot | OpBin _ => true | _ => false end.

Definition ctl_eq (r r' : rt) : Prop :=
  r_prog r' = r_prog r /\ r_tron r' = r_tron r /\ r_tr r' = r_tr r.

Lemma expr_op_pc h op r a : expr_op op = true ->
  exec_op O h op (set_pc r a) = (set_pc (fst (exec_op O h op r)) a, snd (exec_op O h op r))
  /\ ctl_eq r (fst (exec_op O h op r)) /\ r_pc (fst (exec_op O h op r)) = r_pc r
  /\ (forall e, snd (exec_op O h op r) = Ok (Some e) -> False).
Proof.
  intros H. destruct op; try discriminate; cbn [exec_op].
  - (* literal *) unfold rbind, push. cbn. destruct (MAX_POOL <? r_slen r + 1); cbn; repeat split; try reflexivity; intros e E; discriminate.
  - (* push variable *) unfold rbind, rget, rlift. cbn [r_vars set_pc].
    match goal with |- context [var_fetch (r_vars r) ?n] => destruct (var_fetch (r_vars r) n) as [v | er | |] end; cbn; try (repeat split; try reflexivity; intros e E; discriminate).
    unfold push. cbn. destruct (MAX_POOL <? r_slen r + 1); cbn; repeat split; try reflexivity; intros e E; discriminate.
  - (* pop into a variable *) unfold rbind, pop. cbn [r_stack set_pc].
    destruct (r_stack r) as [| v st]; cbn; [repeat split; try reflexivity; intros e E; discriminate |].
    match goal with |- context [var_store (r_vars r) ?n v] => destruct (var_store (r_vars r) n v) as [w | er | |] end; cbn; repeat split; try reflexivity; intros e E; discriminate.
  - (* neg *) unfold rbind, pop_1_push, rbind, pop. cbn [r_stack set_pc].
    destruct (r_stack r) as [| v st]; cbn; [repeat split; try reflexivity; intros e E; discriminate |].
    unfold rlift. destruct (op_negate v) as [w | er | |]; cbn; try (repeat split; try reflexivity; intros e E; discriminate).
    unfold push. cbn. destruct (MAX_POOL <? r_slen r - 1 + 1); cbn; repeat split; try reflexivity; intros e E; discriminate.
  - (* not *) unfold rbind, pop_1_push, rbind, pop. cbn [r_stack set_pc].
    destruct (r_stack r) as [| v st]; cbn; [repeat split; try reflexivity; intros e E; discriminate |].
    unfold rlift. destruct (op_not v) as [w | er | |]; cbn; try (repeat split; try reflexivity; intros e E; discriminate).
    unfold push. cbn. destruct (MAX_POOL <? r_slen r - 1 + 1); cbn; repeat split; try reflexivity; intros e E; discriminate.
  - (* binary *) unfold rbind, pop_2_push, rbind, pop2, rbind, pop. cbn [r_stack set_pc].
    destruct (r_stack r) as [| y st]; cbn; [repeat split; try reflexivity; intros e E; discriminate |].
    destruct st as [| x st]; cbn; [repeat split; try reflexivity; intros e E; discriminate |].
    unfold rlift. match goal with |- context [binop_fn O ?bb x y] => destruct (binop_fn O bb x y) as [w | er | |] end; cbn; try (repeat split; try reflexivity; intros e E; discriminate).
    unfold push. cbn. destruct (MAX_POOL <? r_slen r - 1 - 1 + 1); cbn; repeat split; try reflexivity; intros e E; discriminate.
Qed.

Lemma postfix_expr_ops e : pure e = true -> forallb expr_op (postfix e) = true.
Proof.
  induction e; cbn [pure postfix]; intros H; try discriminate; try reflexivity.
  - rewrite forallb_app, IHe by exact H. reflexivity.
  - rewrite forallb_app, IHe by exact H. reflexivity.
  - apply andb_prop in H. destruct H as [Ha Hb]. rewrite !forallb_app, IHe1, IHe2 by assumption. reflexivity.
Qed.

(* code placed at address a of the program memory *)
Definition code_at (r : rt) (a : N) (code : list opcode) : Prop :=
  forall i op, nth_error code i = Some op -> nthN (l_ops (pg_link (r_prog r))) (a + N.of_nat i) = Some op.

(* the VM's fetch loop, with tracing off, runs straight-line expression code exactly like run_ops and leaves the
   program counter behind it *)
Definition no_event {A} (x : res A) : res (option event) :=
  match x with Ok _ => Ok None | Err e => Err e | Panic => Panic | Hang => Hang end.

Theorem fetch_loop_runs_code : forall code h r, forallb expr_op code = true -> r_tron r = false -> code_at r (r_pc r) code ->
  snd (exec_loop_x O (length code) h r) = no_event (snd (run_ops O h code r)) /\
  (forall u, snd (run_ops O h code r) = Ok u ->
     fst (exec_loop_x O (length code) h r) = set_pc (fst (run_ops O h code r)) (r_pc r + lenN code)).
Proof.
  assert (Hrun : forall h c rr a, forallb expr_op c = true ->
            run_ops O h c (set_pc rr a) = (set_pc (fst (run_ops O h c rr)) a, snd (run_ops O h c rr))).
  { intros h. induction c as [| o c IHc]; intros rr a Hc; [reflexivity |]. cbn [forallb] in Hc. apply andb_prop in Hc. destruct Hc as [Ho Hc].
    cbn [run_ops]. unfold rbind. destruct (expr_op_pc h o rr a Ho) as (E & _ & _ & Hn). rewrite E.
    destruct (exec_op O h o rr) as [r2 [[ev0 |] | er | |]]; cbn [fst snd] in *; try reflexivity.
    apply IHc. exact Hc. }
  induction code as [| op code IH]; intros h r Hops Htr Hat.
  - cbn. split; [reflexivity |]. intros _ _. unfold lenN. cbn. rewrite N.add_0_r. destruct r; reflexivity.
  - cbn [forallb] in Hops. apply andb_prop in Hops. destruct Hops as [Hop Hops].
    cbn [length exec_loop_x run_ops]. cbv beta delta [rbind rget rret rmod] iota. rewrite Htr. cbn [andb]. cbv beta iota.
    unfold one_op. cbv beta delta [rbind rget rret rmod] iota.
    pose proof (Hat 0%nat op eq_refl) as Hf. rewrite N.add_0_r in Hf. rewrite Hf.
    destruct (expr_op_pc h op r (r_pc r + 1) Hop) as (Epc & (Hprog & Htron & Htr') & Hpc & Hnoev).
    rewrite Epc. destruct (exec_op O h op r) as [r1 [[ev0 |] | er | |]] eqn:Eop; cbn [fst snd] in *.
    + exfalso. exact (Hnoev ev0 eq_refl).
    + assert (Htr1 : r_tron (set_pc r1 (r_pc r + 1)) = false) by (cbn; rewrite Htron; exact Htr).
      assert (Hat1 : code_at (set_pc r1 (r_pc r + 1)) (r_pc (set_pc r1 (r_pc r + 1))) code).
      { intros i o Hi. cbn [r_pc set_pc r_prog]. rewrite Hprog. specialize (Hat (S i) o Hi).
        replace (r_pc r + 1 + N.of_nat i) with (r_pc r + N.of_nat (S i)) by lia. exact Hat. }
      destruct (IH h (set_pc r1 (r_pc r + 1)) Hops Htr1 Hat1) as [IH1 IH2].
      rewrite (Hrun h code r1 (r_pc r + 1) Hops) in IH1, IH2. cbn [fst snd] in IH1, IH2.
      split; [exact IH1 |]. intros u Hu. rewrite (IH2 u Hu). cbn [r_pc set_pc].
      assert (El : lenN (op :: code) = 1 + lenN code) by (unfold lenN; cbn [length]; lia).
      rewrite El. replace (r_pc r + (1 + lenN code)) with (r_pc r + 1 + lenN code) by lia.
      destruct (fst (run_ops O h code r1)); reflexivity.
    + split; [reflexivity | intros u Hu; discriminate].
    + split; [reflexivity | intros u Hu; discriminate].
    + split; [reflexivity | intros u Hu; discriminate].
Qed.

End Fetch.

(* ---------- assignment to a scalar variable: LET v = e ---------- *)
Section Let.
Variable O : oracle.

Definition let_code (i : ident) (e : expr) : list opcode := postfix e ++ [OpPop (ident_str i)].

Theorem cg_let_shape : forall c cv i e, pure e = true -> builtin_arity (ident_str i) = None ->
  lenN (let_code i e) <= MAX_POOL ->
  snd (fst (cg_stmt (SLet c (VUnary cv i) e))) = plain (let_code i e) /\ snd (cg_stmt (SLet c (VUnary cv i) e)) = [].
Proof.
  intros c cv i e Hp Hb Hl. unfold let_code in *. rewrite lenN_app, lenN_one in Hl.
  destruct (cg_expr_postfix e Hp ltac:(lia)) as [E1 E2].
  cbn [cg_stmt cg_var]. destruct (cg_expr e) as [[fc fl] ferrs]. cbn [fst snd] in E1, E2. subst fl ferrs.
  unfold run_frag, lbind, push_as_pop, test_for_built_in. cbn [vi_name vi_len vi_col vi_link fst snd]. rewrite Hb. unfold lbind, lret.
  change link_empty with (plain []).
  rewrite (l_append_plain [] (postfix e)) by (cbn [app]; lia). cbn [app].
  rewrite (l_push_plain (OpPop (ident_str i)) (postfix e)) by (rewrite lenN_app, lenN_one; lia).
  cbn. split; reflexivity.
Qed.

(* the VM: the value of e, converted to the variable's type, is stored; nothing else changes; the stack is as before *)
Theorem run_let : forall h i e r, pure e = true -> r_slen r + lenN (postfix e) <= MAX_POOL ->
  match eval_pure O (r_vars r) e with
  | Ok v =>
      match var_store (r_vars r) (ident_str i) v with
      | Ok vs => run_ops O h (let_code i e) r = (set_vars r vs, Ok tt)
      | Err er => snd (run_ops O h (let_code i e) r) = Err er
      | Panic => snd (run_ops O h (let_code i e) r) = Panic
      | Hang => snd (run_ops O h (let_code i e) r) = Hang
      end
  | Err er => snd (run_ops O h (let_code i e) r) = Err er
  | Panic => snd (run_ops O h (let_code i e) r) = Panic
  | Hang => snd (run_ops O h (let_code i e) r) = Hang
  end.
Proof.
  intros h i e r Hp Hs. unfold let_code. rewrite run_ops_app. pose proof (run_postfix O h e r Hp Hs) as Hr.
  destruct (eval_pure O (r_vars r) e) as [v | er | |].
  - rewrite Hr. cbn [run_ops exec_op]. unfold rbind, pop. cbn [pushed set_stack_len r_stack r_slen r_vars].
    destruct (var_store (r_vars r) (ident_str i) v) as [vs | er | |]; try reflexivity.
    cbn. replace (r_slen r + 1 - 1) with (r_slen r) by lia. destruct r; reflexivity.
  - destruct (run_ops O h (postfix e) r) as [r1 [u | e1 | |]]; cbn in Hr; try discriminate; try (injection Hr as ->); reflexivity.
  - destruct (run_ops O h (postfix e) r) as [r1 [u | e1 | |]]; cbn in Hr; try discriminate; reflexivity.
  - destruct (run_ops O h (postfix e) r) as [r1 [u | e1 | |]]; cbn in Hr; try discriminate; reflexivity.
Qed.

(* the reference semantics of the same statement: evaluate, then store through the same typed store *)
Theorem sem_let : forall fuel line cv i e s, pure e = true -> (depth e < fuel)%nat -> s_locals s = [] ->
  (sdo x <~ eval O fuel line e ;; assign O fuel line (VUnary cv i) x) s =
  match eval_pure O (s_vars s) e with
  | Ok v => match var_store (s_vars s) (ident_str i) v with
            | Ok vs => (with_vars s vs, EvOk tt)
            | Err er => (s, EvErr (ecode er))
            | _ => (s, EvUndef)
            end
  | Err er => (s, EvErr (ecode er))
  | _ => (s, EvUndef)
  end.
Proof.
  intros fuel line cv i e s Hp Hd Hloc. unfold sbind. rewrite (sem_eval_pure O fuel e s line Hp Hd Hloc).
  destruct (eval_pure O (s_vars s) e) as [v | er | |]; reflexivity.
Qed.

(* together: after LET the VM's variable store is the store the reference semantics prescribes *)
Theorem compiled_let_correct : forall h line cv i e r s vs,
  pure e = true -> r_slen r + lenN (postfix e) <= MAX_POOL -> s_locals s = [] -> s_vars s = r_vars r ->
  (sdo x <~ eval O (S (depth e)) line e ;; assign O (S (depth e)) line (VUnary cv i) x) s = (with_vars s vs, EvOk tt) ->
  run_ops O h (let_code i e) r = (set_vars r vs, Ok tt).
Proof.
  intros h line cv i e r s vs Hp Hs Hloc Hv Hsem.
  rewrite (sem_let (S (depth e)) line cv i e s Hp ltac:(lia) Hloc) in Hsem. rewrite Hv in Hsem.
  pose proof (run_let h i e r Hp Hs) as Hrun.
  destruct (eval_pure O (r_vars r) e) as [v | er | |]; try discriminate.
  destruct (var_store (r_vars r) (ident_str i) v) as [vs' | er | |]; try discriminate.
  injection Hsem as Hsem. subst. exact Hrun.
Qed.

End Let.
