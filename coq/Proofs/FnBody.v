(* C10 -- the whole call of a user function on the VM: the parameter stores, the body's code and RETURN, run behind the call
   instruction, leave exactly the body's value (evaluated with the parameters bound to the arguments and every other variable
   as it is at call time) on the caller's stack, and give control back to the instruction behind the call. *)
From BL Require Import Base.Prelude Base.Floats Mach.Val Mach.Ops Mach.Func Mach.Var
     Lang.Token Lang.Lex Lang.Ast Lang.Parse Mach.Compile Mach.Listing Mach.Runtime Proofs.ExprCompile Proofs.FnCall.
From Coq Require Import Lia.
Local Open Scope N_scope.

Section FnBody.
Variable O : oracle.

(* the parameters take the arguments one by one, first parameter first *)
Fixpoint bind_params (vs : varstore) (names : list str) (args : list val) : res varstore :=
  match names, args with
  | [], [] => Ok vs
  | n :: ns, a :: rest => do vs1 <- var_store vs n a; bind_params vs1 ns rest
  | _, _ => err E_Internal
  end.

Lemma pops_bind : forall h names args r rest vs',
  r_stack r = args ++ rest -> r_slen r = lenN (args ++ rest) -> bind_params (r_vars r) names args = Ok vs' ->
  run_ops O h (map OpPop names) r = (set_vars (set_stack_len r rest (lenN rest)) vs', Ok tt).
Proof.
  intros h. induction names as [| n ns IH]; intros args r rest vs' Hs Hl Hb.
  - destruct args; [| discriminate Hb]. cbn [bind_params] in Hb. injection Hb as <-. cbn [map run_ops app] in *. unfold rret.
    subst rest. rewrite <- Hl. destruct r; reflexivity.
  - destruct args as [| a args]; [discriminate Hb |]. cbn [bind_params] in Hb.
    destruct (var_store (r_vars r) n a) as [vs1 | | |] eqn:Ev; try discriminate Hb. cbn [bind] in Hb.
    cbn [map run_ops exec_op]. unfold rbind at 1. unfold rbind at 1. unfold rbind at 1. unfold pop at 1. rewrite Hs. cbn [app].
    cbn [r_vars set_stack_len]. rewrite Ev. unfold rret at 1.
    rewrite (IH args _ rest vs'); cbn [r_stack r_slen r_vars set_vars set_stack_len].
    + reflexivity.
    + reflexivity.
    + rewrite Hl. unfold lenN. cbn [app List.length]. lia.
    + exact Hb.
Qed.

(* the call as the VM runs it, from the state call_enters describes *)
Theorem function_body_runs : forall h names body r args a rest vs' v,
  pure body = true ->
  r_stack r = args ++ VRet a :: rest -> r_slen r = lenN (args ++ VRet a :: rest) ->
  bind_params (r_vars r) names args = Ok vs' ->
  eval_pure O vs' body = Ok v -> is_assignable v = true ->
  lenN rest + 1 + lenN (postfix body) <= MAX_POOL ->
  exists r', run_ops O h (map OpPop names ++ postfix body ++ [OpReturn]) r = (r', Ok tt)
    /\ r_stack r' = v :: rest /\ r_pc r' = a /\ r_vars r' = vs'.
Proof.
  intros h names body r args a rest vs' v Hp Hs Hl Hb Hv Hav Hroom.
  rewrite run_ops_app. rewrite (pops_bind h names args r (VRet a :: rest) vs' Hs Hl Hb).
  set (r1 := set_vars (set_stack_len r (VRet a :: rest) (lenN (VRet a :: rest))) vs').
  rewrite run_ops_app.
  assert (Hl1 : lenN (VRet a :: rest) = lenN rest + 1) by (unfold lenN; cbn [List.length]; lia).
  pose proof (run_postfix O h body r1 Hp) as Hrun. cbn [r_slen r1 set_vars set_stack_len] in Hrun.
  specialize (Hrun ltac:(unfold r1; cbn [r_slen set_vars set_stack_len]; lia)).
  assert (Hvars : r_vars r1 = vs') by reflexivity. rewrite Hvars, Hv in Hrun. rewrite Hrun.
  cbn [run_ops exec_op]. unfold rbind at 1. unfold rbind at 1.
  destruct (return_with_value (pushed r1 v) v a rest) as [r' (E & Hst & Hpc & Hvs)]; [reflexivity | exact Hav | lia |].
  rewrite E. unfold rret. exists r'. split; [reflexivity |]. split; [exact Hst |]. split; [exact Hpc |]. rewrite Hvs. reflexivity.
Qed.
End FnBody.

(* non-vacuity: FNA(X)=X+1 called with 2 from address 7, under a value the caller had on the stack *)
From BL Require Import Drv.Driver.
Require Import String.
Definition fn_demo_body : expr := EBin (0, 0) BAdd (EUnary (0, 0) (IPlain (s2l "FNA.X"))) (ESng (0, 0) (f32_of_Z 1)).
Definition fn_demo_machine : rt :=
  set_stack_len rt_default [VSng (f32_of_Z 2); VRet 7; VInt 9] 3.
Example fn_demo_premises :
  pure fn_demo_body = true /\
  bind_params (r_vars fn_demo_machine) [s2l "FNA.X"] [VSng (f32_of_Z 2)] <> err E_Internal /\
  match run_ops dummy_oracle false (map OpPop [s2l "FNA.X"] ++ postfix fn_demo_body ++ [OpReturn]) fn_demo_machine with
  | (r', Ok _) => r_stack r' = [VSng (f32_of_Z 3); VInt 9] /\ r_pc r' = 7
  | _ => False
  end.
Proof. split; [reflexivity |]. split; [vm_compute; discriminate |]. vm_compute. split; reflexivity. Qed.
