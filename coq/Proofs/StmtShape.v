(* C01: the instruction sequences of FOR, WHILE-free statements built from expressions.  `emits m code`: on any link
   without DATA and with room for it, the code-generation action m succeeds and appends exactly `code` to the instruction
   list (and no DATA).  The predicate is closed under bind; with one lemma per primitive it reads the sequence of a
   statement off its definition.  FOR: start value, store into the loop variable, limit, step, the variable's name, the
   loop address -- the order in which the manual says they are evaluated ("x, then y, then z"). *)
From BL Require Import Base.Prelude Base.Floats Mach.Val Mach.Ops Mach.Func Mach.Var
     Lang.Token Lang.Lex Lang.Ast Lang.Parse Mach.Compile Proofs.ExprCompile.
From Coq Require Import Lia.
Local Open Scope N_scope.

Definition emits {A} (m : LM A) (code : list opcode) : Prop :=
  forall l, l_data l = [] -> lenN (l_ops l ++ code) <= MAX_POOL ->
    exists l' x, m l = (l', Ok x) /\ l_ops l' = l_ops l ++ code /\ l_data l' = [].

Lemma lenN_app3 {A} (a b c : list A) : lenN (a ++ b) <= lenN (a ++ b ++ c).
Proof. unfold lenN. rewrite !app_length. lia. Qed.

Lemma emits_bind {A B} (m : LM A) (f : A -> LM B) c1 c2 :
  emits m c1 -> (forall a, emits (f a) c2) -> emits (lbind m f) (c1 ++ c2).
Proof.
  intros Hm Hf l Hd Hl. destruct (Hm l Hd) as (l1 & a & E1 & O1 & D1).
  { pose proof (lenN_app3 (l_ops l) c1 c2). lia. }
  destruct (Hf a l1 D1) as (l2 & b & E2 & O2 & D2).
  { rewrite O1, <- app_assoc. exact Hl. }
  exists l2, b. unfold lbind. rewrite E1. split; [exact E2 |]. split; [| exact D2]. rewrite O2, O1, <- app_assoc. reflexivity.
Qed.
Lemma emits_ret {A} (a : A) : emits (lret a) [].
Proof. intros l Hd _. exists l, a. split; [reflexivity |]. split; [rewrite app_nil_r; reflexivity | exact Hd]. Qed.
Lemma emits_push op : emits (l_push op) [op].
Proof.
  intros l Hd Hl. unfold l_push. cbn [l_ops set_ops]. destruct (N.ltb_spec MAX_POOL (lenN (l_ops l ++ [op]))); [lia |].
  eexists _, tt. split; [reflexivity |]. split; [reflexivity | exact Hd].
Qed.
Lemma emits_append_plain ops : emits (l_append (plain ops)) ops.
Proof.
  intros l Hd Hl. unfold l_append. cbn [plain l_data l_ops l_cur l_syms l_unlinked l_whiles]. rewrite Bool.andb_false_r.
  cbn [fold_left map l_ops set_data l_data]. rewrite Hd. cbn [app].
  destruct (N.ltb_spec MAX_POOL (lenN (l_ops l ++ ops))); [lia |]. cbn [lenN List.length N.of_nat N.ltb N.compare].
  eexists _, tt. split; [reflexivity |]. split; reflexivity.
Qed.
Lemma emits_next_symbol : emits l_next_symbol [].
Proof. intros l Hd _. unfold l_next_symbol. eexists _, _. split; [reflexivity |]. cbn [l_ops l_data]. split; [rewrite app_nil_r; reflexivity | exact Hd]. Qed.
Lemma emits_unlink_here c s : emits (l_unlink_here c s) [].
Proof. intros l Hd _. unfold l_unlink_here. eexists _, tt. split; [reflexivity |]. cbn [l_ops l_data]. split; [rewrite app_nil_r; reflexivity | exact Hd]. Qed.
Lemma emits_push_symbol s : emits (l_push_symbol s) [].
Proof. intros l Hd _. unfold l_push_symbol. eexists _, tt. split; [reflexivity |]. cbn [l_ops l_data]. split; [rewrite app_nil_r; reflexivity | exact Hd]. Qed.

Lemma emits_eq {A} (m : LM A) c c' : c = c' -> emits m c -> emits m c'.
Proof. intros ->. exact (fun H => H). Qed.

Lemma emits_push_for c : emits (l_push_for c) [OpLiteral (VNext 0)].
Proof.
  unfold l_push_for. eapply emits_eq; [| apply emits_bind; [apply emits_next_symbol | intros nx; apply emits_bind; [apply emits_unlink_here |
    intros _; apply emits_bind; [apply emits_push | intros _; apply emits_push_symbol]]]]. reflexivity.
Qed.

(* a scalar variable that is not the name of a built-in *)
Lemma emits_pop_unary c name : builtin_arity name = None ->
  emits (push_as_pop_unary (mkVI c name link_empty None)) [OpPop name].
Proof.
  intros Hb. unfold push_as_pop_unary, test_for_built_in. cbn [vi_name vi_col vi_len]. rewrite Hb.
  eapply emits_eq; [| apply emits_bind; [apply emits_ret | intros _; apply emits_bind; [apply emits_push | intros _; apply emits_ret]]]. reflexivity.
Qed.

(* run_frag of an emitting action on the empty link *)
Lemma run_frag_emits (m : LM col) code : emits m code -> lenN code <= MAX_POOL ->
  l_ops (snd (fst (run_frag m))) = code /\ l_data (snd (fst (run_frag m))) = [] /\ snd (run_frag m) = [].
Proof.
  intros Hm Hl. destruct (Hm link_empty eq_refl Hl) as (l' & x & E & O & D). unfold run_frag. rewrite E. cbn [fst snd]. auto.
Qed.

Theorem for_statement_code : forall c vc v e1 e2 e3,
  pure e1 = true -> pure e2 = true -> pure e3 = true -> builtin_arity (ident_str v) = None ->
  let code := postfix e1 ++ [OpPop (ident_str v)] ++ postfix e2 ++ postfix e3 ++ [OpLiteral (VStr (ident_str v)); OpLiteral (VNext 0)] in
  lenN code <= MAX_POOL ->
  let s := SFor c (VUnary vc v) e1 e2 e3 in
  l_ops (snd (fst (cg_stmt s))) = code /\ l_data (snd (fst (cg_stmt s))) = [] /\ snd (cg_stmt s) = [].
Proof.
  intros c vc v e1 e2 e3 H1 H2 H3 Hb. cbn zeta. intros Hl.
  assert (L1 : lenN (postfix e1) <= MAX_POOL) by (unfold lenN, MAX_POOL in *; rewrite !app_length in Hl; lia).
  assert (L2 : lenN (postfix e2) <= MAX_POOL) by (unfold lenN, MAX_POOL in *; rewrite !app_length in Hl; lia).
  assert (L3 : lenN (postfix e3) <= MAX_POOL) by (unfold lenN, MAX_POOL in *; rewrite !app_length in Hl; lia).
  destruct (cg_expr_postfix e1 H1 L1) as [A1 B1]. destruct (cg_expr_postfix e2 H2 L2) as [A2 B2]. destruct (cg_expr_postfix e3 H3 L3) as [A3 B3].
  cbn [cg_stmt cg_var]. destruct (cg_expr e1) as [f1 x1]. destruct (cg_expr e2) as [f2 x2]. destruct (cg_expr e3) as [f3 x3].
  cbn [fst snd] in *. subst x1 x2 x3. rewrite A1, A2, A3. cbn [app].
  match goal with |- context [run_frag ?m] => assert (Hm : emits m (postfix e1 ++ [OpPop (ident_str v)] ++ postfix e2 ++ postfix e3 ++
      [OpLiteral (VStr (ident_str v))] ++ [OpLiteral (VNext 0)] ++ [])) end.
  { apply emits_bind; [apply emits_append_plain | intros _]. apply emits_bind; [apply emits_pop_unary; exact Hb | intros _].
    apply emits_bind; [apply emits_append_plain | intros _]. apply emits_bind; [apply emits_append_plain | intros _].
    cbn [vi_name]. apply emits_bind; [apply emits_push | intros _]. apply emits_bind; [apply emits_push_for | intros _]. apply emits_ret. }
  cbn [app] in Hm.
  destruct (run_frag_emits _ _ Hm Hl) as (R1 & R2 & R3).
  match goal with |- context [run_frag ?m] => destruct (run_frag m) as [fr er] end. cbn [fst snd] in *. subst er. auto.
Qed.

(* NEXT with a list of variables closes the loops in the order written: one NEXT instruction per name, first name first *)
Definition scalar_item (ci : col * ident) : varitem := mkVI (fst ci) (ident_str (snd ci)) link_empty None.

Lemma emits_fold_next : forall (vs : list (col * ident)) (m0 : LM unit) c0,
  (forall ci, In ci vs -> builtin_arity (ident_str (snd ci)) = None) -> emits m0 c0 ->
  emits (fold_left (fun m v => ldo _ <~ m ;; ldo _ <~ test_for_built_in v false ;; l_push (OpNext (vi_name v))) (map scalar_item vs) m0)
        (c0 ++ map (fun ci => OpNext (ident_str (snd ci))) vs).
Proof.
  induction vs as [| ci r IH]; intros m0 c0 Hb H0; cbn [map fold_left].
  - rewrite app_nil_r. exact H0.
  - eapply emits_eq; [| apply (IH _ (c0 ++ [OpNext (ident_str (snd ci))]))].
    + rewrite <- app_assoc. reflexivity.
    + intros x Hx. apply Hb. right. exact Hx.
    + apply emits_bind; [exact H0 | intros _]. unfold test_for_built_in, scalar_item. cbn [vi_name vi_len vi_col].
      rewrite (Hb ci (or_introl eq_refl)).
      eapply emits_eq; [| apply emits_bind; [apply emits_ret | intros _; apply emits_push]]. reflexivity.
Qed.

Theorem next_statement_code : forall c (vs : list (col * ident)),
  (forall ci, In ci vs -> builtin_arity (ident_str (snd ci)) = None) ->
  let code := map (fun ci => OpNext (ident_str (snd ci))) vs in
  lenN code <= MAX_POOL ->
  let s := SNext c (map (fun ci => VUnary (fst ci) (snd ci)) vs) in
  l_ops (snd (fst (cg_stmt s))) = code /\ snd (cg_stmt s) = [].
Proof.
  intros c vs Hb. cbn zeta. intros Hl. cbn [cg_stmt].
  assert (Hv : map fst (map cg_var (map (fun ci : col * ident => VUnary (fst ci) (snd ci)) vs)) = map scalar_item vs).
  { clear. induction vs as [| p r IH]; [reflexivity |]. cbn [map cg_var fst]. rewrite IH. reflexivity. }
  assert (He : flat_map snd (map cg_var (map (fun ci : col * ident => VUnary (fst ci) (snd ci)) vs)) = []).
  { clear. induction vs as [| p r IH]; [reflexivity |]. cbn [map flat_map cg_var snd app]. exact IH. }
  rewrite Hv, He.
  match goal with |- context [run_frag ?m] => assert (Hm : emits m (map (fun ci => OpNext (ident_str (snd ci))) vs)) end.
  { eapply emits_eq; [| apply emits_bind; [apply (emits_fold_next vs (lret tt) [] Hb (emits_ret tt)) | intros _; apply emits_ret]].
    cbn [app]. rewrite app_nil_r. reflexivity. }
  destruct (run_frag_emits _ _ Hm Hl) as (R1 & R2 & R3).
  match goal with |- context [run_frag ?m] => destruct (run_frag m) as [fr er] end. cbn [fst snd app] in *. subst er. auto.
Qed.

(* ---- what the FOR code does on the VM: the limit and the step are evaluated in the store in which the loop variable
   already holds the start value, and the frame  limit, step, name, loop address  is left on the stack ---- *)
From BL Require Import Mach.Runtime.
Section RunFor.
Variable O : oracle.

Definition for_code (i : ident) (e1 e2 e3 : expr) (a : N) : list opcode :=
  let_code i e1 ++ postfix e2 ++ postfix e3 ++ [OpLiteral (VStr (ident_str i)); OpLiteral (VNext a)].

Theorem run_for : forall h i e1 e2 e3 a r x vs y z,
  pure e1 = true -> pure e2 = true -> pure e3 = true ->
  r_slen r + lenN (postfix e1) + lenN (postfix e2) + lenN (postfix e3) + 4 <= MAX_POOL ->
  eval_pure O (r_vars r) e1 = Ok x -> var_store (r_vars r) (ident_str i) x = Ok vs ->
  eval_pure O vs e2 = Ok y -> eval_pure O vs e3 = Ok z ->
  run_ops O h (for_code i e1 e2 e3 a) r
  = (set_stack_len (set_vars r vs) (VNext a :: VStr (ident_str i) :: z :: y :: r_stack r) (r_slen r + 4), Ok tt).
Proof.
  intros h i e1 e2 e3 a r x vs y z H1 H2 H3 Hs E1 Ev E2 E3. unfold for_code.
  rewrite run_ops_app. pose proof (run_let O h i e1 r H1 ltac:(lia)) as L. rewrite E1, Ev in L. rewrite L.
  rewrite run_ops_app. pose proof (run_postfix O h e2 (set_vars r vs) H2) as P2. cbn [r_slen r_vars set_vars] in P2.
  rewrite E2 in P2. rewrite P2 by lia.
  rewrite run_ops_app. pose proof (run_postfix O h e3 (pushed (set_vars r vs) y) H3) as P3.
  cbn [r_slen r_vars set_vars pushed set_stack_len] in P3. rewrite E3 in P3. rewrite P3 by lia.
  cbn [run_ops exec_op]. unfold rbind.
  rewrite push_ok by (cbn [r_slen pushed set_stack_len set_vars]; lia). unfold rret. cbv beta iota.
  rewrite push_ok by (cbn [r_slen pushed set_stack_len set_vars]; lia). cbv beta iota. cbn [pushed set_stack_len r_stack r_slen set_vars].
  unfold pushed, set_stack_len, set_vars. cbn [r_prompt r_listing r_snap r_dirty r_prog r_pc r_tr r_tron r_entry r_stack r_slen r_vars r_state r_cont r_cont_pc r_col r_rand r_fns r_ent].
  replace (r_slen r + 1 + 1 + 1 + 1) with (r_slen r + 4) by lia. reflexivity.
Qed.
End RunFor.

(* not empty *)
From Coq Require Import String.
Example shape_premises :
  builtin_arity (s2l "I"%string) = None /\ builtin_arity (s2l "J"%string) = None /\ builtin_arity (s2l "POS"%string) <> None
  /\ pure (EBin (0, 0) BAdd (EUnary (0, 0) (IPlain (s2l "I"%string))) (EInt (0, 0) 2)) = true.
Proof. repeat split; try reflexivity. vm_compute. discriminate. Qed.
