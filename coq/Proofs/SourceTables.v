(* The model's tables are the source's tables.  Gen/SourceTables.v is regenerated from /repo/src on every run by
   tools/tables.py; the statements below are closed by computation, so a table changed in the source (a reserved word
   added, moved or respelled, an operator's precedence, a built-in's arity range, a token's listed spelling) makes this
   file fail to compile: the model no longer describes the code, whatever the differential runs happen to sample. *)
From Coq Require Import String NArith List Bool.
Import ListNotations.
From BL Require Import Base.Prelude Lang.Token Lang.Lex Lang.Parse Mach.Func Gen.SourceTables.
Local Open Scope N_scope.

(* reserved words: the same words, the same tokens, in the same order (the order decides between words found at one place) *)
Theorem keywords_are_the_sources : keyword_table = map (fun p => (s2l (fst p), snd p)) src_keywords.
Proof. vm_compute. reflexivity. Qed.

(* single-character tokens: every arm of the source is an arm of the model, and the model has no other *)
Theorem minutia_arms_are_the_sources : map (fun p => match_minutia (fst p)) src_minutia = map (fun p => Some (snd p)) src_minutia.
Proof. vm_compute. reflexivity. Qed.
Theorem minutia_has_no_other_arm : forall c, match_minutia c <> None -> In c (map fst src_minutia).
Proof.
  intros c. unfold match_minutia.
  repeat match goal with |- context [c =? ?k] => destruct (N.eqb_spec c k) as [-> | _]; [intros _; vm_compute; tauto |] end.
  intros H. exfalso. apply H. reflexivity.
Qed.

(* listed spellings *)
Theorem word_display_is_the_sources :
  map (fun p => word_str (fst p)) src_word_display = map (fun p => s2l (snd p)) src_word_display /\ forall w, In w (map fst src_word_display).
Proof. split; [vm_compute; reflexivity | intros w; destruct w; vm_compute; tauto]. Qed.
Theorem operator_display_is_the_sources :
  map (fun p => op_str (fst p)) src_op_display = map (fun p => s2l (snd p)) src_op_display /\ forall o, In o (map fst src_op_display).
Proof. split; [vm_compute; reflexivity | intros o; destruct o; vm_compute; tauto]. Qed.
Theorem operator_words_are_the_sources :
  map (fun p => op_is_word (fst p)) src_op_is_word = map snd src_op_is_word /\ forall o, In o (map fst src_op_is_word).
Proof. split; [vm_compute; reflexivity | intros o; destruct o; vm_compute; tauto]. Qed.

(* precedences *)
Theorem precedences_are_the_sources :
  map (fun p => unary_prec (fst p)) src_unary_prec = map snd src_unary_prec /\ (forall o, In o (map fst src_unary_prec))
  /\ map (fun p => binary_prec (fst p)) src_binary_prec = map snd src_binary_prec /\ (forall o, In o (map fst src_binary_prec)).
Proof.
  split; [vm_compute; reflexivity |]. split; [intros o; destruct o; vm_compute; tauto |].
  split; [vm_compute; reflexivity | intros o; destruct o; vm_compute; tauto].
Qed.

(* built-in functions: name -> arity range, looked up as the model does *)
Fixpoint assoc_arity (name : str) (l : list (string * (N * N))) : option (N * N) :=
  match l with
  | [] => None
  | (n, a) :: r => if str_eqb name (s2l n) then Some a else assoc_arity name r
  end.
Theorem arities_are_the_sources : forall name, builtin_arity name = assoc_arity name src_arity.
Proof. intros name. reflexivity. Qed.
