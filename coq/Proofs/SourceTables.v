(* The model's tables are the source's tables.  Gen/SourceTables.v is regenerated from /repo/src on every run by
   tools/tables.py; the statements below are closed by computation, so a table changed in the source (a reserved word
   added, moved or respelled, an operator's precedence, a built-in's arity range, a token's listed spelling) makes this
   file fail to compile: the model no longer describes the code, whatever the differential runs happen to sample. *)
From Coq Require Import String NArith List Bool.
Import ListNotations.
From BL Require Import Base.Prelude Lang.Token Lang.Lex Lang.Parse Mach.Func Gen.SourceTables.
Local Open Scope N_scope.

(* reserved words: the same words, the same tokens, in the same order (the order decides between words found at one place) *)
Theorem keywords_are_the_sources : keyword_table = map (fun p => (s2l (fst p), snd p)) src_keywords.
Proof. vm_compute. reflexivity. Qed.

(* single-character tokens: every arm of the source is an arm of the model, and the model has no other *)
Theorem minutia_arms_are_the_sources : map (fun p => match_minutia (fst p)) src_minutia = map (fun p => Some (snd p)) src_minutia.
Proof. vm_compute. reflexivity. Qed.
Theorem minutia_has_no_other_arm : forall c, match_minutia c <> None -> In c (map fst src_minutia).
Proof.
  intros c. unfold match_minutia.
  repeat match goal with |- context [c =? ?k] => destruct (N.eqb_spec c k) as [-> | _]; [intros _; vm_compute; tauto |] end.
  intros H. exfalso. apply H. reflexivity.
Qed.

(* listed spellings *)
Theorem word_display_is_the_sources :
  map (fun p => word_str (fst p)) src_word_display = map (fun p => s2l (snd p)) src_word_display /\ forall w, In w (map fst src_word_display).
Proof. split; [vm_compute; reflexivity | intros w; destruct w; vm_compute; tauto]. Qed.
Theorem operator_display_is_the_sources :
  map (fun p => op_str (fst p)) src_op_display = map (fun p => s2l (snd p)) src_op_display /\ forall o, In o (map fst src_op_display).
Proof. split; [vm_compute; reflexivity | intros o; destruct o; vm_compute; tauto]. Qed.
Theorem operator_words_are_the_sources :
  map (fun p => op_is_word (fst p)) src_op_is_word = map snd src_op_is_word /\ forall o, In o (map fst src_op_is_word).
Proof. split; [vm_compute; reflexivity | intros o; destruct o; vm_compute; tauto]. Qed.

(* precedences *)
Theorem precedences_are_the_sources :
  map (fun p => unary_prec (fst p)) src_unary_prec = map snd src_unary_prec /\ (forall o, In o (map fst src_unary_prec))
  /\ map (fun p => binary_prec (fst p)) src_binary_prec = map snd src_binary_prec /\ (forall o, In o (map fst src_binary_prec)).
Proof.
  split; [vm_compute; reflexivity |]. split; [intros o; destruct o; vm_compute; tauto |].
  split; [vm_compute; reflexivity | intros o; destruct o; vm_compute; tauto].
Qed.

(* built-in functions: name -> arity range, looked up as the model does *)
Fixpoint assoc_arity (name : str) (l : list (string * (N * N))) : option (N * N) :=
  match l with
  | [] => None
  | (n, a) :: r => if str_eqb name (s2l n) then Some a else assoc_arity name r
  end.
Theorem arities_are_the_sources : forall name, builtin_arity name = assoc_arity name src_arity.
Proof. intros name. reflexivity. Qed.

(* error numbers: every code the model raises is the source's number for that error *)
From BL Require Import Mach.Compile Mach.Runtime.
Theorem error_codes_are_the_sources :
  E_Break = src_E_Break /\ E_NextWithoutFor = src_E_NextWithoutFor /\ E_Syntax = src_E_SyntaxError
  /\ E_ReturnWithoutGosub = src_E_ReturnWithoutGosub /\ E_OutOfData = src_E_OutOfData
  /\ E_IllegalFunctionCall = src_E_IllegalFunctionCall /\ E_Overflow = src_E_Overflow /\ E_OutOfMemory = src_E_OutOfMemory
  /\ E_UndefinedLine = src_E_UndefinedLine /\ E_Subscript = src_E_SubscriptOutOfRange /\ E_Redim = src_E_RedimensionedArray
  /\ E_DivByZero = src_E_DivisionByZero /\ E_IllegalDirect = src_E_IllegalDirect /\ E_TypeMismatch = src_E_TypeMismatch
  /\ E_StringTooLong = src_E_StringTooLong /\ E_CantContinue = src_E_CantContinue /\ E_UndefinedFn = src_E_UndefinedUserFunction
  /\ E_Redo = src_E_RedoFromStart /\ E_LineBufferOverflow = src_E_LineBufferOverflow /\ E_WhileWithoutWend = src_E_WhileWithoutWend
  /\ E_WendWithoutWhile = src_E_WendWithoutWhile /\ E_Internal = src_E_InternalError /\ E_DirectInFile = src_E_DirectStatementInFile.
Proof. repeat split; reflexivity. Qed.

(* limits: the largest line number (the theorems of C14, C15 and C05 say 65529), the longest line, the pool size, and the
   head-room below it at which a failed program's stack is dropped *)
Theorem limits_are_the_sources :
  src_max_line_number = 65529 /\ MAX_LINE_LEN = src_max_line_len /\ MAX_POOL = src_max_pool
  /\ forall r, stack_is_full r = (src_max_pool - src_full_headroom <? r_slen r).
Proof. repeat split; reflexivity. Qed.

(* the operator merges of the post passes: which two operator characters become which operator -- with blanks between
   them (collapse_triples) and without (collapse_doubles) -- are the source's if-chains, read arm by arm *)
Definition operator_eq_dec (a b : operator) : {a = b} + {a <> b}.
Proof. decide equality. Defined.
Fixpoint assoc_merge (a c : operator) (l : list (operator * operator * operator)) : option operator :=
  match l with
  | [] => None
  | (x, y, z) :: r => if operator_eq_dec a x then (if operator_eq_dec c y then Some z else assoc_merge a c r) else assoc_merge a c r
  end.
Theorem merges_are_the_sources : forall a c n,
  triple_at (TOp a) (TWs n) (TOp c) = option_map TOp (assoc_merge a c src_triple_merges)
  /\ double_at (TOp a) (TOp c) = option_map TOp (assoc_merge a c src_double_merges).
Proof. intros a c n. destruct a; destruct c; split; reflexivity. Qed.
