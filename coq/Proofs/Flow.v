(* C01: control flow.  For programs made of LET (scalar variable, expression without function calls and arrays), GOTO,
   ON..GOTO and END, the code that compilation and linking produce, run on the VM, follows the reference semantics
   Spec/Sem.v statement by statement.  Part 1: what the code generator emits for each statement. *)
From BL Require Import Base.Prelude Base.Floats Mach.Val Mach.Ops Mach.Func Mach.Var
     Lang.Token Lang.Lex Lang.Ast Lang.Parse Mach.Compile Mach.Listing Mach.Runtime Spec.Sem Proofs.ExprCompile.
From Coq Require Import Lia.
Local Open Scope N_scope.

(* a fragment without DATA, without symbols of its own and without WHILE/WEND: code plus references to line numbers *)
Definition raw (cur : Z) (ops : list opcode) (unl : list (N * (col * Z))) : link := mkLink cur ops [] 0 false [] unl [].

(* the target of a branch as the parser leaves it: a Single literal; n is the line it denotes *)
Definition target_is (b : Z) (n : N) : Prop := to_line_number (VSng b) = Ok n.

Lemma l_push_raw cur ops unl op : lenN (ops ++ [op]) <= MAX_POOL -> l_push op (raw cur ops unl) = (raw cur (ops ++ [op]) unl, Ok tt).
Proof. intros H. unfold l_push, raw, set_ops. cbn. destruct (N.ltb_spec MAX_POOL (lenN (ops ++ [op]))); [lia | reflexivity]. Qed.

Lemma frag_one op c : run_frag (ldo _ <~ l_push op ;; lret c) = ((c, plain [op]), []).
Proof. reflexivity. Qed.

Lemma cg_literal_sng ce b : cg_expr (ESng ce b) = ((ce, plain [OpLiteral (VSng b)]), []).
Proof. reflexivity. Qed.

Lemma cg_goto_shape : forall c ce b n, target_is b n ->
  cg_stmt (SGoto c (ESng ce b)) = (((fst c, snd ce), raw 0 [OpJump 0] [(0, (ce, Z.of_N n))]), []).
Proof.
  intros c ce b n Ht. unfold target_is in Ht. cbn [cg_stmt]. rewrite cg_literal_sng.
  unfold run_frag, lbind, pop_line_number, link_line_number. cbn [snd fst plain l_ops]. rewrite Ht. cbn [bind lret].
  reflexivity.
Qed.

Lemma cg_end_shape : forall c, cg_stmt (SEnd c) = ((c, raw 0 [OpEnd] []), []).
Proof. reflexivity. Qed.

(* ---------- ON e GOTO t1, t2, ... ---------- *)
Definition tgt := (col * Z * N)%type.          (* column, the literal's bits, the line it denotes *)
Definition tgt_expr (t : tgt) : expr := ESng (fst (fst t)) (snd (fst t)).
Definition tgt_ok (t : tgt) : Prop := target_is (snd (fst t)) (snd t).

Fixpoint jump_refs (base : N) (ts : list tgt) : list (N * (col * Z)) :=
  match ts with
  | [] => []
  | t :: r => (base, (fst (fst t), Z.of_N (snd t))) :: jump_refs (base + 1) r
  end.

Definition keys_below (unl : list (N * (col * Z))) (n : N) : Prop := forall k v, In (k, v) unl -> k < n.

Lemma nassoc_set_fresh {V} k (v : V) l : (forall k' v', In (k', v') l -> k' <> k) -> nassoc_set k v l = l ++ [(k, v)].
Proof.
  induction l as [| [k' v'] r IH]; intros H; cbn; [reflexivity |].
  destruct (N.eqb_spec k k') as [-> | _]; [exfalso; apply (H k' v'); [left; reflexivity | reflexivity] |].
  rewrite IH; [reflexivity |]. intros a b Hin. apply (H a b). right. exact Hin.
Qed.

Lemma jump_refs_keys base ts k v : In (k, v) (jump_refs base ts) -> base <= k < base + lenN ts.
Proof.
  revert base. induction ts as [| t r IH]; intros base H; [destruct H |]. cbn [jump_refs] in H.
  assert (Hl : lenN (t :: r) = lenN r + 1) by (unfold lenN; cbn [length]; lia).
  destruct H as [E | H]; [injection E as <- _; lia | specialize (IH (base + 1) H); lia].
Qed.

Lemma cg_on_targets_shape : forall (ts : list tgt) c cur ops unl sub_end,
  Forall tgt_ok ts -> keys_below unl (lenN ops) -> lenN ops + lenN ts <= MAX_POOL ->
  exists se, cg_on_targets c (map (fun t : tgt => (fst (fst t), plain [OpLiteral (VSng (snd (fst t)))])) ts) sub_end (raw cur ops unl)
             = (raw cur (ops ++ repeat (OpJump 0) (length ts)) (unl ++ jump_refs (lenN ops) ts), Ok se).
Proof.
  induction ts as [| t r IH]; intros c cur ops unl sub_end Hok Hk Hs.
  - exists sub_end. cbn. rewrite !app_nil_r. reflexivity.
  - inversion Hok as [| ? ? Ht Hr]; subst. unfold tgt_ok, target_is in Ht.
    assert (Hl : lenN (t :: r) = lenN r + 1) by (unfold lenN; cbn [length]; lia).
    cbn [map cg_on_targets]. unfold link_line_number. cbn [snd fst plain l_ops]. rewrite Ht. cbn [bind].
    unfold lbind at 1. unfold l_push_goto, lbind, sym_of_line, lret, l_push_jump, lbind, l_unlink_here.
    cbn [raw l_cur l_ops l_data l_data_pos l_direct_set l_syms l_unlinked l_whiles].
    rewrite (nassoc_set_fresh (lenN ops)) by (intros k' v' Hin E; specialize (Hk k' v' Hin); lia).
    change (mkLink cur ops [] 0 false [] (unl ++ [(lenN ops, (fst (fst t), Z.of_N (snd t)))]) []) with (raw cur ops (unl ++ [(lenN ops, (fst (fst t), Z.of_N (snd t)))])).
    rewrite l_push_raw by (rewrite lenN_app, lenN_one; lia).
    destruct (IH c cur (ops ++ [OpJump 0]) (unl ++ [(lenN ops, (fst (fst t), Z.of_N (snd t)))]) (snd (fst (fst t))) Hr) as [se E].
    + intros k v Hin. rewrite lenN_app, lenN_one. apply in_app_or in Hin. destruct Hin as [Hin | [E | []]]; [specialize (Hk k v Hin); lia | injection E as <- _; lia].
    + rewrite lenN_app, lenN_one. lia.
    + exists se. rewrite E. cbn [length repeat jump_refs]. rewrite <- !app_assoc. cbn [app]. rewrite lenN_app, lenN_one. reflexivity.
Qed.

Definition on_code (e : expr) (ts : list tgt) : list opcode :=
  OpLiteral (VInt (Z.of_N (lenN ts))) :: postfix e ++ [OpOn] ++ repeat (OpJump 0) (length ts).

Lemma l_append_raw cur ops unl b : lenN (ops ++ b) <= MAX_POOL -> l_append (plain b) (raw cur ops unl) = (raw cur (ops ++ b) unl, Ok tt).
Proof.
  intros H. unfold l_append, plain, raw, set_data. cbn.
  destruct (N.ltb_spec MAX_POOL (lenN (ops ++ b))); [lia |]. cbn. rewrite Z.add_0_r. reflexivity.
Qed.

Lemma cg_on_shape : forall c e (ts : list tgt), pure e = true -> Forall tgt_ok ts -> lenN ts <= 32767 ->
  lenN (on_code e ts) <= MAX_POOL ->
  exists se, cg_stmt (SOnGoto c e (map tgt_expr ts))
             = (((fst c, se), raw (-1) (on_code e ts) (jump_refs (2 + lenN (postfix e)) ts)), []).
Proof.
  intros c e ts Hp Hok Hlen Hs. unfold on_code in *.
  assert (Hsz : 1 + lenN (postfix e) + 1 + lenN ts <= MAX_POOL).
  { revert Hs. unfold lenN. cbn [length]. rewrite !app_length, repeat_length. cbn [length]. lia. }
  destruct (cg_expr_postfix e Hp ltac:(lia)) as [E1 E2].
  cbn [cg_stmt]. destruct (cg_expr e) as [[ec el] eerrs]. cbn [fst snd] in E1, E2. subst el eerrs.
  assert (Hm1 : map fst (map cg_expr (map tgt_expr ts)) = map (fun t : tgt => (fst (fst t), plain [OpLiteral (VSng (snd (fst t)))])) ts).
  { rewrite !map_map. apply map_ext. intros t. reflexivity. }
  assert (Hm2 : flat_map snd (map cg_expr (map tgt_expr ts)) = []).
  { clear. induction ts; cbn; auto. }
  cbv zeta. rewrite Hm1, Hm2. cbn [app].
  unfold run_frag. unfold lbind at 1. unfold lift, val_of_len.
  assert (Hlm : lenN (map tgt_expr ts) = lenN ts) by (unfold lenN; rewrite map_length; reflexivity).
  rewrite Hlm. destruct (N.leb_spec (lenN ts) 32767); [| lia].
  unfold lbind at 1. unfold l_next_symbol. cbn [link_empty l_cur l_ops l_data l_data_pos l_direct_set l_syms l_unlinked l_whiles Z.sub].
  change (mkLink (0 - 1) [] [] 0 false [] [] []) with (raw (-1) [] []).
  unfold lbind at 1. cbn [lret]. unfold lbind at 1.
  rewrite (l_push_raw (-1) [] []) by (cbn [app]; rewrite lenN_one; unfold MAX_POOL; lia). cbn [app].
  unfold lbind at 1. cbn [snd].
  rewrite (l_append_raw (-1) [OpLiteral (VInt (Z.of_N (lenN ts)))] [] (postfix e)) by (rewrite lenN_app, lenN_one; lia).
  unfold lbind at 1. rewrite l_push_raw by (rewrite !lenN_app, !lenN_one; lia).
  unfold lbind at 1.
  destruct (cg_on_targets_shape ts c (-1) (([OpLiteral (VInt (Z.of_N (lenN ts)))] ++ postfix e) ++ [OpOn]) [] (snd ec) Hok) as [se E].
  - intros k v [].
  - rewrite !lenN_app, !lenN_one. lia.
  - cbn [fst snd] in *. rewrite E. exists se. cbn [lbind lret]. unfold lbind, lret. cbn [app].
    rewrite <- !app_assoc. cbn [app].
    assert (El : lenN (OpLiteral (VInt (Z.of_N (lenN ts))) :: postfix e ++ [OpOn]) = 2 + lenN (postfix e))
      by (unfold lenN; cbn [length]; rewrite app_length; cbn [length]; lia).
    rewrite El. reflexivity.
Qed.

(* ---------- PRINT e1 e2 ... (items without function calls: TAB and SPC are calls) ---------- *)
Definition print_code (es : list expr) : list opcode := flat_map (fun e => postfix e ++ [OpPrint]) es.

Lemma print_code_app a b : print_code (a ++ b) = print_code a ++ print_code b.
Proof. unfold print_code. apply flat_map_app. Qed.

Lemma cg_print_shape : forall c es, forallb pure es = true -> lenN (print_code es) <= MAX_POOL ->
  cg_stmt (SPrint c es) = ((c, plain (print_code es)), []).
Proof.
  intros c es Hp Hs. cbn [cg_stmt].
  assert (Hfr : forall es0 : list expr, forallb pure es0 = true -> lenN (print_code es0) <= MAX_POOL ->
            map fst (map cg_expr es0) = map (fun e => (fst (fst (cg_expr e)), plain (postfix e))) es0 /\ flat_map snd (map cg_expr es0) = []).
  { induction es0 as [| e r IH]; intros Hp0 Hs0; [split; reflexivity |]. cbn [forallb] in Hp0. apply andb_prop in Hp0. destruct Hp0 as [He Hr].
    cbn [print_code flat_map] in Hs0. fold (print_code r) in Hs0. rewrite !lenN_app, lenN_one in Hs0.
    destruct (cg_expr_postfix e He ltac:(lia)) as [E1 E2]. destruct (IH Hr ltac:(lia)) as [I1 I2].
    cbn [map flat_map]. rewrite I1, I2, E2. split; [| reflexivity]. f_equal.
    destruct (cg_expr e) as [[ce le] ee]. cbn [fst snd] in *. subst le. reflexivity. }
  destruct (Hfr es Hp Hs) as [E1 E2]. rewrite E1, E2. cbn [app].
  assert (G : forall (es0 : list expr) acc (m0 : LM unit), forallb pure es0 = true -> lenN (acc ++ print_code es0) <= MAX_POOL ->
            m0 link_empty = (plain acc, Ok tt) ->
            fold_left (fun (m : LM unit) (f : col * link) => ldo _ <~ m ;; ldo _ <~ l_append (snd f) ;; l_push OpPrint)
                      (map (fun e => (fst (fst (cg_expr e)), plain (postfix e))) es0) m0 link_empty
            = (plain (acc ++ print_code es0), Ok tt)).
  { induction es0 as [| e r IH]; intros acc m0 Hp0 Hs0 H0; cbn [map fold_left print_code flat_map]; [rewrite app_nil_r; exact H0 |].
    fold (print_code r). cbn [forallb] in Hp0. apply andb_prop in Hp0. destruct Hp0 as [He Hr].
    cbn [print_code flat_map] in Hs0. fold (print_code r) in Hs0. rewrite !lenN_app, lenN_one in Hs0.
    replace (acc ++ (postfix e ++ [OpPrint]) ++ print_code r) with ((acc ++ postfix e ++ [OpPrint]) ++ print_code r) by (rewrite <- !app_assoc; reflexivity).
    apply IH; [exact Hr | rewrite !lenN_app, lenN_one; lia |].
    unfold lbind. rewrite H0. cbn [snd]. rewrite (l_append_plain acc (postfix e)) by (rewrite lenN_app; lia).
    rewrite (l_push_plain OpPrint (acc ++ postfix e)) by (rewrite !lenN_app, lenN_one; lia). rewrite <- app_assoc. reflexivity. }
  pose proof (G es [] (lret tt) Hp Hs eq_refl) as Hfold. cbn [app] in Hfold.
  unfold run_frag. unfold lbind at 1. cbv beta. rewrite Hfold. reflexivity.
Qed.

(* ====================================================================================================
   Part 2: the layout of a compiled program
   ==================================================================================================== *)

(* what one statement of the fragment contributes: code with placeholder jumps, references (relative address, column,
   target line), and the number of local symbols it consumes *)
Record piece := mkPiece { pc_ops : list opcode; pc_refs : list (N * (col * Z)); pc_cur : Z }.

Inductive fstmt : stmt -> piece -> Prop :=
| fs_let : forall c cv i e, pure e = true -> builtin_arity (ident_str i) = None ->
    fstmt (SLet c (VUnary cv i) e) (mkPiece (let_code i e) [] 0)
| fs_goto : forall c ce b n, target_is b n ->
    fstmt (SGoto c (ESng ce b)) (mkPiece [OpJump 0] [(0, (ce, Z.of_N n))] 0)
| fs_on : forall c e (ts : list tgt), pure e = true -> Forall tgt_ok ts -> lenN ts <= 32767 ->
    fstmt (SOnGoto c e (map tgt_expr ts)) (mkPiece (on_code e ts) (jump_refs (2 + lenN (postfix e)) ts) (-1))
| fs_end : forall c, fstmt (SEnd c) (mkPiece [OpEnd] [] 0)
| fs_print : forall c es, forallb pure es = true -> fstmt (SPrint c es) (mkPiece (print_code es) [] 0).

Lemma refs_in_code s p : fstmt s p -> forall k v, In (k, v) (pc_refs p) -> k < lenN (pc_ops p) /\ (0 <= snd v)%Z.
Proof.
  intros H k v Hin. destruct H; cbn [pc_refs pc_ops] in *.
  - destruct Hin.
  - destruct Hin as [E | []]. injection E as <- <-. cbn. unfold lenN. cbn. lia.
  - pose proof (jump_refs_keys _ _ _ _ Hin) as Hk. split.
    + unfold on_code, lenN in *. cbn [length]. rewrite !app_length, repeat_length. cbn [length]. lia.
    + clear - Hin. revert Hin. generalize (2 + lenN (postfix e)). induction ts as [| t r IH]; intros base Hin; [destruct Hin |].
      destruct Hin as [E | Hin]; [injection E as _ <-; cbn; lia | exact (IH _ Hin)].
  - destruct Hin.
  - destruct Hin.
Qed.

Lemma fstmt_cg s p : fstmt s p -> lenN (pc_ops p) <= MAX_POOL ->
  exists c, cg_stmt s = ((c, raw (pc_cur p) (pc_ops p) (pc_refs p)), []).
Proof.
  intros H Hs. destruct H; cbn [pc_ops pc_refs pc_cur] in *.
  - destruct (cg_let_shape c cv i e H H0 Hs) as [E1 E2]. destruct (cg_stmt (SLet c (VUnary cv i) e)) as [[cc l] errs].
    cbn [fst snd] in *. subst. exists cc. reflexivity.
  - eexists. apply cg_goto_shape. exact H.
  - destruct (cg_on_shape c e ts H H0 H1 Hs) as [se E]. eexists. exact E.
  - eexists. reflexivity.
  - eexists. apply (cg_print_shape c es H Hs).
Qed.

(* the link of a program under compilation: no DATA, no WHILE/WEND *)
Definition plink (cur : Z) (ops : list opcode) (syms : list (Z * (N * N))) (unl : list (N * (col * Z))) (dp : N) : link :=
  mkLink cur ops [] dp false syms unl [].

Definition shift (by_ : N) (refs : list (N * (col * Z))) : list (N * (col * Z)) :=
  map (fun r => (fst r + by_, snd r)) refs.

Fixpoint keys_inc (l : list (N * (col * Z))) (lo : N) : Prop :=
  match l with [] => True | (k, _) :: r => lo <= k /\ keys_inc r (k + 1) end.

Lemma nassoc_fold_fresh : forall (refs : list (N * (col * Z))) (so : Z) oo acc lo,
  keys_below acc (lo + oo) -> keys_inc refs lo -> (forall k v, In (k, v) refs -> (0 <= snd v)%Z) ->
  fold_left (fun a e => nassoc_set (fst e + oo) (fst (snd e), (if (snd (snd e) <? 0)%Z then (snd (snd e) + so)%Z else snd (snd e))) a) refs acc
  = acc ++ shift oo refs.
Proof.
  induction refs as [| [k [c sy]] r IH]; intros so oo acc lo Hk Hinc Hpos; cbn [fold_left shift map]; [rewrite app_nil_r; reflexivity |].
  cbn [fst snd]. assert (Hs : (0 <= sy)%Z) by (apply (Hpos k (c, sy)); left; reflexivity).
  destruct (Z.ltb_spec sy 0); [lia |]. cbn [keys_inc] in Hinc. destruct Hinc as [Hlo Hinc].
  rewrite nassoc_set_fresh by (intros k' v' Hin E; specialize (Hk k' v' Hin); lia).
  rewrite (IH so oo _ (k + 1)); [rewrite <- app_assoc; reflexivity | | exact Hinc |].
  - intros k' v' Hin. apply in_app_or in Hin. destruct Hin as [Hin | [E | []]]; [specialize (Hk k' v' Hin); lia | injection E as <- _; lia].
  - intros k' v' Hin. apply (Hpos k' v'). right. exact Hin.
Qed.

Lemma jump_refs_inc : forall ts base, keys_inc (jump_refs base ts) base.
Proof. induction ts as [| t r IH]; intros base; cbn; [exact I |]. split; [lia | apply IH]. Qed.

Lemma fstmt_refs_inc s p : fstmt s p -> keys_inc (pc_refs p) 0.
Proof.
  intros H. destruct H; cbn [pc_refs keys_inc]; try exact I.
  - split; [lia | exact I].
  - assert (G : forall ts base lo, lo <= base -> keys_inc (jump_refs base ts) lo).
    { clear. induction ts as [| t r IH]; intros base lo Hl; cbn; [exact I |]. split; [exact Hl | apply IH; lia]. }
    apply G. lia.
Qed.

(* appending a statement's fragment to the program link *)
Lemma l_append_plink : forall s p cur ops syms unl dp, fstmt s p -> keys_below unl (lenN ops) ->
  lenN (ops ++ pc_ops p) <= MAX_POOL ->
  l_append (raw (pc_cur p) (pc_ops p) (pc_refs p)) (plink cur ops syms unl dp)
  = (plink (cur + pc_cur p) (ops ++ pc_ops p) syms (unl ++ shift (lenN ops) (pc_refs p)) dp, Ok tt).
Proof.
  intros s p cur ops syms unl dp Hf Hk Hs. unfold l_append, raw, plink, set_data.
  cbn [l_direct_set l_data l_ops l_cur l_syms l_unlinked l_whiles l_data_pos andb fold_left map app].
  rewrite (nassoc_fold_fresh (pc_refs p) cur (lenN ops) unl 0).
  - cbn [l_ops]. destruct (N.ltb_spec MAX_POOL (lenN (ops ++ pc_ops p))); [lia |]. cbn. reflexivity.
  - intros k v Hin. specialize (Hk k v Hin). lia.
  - exact (fstmt_refs_inc s p Hf).
  - intros k v Hin. exact (proj2 (refs_in_code s p Hf k v Hin)).
Qed.

Definition is_plink (L : link) : Prop := L = plink (l_cur L) (l_ops L) (l_syms L) (l_unlinked L) (l_data_pos L).

Definition add_piece (L : link) (p : piece) : link :=
  plink (l_cur L + pc_cur p) (l_ops L ++ pc_ops p) (l_syms L) (l_unlinked L ++ shift (lenN (l_ops L)) (pc_refs p)) (l_data_pos L).

Definition add_line (L : link) (ln : N * list piece) : link :=
  fold_left add_piece (snd ln)
    (plink (l_cur L) (l_ops L) (zassoc_set (Z.of_N (fst ln)) (lenN (l_ops L), 0) (l_syms L)) (l_unlinked L) (l_data_pos L)).

Definition layout (lines : list (N * list piece)) (dp : N) : link := fold_left add_line lines (plink 0 [] [] [] dp).

Definition well_keyed (L : link) : Prop := keys_below (l_unlinked L) (lenN (l_ops L)).

Lemma add_piece_keyed s L p : fstmt s p -> well_keyed L -> well_keyed (add_piece L p).
Proof.
  intros Hf Hk k v Hin. unfold add_piece, plink in *. cbn [l_unlinked l_ops] in *. rewrite lenN_app.
  apply in_app_or in Hin. destruct Hin as [Hin | Hin]; [specialize (Hk k v Hin); lia |].
  unfold shift in Hin. rewrite in_map_iff in Hin. destruct Hin as [[k0 v0] [E Hin]]. cbn in E. injection E as <- <-.
  pose proof (proj1 (refs_in_code s p Hf k0 v0 Hin)). lia.
Qed.

(* appending the fragments of a line's statements *)
Lemma append_frags_layout : forall stmts pieces pr,
  Forall2 fstmt stmts pieces -> is_plink (pg_link pr) -> well_keyed (pg_link pr) ->
  lenN (l_ops (fold_left add_piece pieces (pg_link pr))) <= MAX_POOL ->
  exists frs, map cg_stmt stmts = map (fun f => (f, @nil error)) frs /\
    append_stmt_frags pr frs = with_link pr (fold_left add_piece pieces (pg_link pr)).
Proof.
  induction stmts as [| s r IH]; intros pieces pr H2 Hpl Hk Hs; inversion H2 as [| ? p ? ps Hf Hr]; subst.
  - exists []. split; [reflexivity |]. cbn. destruct pr; reflexivity.
  - cbn [fold_left] in Hs.
    assert (Hmono : forall ps L, lenN (l_ops L) <= lenN (l_ops (fold_left add_piece ps L))).
    { clear. induction ps as [| q qs IHq]; intros L; cbn [fold_left]; [lia |]. specialize (IHq (add_piece L q)).
      assert (E : l_ops (add_piece L q) = l_ops L ++ pc_ops q) by reflexivity. rewrite E, lenN_app in IHq. lia. }
    assert (Hs1 : lenN (l_ops (pg_link pr) ++ pc_ops p) <= MAX_POOL).
    { pose proof (Hmono ps (add_piece (pg_link pr) p)) as Hm.
      assert (E : l_ops (add_piece (pg_link pr) p) = l_ops (pg_link pr) ++ pc_ops p) by reflexivity. rewrite E in Hm. lia. }
    destruct (fstmt_cg s p Hf ltac:(rewrite lenN_app in Hs1; lia)) as [c Ec].
    set (pr1 := with_link pr (add_piece (pg_link pr) p)).
    destruct (IH ps pr1 Hr) as (frs & Em & Ea).
    + unfold pr1, with_link, is_plink, add_piece, plink. cbn. reflexivity.
    + unfold pr1, with_link. cbn [pg_link]. exact (add_piece_keyed s _ p Hf Hk).
    + unfold pr1, with_link. cbn [pg_link]. exact Hs.
    + exists ((c, raw (pc_cur p) (pc_ops p) (pc_refs p)) :: frs). split; [cbn [map]; rewrite Ec, Em; reflexivity |].
      cbn [append_stmt_frags snd]. rewrite Hpl.
      rewrite (l_append_plink s p _ _ _ _ _ Hf Hk Hs1).
      fold (add_piece (pg_link pr) p). rewrite <- Hpl. fold pr1. rewrite Ea. unfold pr1, with_link. cbn [pg_link fold_left]. reflexivity.
Qed.

(* one numbered line *)
Lemma codegen_line_layout : forall n stmts pieces pr,
  Forall2 fstmt stmts pieces -> is_plink (pg_link pr) -> well_keyed (pg_link pr) -> pg_errors pr = [] ->
  lenN (l_ops (add_line (pg_link pr) (n, pieces))) <= MAX_POOL ->
  codegen_line pr (Some n) (Ok stmts) =
  mkProg [] (pg_ind_errors pr) (pg_direct pr) (Some n) (add_line (pg_link pr) (n, pieces)).
Proof.
  intros n stmts pieces pr H2 Hpl Hk He Hs. unfold codegen_line. unfold l_push_symbol.
  set (p2 := with_link (mkProg (pg_errors pr) (pg_ind_errors pr) (pg_direct pr) (Some n) (pg_link pr)) _).
  assert (Hl2 : pg_link p2 = plink (l_cur (pg_link pr)) (l_ops (pg_link pr)) (zassoc_set (Z.of_N n) (lenN (l_ops (pg_link pr)), 0) (l_syms (pg_link pr)))
                                  (l_unlinked (pg_link pr)) (l_data_pos (pg_link pr))).
  { unfold p2, with_link. cbn [pg_link]. rewrite Hpl. cbn. reflexivity. }
  unfold add_line in Hs |- *. cbn [fst snd] in Hs |- *. rewrite <- Hl2 in Hs |- *.
  destruct (append_frags_layout stmts pieces p2 H2) as (frs & Em & Ea); try exact Hs.
  - rewrite Hl2. unfold is_plink, plink. cbn. reflexivity.
  - rewrite Hl2. unfold well_keyed, plink. cbn [l_unlinked l_ops]. exact Hk.
  - unfold codegen_ast. rewrite Em.
    assert (Hf : flat_map snd (map (fun f : frag => (f, @nil error)) frs) = []) by (clear; induction frs; cbn; auto).
    assert (Hm : map fst (map (fun f : frag => (f, @nil error)) frs) = frs) by (clear; induction frs; cbn; [reflexivity | f_equal; assumption]).
    rewrite Hf, Hm. cbn [fold_left]. rewrite Ea. unfold p2, with_link. cbn. rewrite He. reflexivity.
Qed.

(* the whole program: numbered lines with their statements, compiled from an empty program *)
Definition compile_asts (lines : list (N * list stmt)) (dp : N) : program :=
  fold_left (fun p e => codegen_line p (Some (fst e)) (Ok (snd e))) lines (mkProg [] [] 0 None (plink 0 [] [] [] dp)).

Lemma add_line_keyed : forall n stmts pieces L, Forall2 fstmt stmts pieces -> well_keyed L -> well_keyed (add_line L (n, pieces)).
Proof.
  intros n stmts pieces L H2 Hk. unfold add_line. cbn [fst snd].
  set (L0 := plink _ _ _ _ _). assert (Hk0 : well_keyed L0) by exact Hk. clearbody L0. revert L0 Hk0.
  induction H2 as [| s p ss ps Hf _ IH]; intros L0 Hk0; cbn [fold_left]; [exact Hk0 |].
  apply IH. exact (add_piece_keyed s L0 p Hf Hk0).
Qed.

Lemma add_line_plink : forall ln L, is_plink (add_line L ln).
Proof.
  intros [n ps] L. unfold add_line. cbn [fst snd]. set (L0 := plink _ _ _ _ _).
  assert (H0 : is_plink L0) by (unfold L0, is_plink, plink; reflexivity). clearbody L0. revert L0 H0.
  induction ps as [| p ps IH]; intros L0 H0; cbn [fold_left]; [exact H0 |]. apply IH. unfold is_plink, add_piece, plink. reflexivity.
Qed.

Lemma ops_mono_line : forall ln L, lenN (l_ops L) <= lenN (l_ops (add_line L ln)).
Proof.
  intros [n ps] L. unfold add_line. cbn [fst snd]. set (L0 := plink _ _ _ _ _).
  assert (E0 : l_ops L0 = l_ops L) by reflexivity. rewrite <- E0. clearbody L0. clear E0. revert L0.
  induction ps as [| p ps IH]; intros L0; cbn [fold_left]; [lia |]. specialize (IH (add_piece L0 p)).
  assert (E : l_ops (add_piece L0 p) = l_ops L0 ++ pc_ops p) by reflexivity. rewrite E, lenN_app in IH. lia.
Qed.

Theorem compile_is_layout : forall lines plines dp,
  Forall2 (fun l pl => fst l = fst pl /\ Forall2 fstmt (snd l) (snd pl)) lines plines ->
  lenN (l_ops (layout plines dp)) <= MAX_POOL ->
  pg_link (compile_asts lines dp) = layout plines dp /\ pg_errors (compile_asts lines dp) = []
  /\ pg_direct (compile_asts lines dp) = 0 /\ pg_ind_errors (compile_asts lines dp) = [].
Proof.
  intros lines plines dp. unfold compile_asts, layout.
  set (pr0 := mkProg [] [] 0 None (plink 0 [] [] [] dp)).
  assert (H0 : is_plink (pg_link pr0) /\ well_keyed (pg_link pr0) /\ pg_errors pr0 = [] /\ pg_direct pr0 = 0 /\ pg_ind_errors pr0 = []).
  { unfold pr0. cbn. repeat split; try reflexivity. intros k v []. }
  change (plink 0 [] [] [] dp) with (pg_link pr0). clearbody pr0. revert pr0 H0.
  intros pr0 H0 H2. revert pr0 H0.
  induction H2 as [| [n stmts] [n' pieces] ls pls [En Hf] _ IH]; intros pr0 (Hpl & Hk & He & Hd & Hi) Hs; cbn [fold_left] in *.
  - repeat split; assumption.
  - cbn [fst snd] in En, Hf |- *. subst n'.
    assert (Hmono : forall pls L, lenN (l_ops L) <= lenN (l_ops (fold_left add_line pls L))).
    { clear. induction pls as [| q qs IHq]; intros L; cbn [fold_left]; [lia |]. specialize (IHq (add_line L q)). pose proof (ops_mono_line q L). lia. }
    assert (Hs1 : lenN (l_ops (add_line (pg_link pr0) (n, pieces))) <= MAX_POOL) by (pose proof (Hmono pls (add_line (pg_link pr0) (n, pieces))); lia).
    rewrite (codegen_line_layout n stmts pieces pr0 Hf Hpl Hk He Hs1).
    apply IH.
    + cbn [pg_link pg_errors pg_direct pg_ind_errors]. repeat split; try assumption; try reflexivity.
      * apply add_line_plink.
      * exact (add_line_keyed n stmts pieces _ Hf Hk).
    + cbn [pg_link]. exact Hs.
Qed.
