From Coq Require Import Extraction ExtrOcamlBasic.
From BL Require Import Drv.Driver.
Extraction Language OCaml.
Extraction "model.ml" run_case_default.
