(* C02 -- expressions: precedence, promotion, result types, typed assignment.
   Proved: the precedence tables are the manual's 13 levels; result types of every operator (the wider operand type for
   + - *, Single at least for /, Integer for \ MOD and the logical operators, 0 / -1 for the relational ones); the only
   error of + - * is OVERFLOW between two Integers; conversion on assignment fails only with OVERFLOW, TYPE MISMATCH or
   STRING TOO LONG and otherwise yields a value of the target type (C06_store_typed: nothing else is ever stored);
   compiled expression code computes what the reference semantics prescribes (C01_compiled_expression_correct).
   NOT proved: that the parser builds the tree the precedence table prescribes (differential against a reference
   precedence-climbing parser in the C02 monitor), numeric literal typing, the numeric functions. *)
From BL Require Import Base.Prelude Base.Floats Mach.Val Mach.Ops Mach.Var Lang.Token Lang.Parse Proofs.Promote.
Local Open Scope N_scope.

(* the parser's two tables are the manual's 13 levels *)
Theorem C02_prec_table :
  binary_prec OCaret = 13 /\ unary_prec OMinus = 12 /\ unary_prec OPlus = 12 /\ binary_prec OMul = 11 /\ binary_prec ODiv = 11
  /\ binary_prec ODivInt = 10 /\ binary_prec OMod = 9 /\ binary_prec OPlus = 8 /\ binary_prec OMinus = 8
  /\ (forall o, In o [OEq; ONe; OLt; OLe; OGt; OGe] -> binary_prec o = 7)
  /\ unary_prec ONot = 6 /\ binary_prec OAnd = 5 /\ binary_prec OOr = 4 /\ binary_prec OXor = 3
  /\ binary_prec OImp = 2 /\ binary_prec OEqv = 1.
Proof.
  repeat split; try reflexivity.
  intros o H. cbn in H. repeat (destruct H as [<- | H]; [reflexivity |]). contradiction.
Qed.
Print Assumptions C02_prec_table.

(* relational operators yield exactly 0 or -1 *)
Theorem C02_relational_bool : forall l r v,
  (op_equal l r = Ok v \/ op_not_equal l r = Ok v \/ op_less l r = Ok v \/ op_less_equal l r = Ok v
   \/ op_greater l r = Ok v \/ op_greater_equal l r = Ok v) -> v = VInt 0 \/ v = VInt (-1).
Proof.
  intros l r v H.
  assert (Hb : forall b, bool_val b = VInt 0 \/ bool_val b = VInt (-1)) by (intros []; [right | left]; reflexivity).
  unfold op_equal, op_not_equal, op_less, op_less_equal, op_greater, op_greater_equal, bind in H.
  destruct H as [H | [H | [H | [H | [H | H]]]]];
    match type of H with (match ?e with _ => _ end) = _ => destruct e as [b | | |] end;
    try discriminate; injection H as <-; apply Hb.
Qed.
Print Assumptions C02_relational_bool.

Theorem C02_sum_type : forall l r v tl tr, op_sum l r = Ok v -> val_type l = Some tl -> val_type r = Some tr ->
  numeric l = true -> numeric r = true -> val_type v = Some (wider tl tr).
Proof. exact sum_type. Qed.
Print Assumptions C02_sum_type.

Theorem C02_subtract_type : forall l r v tl tr, op_subtract l r = Ok v -> val_type l = Some tl -> val_type r = Some tr ->
  numeric l = true -> numeric r = true -> val_type v = Some (wider tl tr).
Proof. exact subtract_type. Qed.
Print Assumptions C02_subtract_type.

Theorem C02_multiply_type : forall l r v tl tr, op_multiply l r = Ok v -> val_type l = Some tl -> val_type r = Some tr ->
  numeric l = true -> numeric r = true -> val_type v = Some (wider tl tr).
Proof. exact multiply_type. Qed.
Print Assumptions C02_multiply_type.

Theorem C02_arith_error : forall fi f32 f64 l r e, numeric l = true -> numeric r = true ->
  arith fi f32 f64 l r = Err e -> ecode e = E_Overflow /\ val_type l = Some TInt /\ val_type r = Some TInt.
Proof. exact arith_error. Qed.
Print Assumptions C02_arith_error.

Theorem C02_divide_type : forall l r v tl tr, op_divide l r = Ok v -> val_type l = Some tl -> val_type r = Some tr ->
  val_type v = Some (wider TSng (wider tl tr)).
Proof. exact divide_type. Qed.
Print Assumptions C02_divide_type.

Theorem C02_integer_ops_type : forall l r v,
  (op_divint l r = Ok v \/ op_remainder l r = Ok v \/ op_and l r = Ok v \/ op_or l r = Ok v \/ op_xor l r = Ok v
   \/ op_imp l r = Ok v \/ op_eqv l r = Ok v) ->
  val_type v = Some TInt /\ (exists a b, to_i16 l = Ok a /\ to_i16 r = Ok b).
Proof. exact integer_ops_type. Qed.
Print Assumptions C02_integer_ops_type.

Theorem C02_not_type : forall x v, op_not x = Ok v -> val_type v = Some TInt.
Proof. exact not_type. Qed.
Print Assumptions C02_not_type.

Theorem C02_convert_errors : forall t v e, convert_to t v = Err e ->
  ecode e = E_Overflow \/ ecode e = E_TypeMismatch \/ ecode e = E_StringTooLong.
Proof. exact convert_errors. Qed.
Print Assumptions C02_convert_errors.
