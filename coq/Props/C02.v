(* C02 -- expressions: precedence, promotion, result types, typed assignment.
   Proved: the precedence tables are the manual's 13 levels; result types of every operator (the wider operand type for
   + - *, Single at least for /, Integer for \ MOD and the logical operators, 0 / -1 for the relational ones); the only
   error of + - * is OVERFLOW between two Integers; conversion on assignment fails only with OVERFLOW, TYPE MISMATCH or
   STRING TOO LONG and otherwise yields a value of the target type (C06_store_typed: nothing else is ever stored);
   compiled expression code computes what the reference semantics prescribes (C01_compiled_expression_correct).
   Proved (Proofs/ParseExpr.v): the expression parser builds the tree the table prescribes -- for every expression tree over
   identifiers, literals, array elements / function calls (any number of arguments), unary minus, NOT and the binary operators, at every depth, the parser run on the tokens of the
   tree's minimally parenthesised rendering returns that tree (columns aside) and stops in front of what follows
   (C02_parser_builds_the_tree); more fuel never changes a result (C02_fuel_monotone).
   NOT proved: unary plus (it builds no node), DEF FN parameter renaming, numeric literal typing, the numeric
   functions; that the model's fuel formula suffices (the Rust parser has no fuel; differential). *)
From BL Require Import Base.Prelude Base.Floats Mach.Val Mach.Ops Mach.Var Lang.Token Lang.Parse Proofs.Promote.
Local Open Scope N_scope.

(* the parser's two tables are the manual's 13 levels *)
Theorem C02_prec_table :
  binary_prec OCaret = 13 /\ unary_prec OMinus = 12 /\ unary_prec OPlus = 12 /\ binary_prec OMul = 11 /\ binary_prec ODiv = 11
  /\ binary_prec ODivInt = 10 /\ binary_prec OMod = 9 /\ binary_prec OPlus = 8 /\ binary_prec OMinus = 8
  /\ (forall o, In o [OEq; ONe; OLt; OLe; OGt; OGe] -> binary_prec o = 7)
  /\ unary_prec ONot = 6 /\ binary_prec OAnd = 5 /\ binary_prec OOr = 4 /\ binary_prec OXor = 3
  /\ binary_prec OImp = 2 /\ binary_prec OEqv = 1.
Proof.
  repeat split; try reflexivity.
  intros o H. cbn in H. repeat (destruct H as [<- | H]; [reflexivity |]). contradiction.
Qed.
Print Assumptions C02_prec_table.

(* relational operators yield exactly 0 or -1 *)
Theorem C02_relational_bool : forall l r v,
  (op_equal l r = Ok v \/ op_not_equal l r = Ok v \/ op_less l r = Ok v \/ op_less_equal l r = Ok v
   \/ op_greater l r = Ok v \/ op_greater_equal l r = Ok v) -> v = VInt 0 \/ v = VInt (-1).
Proof.
  intros l r v H.
  assert (Hb : forall b, bool_val b = VInt 0 \/ bool_val b = VInt (-1)) by (intros []; [right | left]; reflexivity).
  unfold op_equal, op_not_equal, op_less, op_less_equal, op_greater, op_greater_equal, bind in H.
  destruct H as [H | [H | [H | [H | [H | H]]]]];
    match type of H with (match ?e with _ => _ end) = _ => destruct e as [b | | |] end;
    try discriminate; injection H as <-; apply Hb.
Qed.
Print Assumptions C02_relational_bool.

Theorem C02_sum_type : forall l r v tl tr, op_sum l r = Ok v -> val_type l = Some tl -> val_type r = Some tr ->
  numeric l = true -> numeric r = true -> val_type v = Some (wider tl tr).
Proof. exact sum_type. Qed.
Print Assumptions C02_sum_type.

Theorem C02_subtract_type : forall l r v tl tr, op_subtract l r = Ok v -> val_type l = Some tl -> val_type r = Some tr ->
  numeric l = true -> numeric r = true -> val_type v = Some (wider tl tr).
Proof. exact subtract_type. Qed.
Print Assumptions C02_subtract_type.

Theorem C02_multiply_type : forall l r v tl tr, op_multiply l r = Ok v -> val_type l = Some tl -> val_type r = Some tr ->
  numeric l = true -> numeric r = true -> val_type v = Some (wider tl tr).
Proof. exact multiply_type. Qed.
Print Assumptions C02_multiply_type.

Theorem C02_arith_error : forall fi f32 f64 l r e, numeric l = true -> numeric r = true ->
  arith fi f32 f64 l r = Err e -> ecode e = E_Overflow /\ val_type l = Some TInt /\ val_type r = Some TInt.
Proof. exact arith_error. Qed.
Print Assumptions C02_arith_error.

Theorem C02_divide_type : forall l r v tl tr, op_divide l r = Ok v -> val_type l = Some tl -> val_type r = Some tr ->
  val_type v = Some (wider TSng (wider tl tr)).
Proof. exact divide_type. Qed.
Print Assumptions C02_divide_type.

Theorem C02_integer_ops_type : forall l r v,
  (op_divint l r = Ok v \/ op_remainder l r = Ok v \/ op_and l r = Ok v \/ op_or l r = Ok v \/ op_xor l r = Ok v
   \/ op_imp l r = Ok v \/ op_eqv l r = Ok v) ->
  val_type v = Some TInt /\ (exists a b, to_i16 l = Ok a /\ to_i16 r = Ok b).
Proof. exact integer_ops_type. Qed.
Print Assumptions C02_integer_ops_type.

Theorem C02_not_type : forall x v, op_not x = Ok v -> val_type v = Some TInt.
Proof. exact not_type. Qed.
Print Assumptions C02_not_type.

Theorem C02_convert_errors : forall t v e, convert_to t v = Err e ->
  ecode e = E_Overflow \/ ecode e = E_TypeMismatch \/ ecode e = E_StringTooLong.
Proof. exact convert_errors. Qed.
Print Assumptions C02_convert_errors.

(* ---- the parser builds the tree the table prescribes (Proofs/ParseExpr.v) ---- *)
From BL Require Import Lang.Token Lang.Ast Lang.Parse Proofs.ParseExpr.
From Coq Require Import String.
Local Open Scope string_scope.

(* more fuel (the model's stand-in for the Rust call stack) never changes a parse result *)
Theorem C02_fuel_monotone : forall f,
  (forall vm p, le_ok (descend f vm p) (descend (S f) vm p))
  /\ (forall vm p lhs, le_ok (climb f vm p lhs) (climb (S f) vm p lhs))
  /\ (forall vm, le_ok (expr_list f vm) (expr_list (S f) vm)).
Proof. exact fuel_mono. Qed.
Print Assumptions C02_fuel_monotone.

(* the invariant of precedence climbing, for every expression tree over identifiers, literals, array elements / calls,
   unary minus, NOT and the eighteen binary operators, at every nesting depth: the parser in front of the tokens of x (operands that bind at least
   as strongly as the position demands) behaves like its loop holding the tree of x *)
Theorem C02_precedence_climbing : forall x, wf x ->
  forall p n rest st, p < n -> n <= eprec x -> lead_le n rest -> rep st (raw x ++ rest) -> like_climb p st x rest.
Proof. exact key. Qed.
Print Assumptions C02_precedence_climbing.

(* the parser, in front of the minimally parenthesised rendering of x (blank tokens may sit anywhere among its tokens:
   `rep st ts` speaks of the visible tokens) followed by anything that cannot continue an expression, returns the tree of x -- columns aside -- and stands in front of what follows *)
Theorem C02_parser_builds_the_tree : forall x rest st, wf x -> rep st (raw x ++ rest) -> lead_le 0 rest ->
  exists f e st', descend f [] 0 st = Ok (e, st') /\ strip e = tree x /\ rep st' rest
                  /\ forall g, (f <= g)%nat -> descend g [] 0 st = Ok (e, st').
Proof. exact parser_builds_the_tree. Qed.
Print Assumptions C02_parser_builds_the_tree.

Theorem C02_expression_parses_rendering : forall x rest toks cs ce, wf x -> forallb clean rest = true -> lead_le 0 rest ->
  no_rem toks = true -> vis toks = (raw x ++ rest)%list ->
  exists f e st', expression f (mkP toks None false cs ce) = Ok (e, st') /\ strip e = tree x /\ rep st' rest.
Proof. exact expression_parses_rendering. Qed.
Print Assumptions C02_expression_parses_rendering.

(* blanks between the tokens -- any number, anywhere (`vis` drops them) -- do not change the tree *)
Theorem C02_blanks_do_not_matter : forall x rest toks toks' cs ce cs' ce', wf x -> forallb clean rest = true -> lead_le 0 rest ->
  no_rem toks = true -> no_rem toks' = true -> vis toks = (raw x ++ rest)%list -> vis toks' = (raw x ++ rest)%list ->
  exists f e st e' st', expression f (mkP toks None false cs ce) = Ok (e, st) /\ expression f (mkP toks' None false cs' ce') = Ok (e', st')
                        /\ strip e = strip e'.
Proof. exact blanks_do_not_matter. Qed.
Print Assumptions C02_blanks_do_not_matter.

(* the scanner's tokens for A-B-C, A-(B-C), -2^2, NOT A=B, A+B*C, (A+B)*C are the renderings of the trees one expects *)
Theorem C02_rendering_examples :
  Lex.lex (s2l "A-B-C") = Ok (None, raw (ABin OMinus (ABin OMinus idA idB) idC))
  /\ Lex.lex (s2l "A-(B-C)") = Ok (None, raw (ABin OMinus idA (ABin OMinus idB idC)))
  /\ Lex.lex (s2l "-2^2") = Ok (None, raw (ANeg (ABin OCaret two two)))
  /\ Lex.lex (s2l "NOT A=B") = Ok (None, TOp ONot :: TWs 1 :: raw (ABin OEq idA idB))
  /\ Lex.lex (s2l "A+B*C") = Ok (None, raw (ABin OPlus idA (ABin OMul idB idC)))
  /\ Lex.lex (s2l "(A+B)*C") = Ok (None, raw (ABin OMul (ABin OPlus idA idB) idC))
  /\ Lex.lex (s2l "A(2,B+2)*FNX(C)-D()") = Ok (None, raw (ABin OMinus (ABin OMul (ACall (IPlain [65]) [two; ABin OPlus idB two]) (ACall (IPlain [70; 78; 88]) [idC]))
                                                                             (ACall (IPlain [68]) [])))
  /\ wf (ABin OMinus (ABin OMinus idA idB) idC) /\ wf (ANeg (ABin OCaret two two))
  /\ wf (ABin OMul (ACall (IPlain [65]) [two; ABin OPlus idB two]) (ACall (IPlain [70; 78; 88]) [idC])).
Proof. exact renderings. Qed.
Print Assumptions C02_rendering_examples.

(* ---- the model's precedence tables are the source's (Gen/SourceTables.v is regenerated from /repo/src/lang/parse.rs by
   tools/tables.py on every run; Proofs/SourceTables.v) ---- *)
From Coq Require Import List.
From BL Require Import Lang.Token Lang.Parse Gen.SourceTables Proofs.SourceTables.

Theorem C02_precedences_are_the_sources :
  map (fun p => unary_prec (fst p)) src_unary_prec = map snd src_unary_prec /\ (forall o, In o (map fst src_unary_prec))
  /\ map (fun p => binary_prec (fst p)) src_binary_prec = map snd src_binary_prec /\ (forall o, In o (map fst src_binary_prec)).
Proof. exact precedences_are_the_sources. Qed.
Print Assumptions C02_precedences_are_the_sources.
