(* C02 -- expressions: precedence, promotion, result types (statements grow with Proofs/Prec.v, Proofs/Types.v). *)
From BL Require Import Base.Prelude Base.Floats Mach.Val Mach.Ops Lang.Token Lang.Parse.
Local Open Scope N_scope.

(* the parser's two tables are the manual's 13 levels *)
Theorem C02_prec_table :
  binary_prec OCaret = 13 /\ unary_prec OMinus = 12 /\ unary_prec OPlus = 12 /\ binary_prec OMul = 11 /\ binary_prec ODiv = 11
  /\ binary_prec ODivInt = 10 /\ binary_prec OMod = 9 /\ binary_prec OPlus = 8 /\ binary_prec OMinus = 8
  /\ (forall o, In o [OEq; ONe; OLt; OLe; OGt; OGe] -> binary_prec o = 7)
  /\ unary_prec ONot = 6 /\ binary_prec OAnd = 5 /\ binary_prec OOr = 4 /\ binary_prec OXor = 3
  /\ binary_prec OImp = 2 /\ binary_prec OEqv = 1.
Proof.
  repeat split; try reflexivity.
  intros o H. cbn in H. repeat (destruct H as [<- | H]; [reflexivity |]). contradiction.
Qed.
Print Assumptions C02_prec_table.

(* relational operators yield exactly 0 or -1 *)
Theorem C02_relational_bool : forall l r v,
  (op_equal l r = Ok v \/ op_not_equal l r = Ok v \/ op_less l r = Ok v \/ op_less_equal l r = Ok v
   \/ op_greater l r = Ok v \/ op_greater_equal l r = Ok v) -> v = VInt 0 \/ v = VInt (-1).
Proof.
  intros l r v H.
  assert (Hb : forall b, bool_val b = VInt 0 \/ bool_val b = VInt (-1)) by (intros []; [right | left]; reflexivity).
  unfold op_equal, op_not_equal, op_less, op_less_equal, op_greater, op_greater_equal, bind in H.
  destruct H as [H | [H | [H | [H | [H | H]]]]];
    match type of H with (match ?e with _ => _ end) = _ => destruct e as [b | | |] end;
    try discriminate; injection H as <-; apply Hb.
Qed.
Print Assumptions C02_relational_bool.
