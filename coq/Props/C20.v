(* C20 -- branches resolve by line number, independent of layout (statements grow with Proofs/Reloc.v). *)
From BL Require Import Base.Prelude Mach.Val Mach.Compile.
Local Open Scope N_scope.

(* a line symbol always records the code address at which it was pushed, whatever precedes it *)
Theorem C20_line_symbol_address : forall l n l', l_push_symbol n l = (l', Ok tt) ->
  zassoc_get n (l_syms l') = Some (lenN (l_ops l), lenN (l_data l)) /\ l_ops l' = l_ops l.
Proof.
  intros l n l' H. unfold l_push_symbol in H. injection H as <-. cbn. split; [| reflexivity].
  induction (l_syms l) as [| [k v] t IH]; cbn.
  - rewrite Z.eqb_refl. reflexivity.
  - destruct (Z.eqb_spec n k) as [-> | Hne]; cbn.
    + rewrite Z.eqb_refl. reflexivity.
    + destruct (Z.eqb_spec n k); [contradiction | exact IH].
Qed.
Print Assumptions C20_line_symbol_address.
