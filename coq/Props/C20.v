(* C20 -- branches resolve by line number, independent of program layout.
   Proved (Proofs/Reloc.v): appending a fragment places its code unchanged behind the existing code and leaves that code
   alone; linking patches every recorded reference whose symbol is defined with the address of that symbol, touches no
   other instruction, and changes only the address operand; a line symbol records the address at which the line starts.
   NOT proved: that the whole pipeline makes behaviour independent of inserted lines / splitting / direct-mode placement
   (that is compiler correctness for control flow; decided by the C20 monitor, which runs every program in several layouts
   and numberings and compares transcripts modulo the line-number map). *)
From BL Require Import Base.Prelude Mach.Val Mach.Compile Proofs.Reloc.
Local Open Scope N_scope.

(* a line symbol always records the code address at which it was pushed, whatever precedes it *)
Theorem C20_line_symbol_address : forall l n l', l_push_symbol n l = (l', Ok tt) ->
  zassoc_get n (l_syms l') = Some (lenN (l_ops l), lenN (l_data l)) /\ l_ops l' = l_ops l.
Proof.
  intros l n l' H. unfold l_push_symbol in H. injection H as <-. cbn. split; [| reflexivity].
  induction (l_syms l) as [| [k v] t IH]; cbn.
  - rewrite Z.eqb_refl. reflexivity.
  - destruct (Z.eqb_spec n k) as [-> | Hne]; cbn.
    + rewrite Z.eqb_refl. reflexivity.
    + destruct (Z.eqb_spec n k); [contradiction | exact IH].
Qed.
Print Assumptions C20_line_symbol_address.

Theorem C20_append_places_code : forall f l l' i op, l_append f l = (l', Ok tt) -> nth_error (l_ops f) i = Some op ->
  nthN (l_ops l') (lenN (l_ops l) + N.of_nat i) = Some op.
Proof. exact append_places_code. Qed.
Print Assumptions C20_append_places_code.

Theorem C20_append_keeps_code : forall f l l' a, l_append f l = (l', Ok tt) -> a < lenN (l_ops l) ->
  nthN (l_ops l') a = nthN (l_ops l) a.
Proof. exact append_keeps_code. Qed.
Print Assumptions C20_append_keeps_code.

Theorem C20_link_is_fold : forall l,
  let '(unl, werrs) := link_whiles_loop (l_whiles l) [] (l_syms l) (l_unlinked l) [] in
  l_ops (fst (link_link l)) = fst (fold_left (lstep (l_syms l)) unl (l_ops l, werrs)).
Proof. exact link_link_is_fold. Qed.
Print Assumptions C20_link_is_fold.

Theorem C20_link_patches : forall syms unl acc addr c sym dest op op',
  NoDup (map fst unl) -> In (addr, (c, sym)) unl ->
  zassoc_get sym syms = Some dest -> nthN (fst acc) addr = Some op -> patch_op op dest = Some op' ->
  nthN (fst (fold_left (lstep syms) unl acc)) addr = Some op'.
Proof. exact fold_patches. Qed.
Print Assumptions C20_link_patches.

Theorem C20_link_touches_nothing_else : forall syms unl acc a, ~ In a (map fst unl) ->
  nthN (fst (fold_left (lstep syms) unl acc)) a = nthN (fst acc) a.
Proof. exact fold_other. Qed.
Print Assumptions C20_link_touches_nothing_else.

Theorem C20_patch_changes_only_the_address : forall op dest op', patch_op op dest = Some op' ->
  (exists a, op = OpIfNot a /\ op' = OpIfNot (fst dest)) \/ (exists a, op = OpJump a /\ op' = OpJump (fst dest))
  \/ (exists a, op = OpLiteral (VRet a) /\ op' = OpLiteral (VRet (fst dest)))
  \/ (exists a, op = OpLiteral (VNext a) /\ op' = OpLiteral (VNext (fst dest)))
  \/ (exists a, op = OpRestore a /\ op' = OpRestore (snd dest)).
Proof. exact patch_op_spec. Qed.
Print Assumptions C20_patch_changes_only_the_address.

(* ---- whole programs of ANY statements (Proofs/SymSeg.v): line symbols are resolved by number, whatever surrounds them ---- *)
From BL Require Import Lang.Ast Proofs.Flow Proofs.DataSeg Proofs.SymSeg.

(* statement code only defines local (negative) symbols, so no amount of code appended after a line symbol can redefine it *)
Theorem C20_statement_symbols_local : forall s, snd (cg_stmt s) = [] ->
  (l_cur (snd (fst (cg_stmt s))) <= 0)%Z
  /\ forall k v, In (k, v) (l_syms (snd (fst (cg_stmt s)))) -> (l_cur (snd (fst (cg_stmt s))) <= k < 0)%Z.
Proof. exact cg_stmt_inv. Qed.
Print Assumptions C20_statement_symbols_local.

(* in a program compiled without error, whatever lines come before and after line n (remarks, unreachable code, more or
   fewer statements), the symbol of n is the address at which the code of the lines before it ends, together with the
   number of DATA constants in those lines *)
Theorem C20_line_symbol_addresses : forall before n ss after p0,
  pg_errors (compile_from p0 (before ++ (n, ss) :: after)) = [] -> PInv (pg_link p0) -> ~ In n (map fst after) ->
  zassoc_get (Z.of_N n) (l_syms (pg_link (compile_from p0 (before ++ (n, ss) :: after))))
  = Some (lenN (l_ops (pg_link (compile_from p0 before))),
          lenN (l_data (pg_link p0) ++ flat_map (fun e => line_vals (snd e)) before)).
Proof. exact line_symbol_addresses. Qed.
Print Assumptions C20_line_symbol_addresses.

(* ---- a line that generates no code is invisible (Proofs/EmptyLine.v) ---- *)
From BL Require Import Proofs.DataSeg Proofs.SymSeg Proofs.EmptyLine.

(* compile level, for programs of any statements: with the empty line n or without it the compiled program has the same
   instructions, DATA, open references and WHILE records, error lists and direct address; its symbol table has one entry more *)
Theorem C20_empty_line_compiles_away : forall n before after p0,
  pg_errors (compile_from p0 (before ++ (n, []) :: after)) = [] -> PInv (pg_link p0) ->
  zassoc_get (Z.of_N n) (l_syms (pg_link p0)) = None -> ~ In n (map fst before) -> ~ In n (map fst after) ->
  PS0 n (compile_from p0 (before ++ after)) (compile_from p0 (before ++ (n, []) :: after)).
Proof. exact empty_line_compiles_away. Qed.
Print Assumptions C20_empty_line_compiles_away.

(* link level: when nothing refers to line n and code follows it, the linked programs have the same instructions, the same DATA
   and the same direct-code address -- branches in the lines behind the inserted line are resolved to the same addresses *)
Theorem C20_empty_line_is_invisible : forall n before after p0,
  pg_errors (compile_from p0 (before ++ (n, []) :: after)) = [] -> PInv (pg_link p0) ->
  zassoc_get (Z.of_N n) (l_syms (pg_link p0)) = None -> ~ In n (map fst before) -> ~ In n (map fst after) ->
  let P := compile_from p0 (before ++ after) in
  let P' := compile_from p0 (before ++ (n, []) :: after) in
  pg_errors P = [] ->
  no_ref n (l_unlinked (pg_link P)) -> (forall k c a, ~ In (k, c, a, Z.of_N n) (l_whiles (pg_link P))) ->
  lenN (l_ops (pg_link (compile_from p0 before))) <> lenN (l_ops (pg_link P)) ->
  l_ops (pg_link (program_link P')) = l_ops (pg_link (program_link P))
  /\ l_data (pg_link (program_link P')) = l_data (pg_link (program_link P))
  /\ pg_direct (program_link P') = pg_direct (program_link P).
Proof. exact empty_line_is_invisible. Qed.
Print Assumptions C20_empty_line_is_invisible.

(* non-vacuity: 10 A=A+1:PRINT A; / 30 IF A<3 THEN 10 with an empty line 20 in between; the program has an open reference *)
Example C20_empty_line_applies :
  pg_errors (compile_from el_p0 (el_before ++ (20, []) :: el_after)) = [] /\ PInv (pg_link el_p0)
  /\ zassoc_get (Z.of_N 20) (l_syms (pg_link el_p0)) = None /\ ~ In 20 (map fst el_before) /\ ~ In 20 (map fst el_after)
  /\ pg_errors (compile_from el_p0 (el_before ++ el_after)) = []
  /\ no_ref 20 (l_unlinked (pg_link (compile_from el_p0 (el_before ++ el_after))))
  /\ (forall k c a, ~ In (k, c, a, Z.of_N 20) (l_whiles (pg_link (compile_from el_p0 (el_before ++ el_after)))))
  /\ lenN (l_ops (pg_link (compile_from el_p0 el_before))) <> lenN (l_ops (pg_link (compile_from el_p0 (el_before ++ el_after))))
  /\ l_unlinked (pg_link (compile_from el_p0 (el_before ++ el_after))) <> [].
Proof. exact empty_line_premises. Qed.

(* ---- splitting a line: the statements of one line given as two consecutive lines (Proofs/EmptyLine.v) ---- *)
Theorem C20_split_line_in_program : forall n before m s1 s2 after p0,
  pg_errors (compile_from p0 (before ++ (m, s1 ++ s2) :: after)) = [] -> PInv (pg_link p0) ->
  zassoc_get (Z.of_N n) (l_syms (pg_link (codegen_line (compile_from p0 before) (Some m) (Ok s1)))) = None -> ~ In n (map fst after) ->
  PS0 n (compile_from p0 (before ++ (m, s1 ++ s2) :: after)) (compile_from p0 (before ++ (m, s1) :: (n, s2) :: after)).
Proof. exact split_line_in_program. Qed.
Print Assumptions C20_split_line_in_program.

(* what the relation gives at link time, whichever layout change produced it: same instructions, DATA and direct-code address,
   when nothing refers to the new line and it does not start at the end of the code *)
Theorem C20_new_line_number_links_away : forall n p p', PS0 n p p' ->
  no_ref n (l_unlinked (pg_link p)) -> (forall k c a, ~ In (k, c, a, Z.of_N n) (l_whiles (pg_link p))) ->
  (forall v, fst v = lenN (l_ops (pg_link p)) -> ~ In (Z.of_N n, v) (l_syms (pg_link p'))) ->
  l_ops (pg_link (program_link p')) = l_ops (pg_link (program_link p))
  /\ l_data (pg_link (program_link p')) = l_data (pg_link (program_link p))
  /\ pg_direct (program_link p') = pg_direct (program_link p).
Proof. exact empty_line_links_away. Qed.
Print Assumptions C20_new_line_number_links_away.

(* ---- a direct statement does not see which program is in memory (Proofs/DirectShift.v) ---- *)
From BL Require Import Mach.Listing Mach.Runtime Proofs.DirectShift.

(* an address-free instruction (what LET, PRINT, DIM, SWAP, ERASE, DEFtype, MID$=, CLS compile to) gives the same result on the
   machine with another program and listing, the direct code d places further on, another saved address and trace marker *)
Theorem C20_instruction_ignores_the_program : forall O h op, address_free op = true -> forall d PL c t r,
  exists c' t', exec_op O h op (Sh d PL c t r) = (Sh d PL c' t' (fst (exec_op O h op r)), snd (exec_op O h op r)).
Proof. exact shifted_exec_op. Qed.
Print Assumptions C20_instruction_ignores_the_program.

(* the fetch loop on a direct line of such instructions closed by END: same events, same final machine up to those fields *)
Theorem C20_direct_line_ignores_the_program : forall O fuel h d PL r c t, direct_safe O d PL fuel h r ->
  exists c' t', exec_loop O fuel h (Sh d PL c t r) = (Sh d PL c' t' (fst (exec_loop O fuel h r)), snd (exec_loop O fuel h r)).
Proof. exact direct_line_ignores_the_program. Qed.
Print Assumptions C20_direct_line_ignores_the_program.

(* non-vacuity: the line A=5:PRINT A*2; typed into an empty machine and into one holding a program -- the second machine is the
   first one seen through the lens, and the premise holds for the first instructions *)
Example C20_direct_line_applies :
  let d := r_entry ds_loaded - r_entry ds_empty in
  let PL := (r_prog ds_loaded, r_listing ds_loaded) in
  0 < d /\ Sh d PL (r_cont_pc ds_loaded) (r_tr ds_loaded) ds_empty = ds_loaded
  /\ direct_safe Drv.Driver.dummy_oracle d PL 3 false ds_empty.
Proof. exact ds_premises. Qed.

(* ---- the symbol table is for messages only (Proofs/SymLens.v) ---- *)
From BL Require Proofs.SymLens.

(* every instruction, on a machine whose program carries another symbol table (and another trace marker): same result, same
   machine; and the fetch loop, for as long as the machine does not trace: same events, same final machine.  With
   C20_empty_line_is_invisible (same instructions and DATA, other symbol table) this is why an inserted code-less line can
   change nothing but the line numbers in messages and trace output. *)
Theorem C20_instruction_ignores_symbols : forall O h op c t syms r,
  exists c' t', exec_op O h op (SymLens.L c t syms r) = (SymLens.L c' t' syms (fst (exec_op O h op r)), snd (exec_op O h op r)).
Proof. intros O h op. exact (SymLens.lensed_exec_op_all O h op). Qed.
Print Assumptions C20_instruction_ignores_symbols.

Theorem C20_run_ignores_symbols : forall O fuel h r t syms, SymLens.quiet_run O fuel h r ->
  exists t', exec_loop O fuel h (SymLens.L 0 t syms r) = (SymLens.L 0 t' syms (fst (exec_loop O fuel h r)), snd (exec_loop O fuel h r)).
Proof. exact SymLens.run_ignores_symbols. Qed.
Print Assumptions C20_run_ignores_symbols.
