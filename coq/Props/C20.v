(* C20 -- branches resolve by line number, independent of program layout.
   Proved (Proofs/Reloc.v): appending a fragment places its code unchanged behind the existing code and leaves that code
   alone; linking patches every recorded reference whose symbol is defined with the address of that symbol, touches no
   other instruction, and changes only the address operand; a line symbol records the address at which the line starts.
   NOT proved: that the whole pipeline makes behaviour independent of inserted lines / splitting / direct-mode placement
   (that is compiler correctness for control flow; decided by the C20 monitor, which runs every program in several layouts
   and numberings and compares transcripts modulo the line-number map). *)
From BL Require Import Base.Prelude Mach.Val Mach.Compile Proofs.Reloc.
Local Open Scope N_scope.

(* a line symbol always records the code address at which it was pushed, whatever precedes it *)
Theorem C20_line_symbol_address : forall l n l', l_push_symbol n l = (l', Ok tt) ->
  zassoc_get n (l_syms l') = Some (lenN (l_ops l), lenN (l_data l)) /\ l_ops l' = l_ops l.
Proof.
  intros l n l' H. unfold l_push_symbol in H. injection H as <-. cbn. split; [| reflexivity].
  induction (l_syms l) as [| [k v] t IH]; cbn.
  - rewrite Z.eqb_refl. reflexivity.
  - destruct (Z.eqb_spec n k) as [-> | Hne]; cbn.
    + rewrite Z.eqb_refl. reflexivity.
    + destruct (Z.eqb_spec n k); [contradiction | exact IH].
Qed.
Print Assumptions C20_line_symbol_address.

Theorem C20_append_places_code : forall f l l' i op, l_append f l = (l', Ok tt) -> nth_error (l_ops f) i = Some op ->
  nthN (l_ops l') (lenN (l_ops l) + N.of_nat i) = Some op.
Proof. exact append_places_code. Qed.
Print Assumptions C20_append_places_code.

Theorem C20_append_keeps_code : forall f l l' a, l_append f l = (l', Ok tt) -> a < lenN (l_ops l) ->
  nthN (l_ops l') a = nthN (l_ops l) a.
Proof. exact append_keeps_code. Qed.
Print Assumptions C20_append_keeps_code.

Theorem C20_link_is_fold : forall l,
  let '(unl, werrs) := link_whiles_loop (l_whiles l) [] (l_syms l) (l_unlinked l) [] in
  l_ops (fst (link_link l)) = fst (fold_left (lstep (l_syms l)) unl (l_ops l, werrs)).
Proof. exact link_link_is_fold. Qed.
Print Assumptions C20_link_is_fold.

Theorem C20_link_patches : forall syms unl acc addr c sym dest op op',
  NoDup (map fst unl) -> In (addr, (c, sym)) unl ->
  zassoc_get sym syms = Some dest -> nthN (fst acc) addr = Some op -> patch_op op dest = Some op' ->
  nthN (fst (fold_left (lstep syms) unl acc)) addr = Some op'.
Proof. exact fold_patches. Qed.
Print Assumptions C20_link_patches.

Theorem C20_link_touches_nothing_else : forall syms unl acc a, ~ In a (map fst unl) ->
  nthN (fst (fold_left (lstep syms) unl acc)) a = nthN (fst acc) a.
Proof. exact fold_other. Qed.
Print Assumptions C20_link_touches_nothing_else.

Theorem C20_patch_changes_only_the_address : forall op dest op', patch_op op dest = Some op' ->
  (exists a, op = OpIfNot a /\ op' = OpIfNot (fst dest)) \/ (exists a, op = OpJump a /\ op' = OpJump (fst dest))
  \/ (exists a, op = OpLiteral (VRet a) /\ op' = OpLiteral (VRet (fst dest)))
  \/ (exists a, op = OpLiteral (VNext a) /\ op' = OpLiteral (VNext (fst dest)))
  \/ (exists a, op = OpRestore a /\ op' = OpRestore (snd dest)).
Proof. exact patch_op_spec. Qed.
Print Assumptions C20_patch_changes_only_the_address.

(* ---- whole programs of ANY statements (Proofs/SymSeg.v): line symbols are resolved by number, whatever surrounds them ---- *)
From BL Require Import Lang.Ast Proofs.Flow Proofs.DataSeg Proofs.SymSeg.

(* statement code only defines local (negative) symbols, so no amount of code appended after a line symbol can redefine it *)
Theorem C20_statement_symbols_local : forall s, snd (cg_stmt s) = [] ->
  (l_cur (snd (fst (cg_stmt s))) <= 0)%Z
  /\ forall k v, In (k, v) (l_syms (snd (fst (cg_stmt s)))) -> (l_cur (snd (fst (cg_stmt s))) <= k < 0)%Z.
Proof. exact cg_stmt_inv. Qed.
Print Assumptions C20_statement_symbols_local.

(* in a program compiled without error, whatever lines come before and after line n (remarks, unreachable code, more or
   fewer statements), the symbol of n is the address at which the code of the lines before it ends, together with the
   number of DATA constants in those lines *)
Theorem C20_line_symbol_addresses : forall before n ss after p0,
  pg_errors (compile_from p0 (before ++ (n, ss) :: after)) = [] -> PInv (pg_link p0) -> ~ In n (map fst after) ->
  zassoc_get (Z.of_N n) (l_syms (pg_link (compile_from p0 (before ++ (n, ss) :: after))))
  = Some (lenN (l_ops (pg_link (compile_from p0 before))),
          lenN (l_data (pg_link p0) ++ flat_map (fun e => line_vals (snd e)) before)).
Proof. exact line_symbol_addresses. Qed.
Print Assumptions C20_line_symbol_addresses.
