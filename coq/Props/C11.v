(* C11 -- PRINT layout.  Statements only; proofs in Proofs/Print.v.
   Proved: the cursor-column bookkeeping (characters since the last newline, whatever is printed), the zone and
   TAB arithmetic, and that a number carries one trailing blank.  NOT proved: that fmt_val prints the shortest
   decimal that reads back (Base/Decimal.v is validated against the crate by the correspondence check over
   hundreds of thousands of bit patterns, and by the C11 monitor which re-reads every printed number). *)
From BL Require Import Base.Prelude Mach.Val Mach.Func Mach.Compile Mach.Runtime Proofs.Print.
Local Open Scope Z_scope.

Theorem C11_zone : forall col, exists k,
  fn_tab col (VInt (-14)) = Ok (VStr (repeatN c_space k)) /\ (1 <= Z.of_N k <= 14) /\ (Z.of_N col + Z.of_N k) mod 14 = 0.
Proof. exact old_C11_zone. Qed.
Print Assumptions C11_zone.

Theorem C11_tab : forall col n, 0 <= n <= 255 ->
  fn_tab col (VInt n) = Ok (VStr (repeatN c_space (Z.to_N (if Z.of_N col <? n then n - Z.of_N col else 0)))).
Proof. exact old_C11_tab. Qed.
Print Assumptions C11_tab.

Theorem C11_column_no_newline : forall s c, ~ In 10%N s -> advance_col c s = (c + lenN s)%N.
Proof. exact col_no_newline. Qed.
Print Assumptions C11_column_no_newline.

Theorem C11_column_after_newline : forall a b c, advance_col c (a ++ 10%N :: b) = advance_col 0 b.
Proof. exact col_after_newline. Qed.
Print Assumptions C11_column_after_newline.

Theorem C11_column_is_chars_since_newline : forall a b c, ~ In 10%N b -> advance_col c (a ++ 10%N :: b) = lenN b.
Proof. exact col_is_chars_since_newline. Qed.
Print Assumptions C11_column_is_chars_since_newline.

Theorem C11_column_across_items : forall c a b, advance_col c (a ++ b) = advance_col (advance_col c a) b.
Proof. exact advance_col_app. Qed.
Print Assumptions C11_column_across_items.

Theorem C11_print_moves_column : forall r s rest, r_stack r = VStr s :: rest ->
  let '(r', x) := do_print r in
  x = Ok (EvPrint s) /\ r_col r' = advance_col (r_col r) s /\ r_stack r' = rest.
Proof. exact print_moves_column. Qed.
Print Assumptions C11_print_moves_column.

Theorem C11_number_trailing_blank : forall r v rest, r_stack r = v :: rest ->
  (match v with VStr _ => False | _ => True end) ->
  snd (do_print r) = Ok (EvPrint (fmt_val v ++ [c_space])).
Proof. exact print_number_trailing_blank. Qed.
Print Assumptions C11_number_trailing_blank.

Theorem C11_number_leading_sign : forall v, (match v with VInt _ | VSng _ | VDbl _ => True | _ => False end) ->
  exists c rest, fmt_val v = c :: rest /\ (c = 32%N \/ c = 45%N).
Proof. exact number_leading_sign. Qed.
Print Assumptions C11_number_leading_sign.

Theorem C11_integer_format : forall n, 0 <= n ->
  fmt_val (VInt n) = 32%N :: dec_of_N (Z.to_N n) /\ parse_udec (dec_of_N (Z.to_N n)) = Some (Z.to_N n).
Proof. exact integer_format. Qed.
Print Assumptions C11_integer_format.
