(* C11 -- PRINT layout (statements grow with Proofs/Layout.v). *)
From BL Require Import Base.Prelude Mach.Val Mach.Func.
Local Open Scope Z_scope.

(* ',' is TAB(-14): from column col it prints 14 - col mod 14 blanks: between 1 and 14, ending on a multiple of 14 *)
Theorem C11_zone : forall col, exists k,
  fn_tab col (VInt (-14)) = Ok (VStr (repeatN c_space k)) /\ (1 <= Z.of_N k <= 14) /\ (Z.of_N col + Z.of_N k) mod 14 = 0.
Proof.
  intros col. exists (Z.to_N (14 - Z.of_N col mod 14)).
  pose proof (Z.mod_pos_bound (Z.of_N col) 14 ltac:(lia)) as Hm.
  split; [| split].
  - unfold fn_tab, to_i16, bind. cbn. reflexivity.
  - rewrite Z2N.id by lia. lia.
  - rewrite Z2N.id by lia.
    replace (Z.of_N col + (14 - Z.of_N col mod 14)) with ((Z.of_N col - Z.of_N col mod 14) + 1 * 14) by lia.
    rewrite Z.mod_add by lia.
    rewrite Zminus_mod, Zmod_mod, Z.sub_diag. reflexivity.
Qed.
Print Assumptions C11_zone.

(* TAB(n), 0 <= n <= 255: n - col blanks when the cursor is before column n, nothing otherwise *)
Theorem C11_tab : forall col n, 0 <= n <= 255 ->
  fn_tab col (VInt n) = Ok (VStr (repeatN c_space (Z.to_N (if Z.of_N col <? n then n - Z.of_N col else 0)))).
Proof.
  intros col n H. unfold fn_tab, to_i16, bind.
  destruct (Z.ltb_spec n (-255)); [lia |].
  destruct (Z.ltb_spec 255 n); [lia |]. cbn [orb].
  destruct (Z.ltb_spec n 0); [lia |]. reflexivity.
Qed.
Print Assumptions C11_tab.
