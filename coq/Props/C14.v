(* C14 -- RENUM preserves the program and rewrites every reference, or changes nothing.
   Proved (Proofs/Renum.v): the change map is built completely before any line is touched, so a failing RENUM leaves the
   listing as it was; lines below old-start are not in the map; the j-th line at or above old-start is mapped to
   new-start + j*step, which is at most 65529; the renumbered listing is rebuilt by ordered insertion (C15's invariant).
   NOT proved: that the text splice rewrites exactly the line-number operands and nothing else (checked by the C14
   monitor, which re-parses every renumbered line and compares it with the original modulo the map). *)
From BL Require Import Base.Prelude Lang.Token Mach.Listing Proofs.Renum.
Local Open Scope N_scope.

(* a failing RENUM returns an error before any line is touched: the change map is built first *)
Theorem C14_atomic : forall l a b c e, c <> 0 -> renum_changes (ls_lines l) a b c 65530 a [] = Err e -> listing_renum l a b c = Err e.
Proof.
  intros l a b c e Hc H. unfold listing_renum.
  destruct (N.eqb_spec c 0) as [-> | _]; [contradiction |]. rewrite H. reflexivity.
Qed.
Print Assumptions C14_atomic.

Theorem C14_changes_shape : forall ls ns os step oe nn acc ch,
  renum_changes ls ns os step oe nn acc = Ok ch ->
  ch = assign acc (combine (renumbered ls os) (numbers nn step (length (renumbered ls os))))
  /\ Forall (fun x => x <= 65529) (numbers nn step (length (renumbered ls os))).
Proof. exact renum_changes_shape. Qed.
Print Assumptions C14_changes_shape.

Theorem C14_keeps_lower : forall ls ns os step ch k,
  renum_changes ls ns os step 65530 ns [] = Ok ch -> k < os -> ch_get ch k = None.
Proof. exact renum_keeps_lower. Qed.
Print Assumptions C14_keeps_lower.

Theorem C14_assigns_in_order : forall ls ns os step ch j k,
  NoDup (map fst ls) ->
  renum_changes ls ns os step 65530 ns [] = Ok ch ->
  nth_error (renumbered ls os) j = Some k ->
  ch_get ch k = Some (ns + N.of_nat j * step) /\ ns + N.of_nat j * step <= 65529.
Proof. exact renum_assigns_in_order. Qed.
Print Assumptions C14_assigns_in_order.

Example C14_witness :
  renum_changes [(10, []); (20, []); (35, [])] 100 20 5 65530 100 [] = Ok [(20, 100); (35, 105)].
Proof. vm_compute. reflexivity. Qed.
