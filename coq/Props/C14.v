(* C14 -- RENUM preserves the program and rewrites every reference, or changes nothing.
   Proved (Proofs/Renum.v): the change map is built completely before any line is touched, so a failing RENUM leaves the
   listing as it was; lines below old-start are not in the map; the j-th line at or above old-start is mapped to
   new-start + j*step, which is at most 65529; the renumbered listing is rebuilt by ordered insertion (C15's invariant).
   Proved (Proofs/Splice.v): the rewriting of one line is a replacement of character ranges of its listed text, last range
   first, and for ranges that follow one another the result is the text with exactly those ranges replaced -- every other
   character is copied in place; a line without operands keeps its tokens; RENUM refuses a program with compile errors.
   NOT proved: that the ranges the visitor collects are the operands' columns in ascending order (parser columns), and that
   scanning the rewritten text gives back the other tokens unchanged (checked by the C14 monitor, which re-parses every
   renumbered line and compares it with the original modulo the map). *)
From BL Require Import Base.Prelude Lang.Token Mach.Listing Proofs.Renum.
Local Open Scope N_scope.

(* a failing RENUM returns an error before any line is touched: the change map is built first *)
Theorem C14_atomic : forall l a b c e, c <> 0 -> renum_changes (ls_lines l) a b c 65530 a [] = Err e -> listing_renum l a b c = Err e.
Proof.
  intros l a b c e Hc H. unfold listing_renum.
  destruct (N.eqb_spec c 0) as [-> | _]; [contradiction |]. rewrite H. reflexivity.
Qed.
Print Assumptions C14_atomic.

Theorem C14_changes_shape : forall ls ns os step oe nn acc ch,
  renum_changes ls ns os step oe nn acc = Ok ch ->
  ch = assign acc (combine (renumbered ls os) (numbers nn step (length (renumbered ls os))))
  /\ Forall (fun x => x <= 65529) (numbers nn step (length (renumbered ls os))).
Proof. exact renum_changes_shape. Qed.
Print Assumptions C14_changes_shape.

Theorem C14_keeps_lower : forall ls ns os step ch k,
  renum_changes ls ns os step 65530 ns [] = Ok ch -> k < os -> ch_get ch k = None.
Proof. exact renum_keeps_lower. Qed.
Print Assumptions C14_keeps_lower.

Theorem C14_assigns_in_order : forall ls ns os step ch j k,
  NoDup (map fst ls) ->
  renum_changes ls ns os step 65530 ns [] = Ok ch ->
  nth_error (renumbered ls os) j = Some k ->
  ch_get ch k = Some (ns + N.of_nat j * step) /\ ns + N.of_nat j * step <= 65529.
Proof. exact renum_assigns_in_order. Qed.
Print Assumptions C14_assigns_in_order.

Example C14_witness :
  renum_changes [(10, []); (20, []); (35, [])] 100 20 5 65530 100 [] = Ok [(20, 100); (35, 105)].
Proof. vm_compute. reflexivity. Qed.

(* ---- how a line is rewritten (Proofs/Splice.v) ---- *)
From BL Require Import Lang.Token Lang.Ast Lang.Lex Lang.Parse Mach.Val Mach.Runtime Proofs.Splice.
From Coq Require Import String.

(* replacing the operand ranges of the listed text, last one first, gives the text with exactly those ranges replaced:
   `rebuild` copies every other character in place (ranges that follow one another; `ordered`) *)
Theorem C14_splice_is_rebuild : forall reps s pos, ordered pos reps (lenN s) ->
  splice_all s reps = Ok (firstnN pos s ++ rebuild s pos reps).
Proof. exact splice_is_rebuild. Qed.
Print Assumptions C14_splice_is_rebuild.

(* RENUM's treatment of one line is that splice over the operands its visitor found, followed by a fresh scan *)
Theorem C14_renum_line_is_splice : forall ch l ast, parse (fst l) (snd l) = Ok ast -> flat_map (renum_visit ch) ast <> [] ->
  line_renum ch l =
  (do txt <- splice_all (tokens_str (snd l)) (flat_map (renum_visit ch) ast);
   do lx <- lex txt;
   Ok (match fst l with Some n => match ch_get ch n with Some n' => Some n' | None => Some n end | None => None end, snd lx)).
Proof. exact renum_line_is_splice. Qed.
Print Assumptions C14_renum_line_is_splice.

(* a line without line-number operands keeps its tokens exactly *)
Theorem C14_renum_line_without_operands : forall ch l ast, parse (fst l) (snd l) = Ok ast -> flat_map (renum_visit ch) ast = [] ->
  line_renum ch l = Ok (match fst l with Some n => match ch_get ch n with Some n' => Some n' | None => Some n end | None => None end, snd l).
Proof. exact renum_line_without_operands. Qed.
Print Assumptions C14_renum_line_without_operands.

(* RENUM refuses a program with compile-time errors and changes nothing (so no stored line fails to parse when it runs) *)
Theorem C14_renum_refuses_faulty_program : forall r e es, r_entry r <= r_pc r -> ls_ind_errors (r_listing r) = e :: es ->
  do_renum r = (r, Ok (EvErrors (e :: es))).
Proof. exact renum_refuses_faulty_program. Qed.
Print Assumptions C14_renum_refuses_faulty_program.

Theorem C14_splice_example :
  splice_all (s2l "GOTO 10:GOSUB 20")%string [((5, 7), 100); ((14, 16), 1000)] = Ok (s2l "GOTO 100:GOSUB 1000")%string.
Proof. exact splice_example. Qed.
Print Assumptions C14_splice_example.

(* ---- what RENUM replaces are number tokens (Proofs/ParseCols.v, RenumCols.v) ---- *)
From BL Require Import Lang.Token Lang.Ast Lang.Parse Proofs.ParseCols Proofs.RenumCols.

(* every range the renumbering visitor collects from a parsed line -- whatever the statement forms, at any nesting of IF -- is
   exactly the range of one number token of that line in its listed text *)
Theorem C14_renum_replaces_number_tokens : forall n toks ast ch c nn, parse n toks = Ok ast ->
  In (c, nn) (flat_map (renum_visit ch) ast) -> num_range toks c.
Proof. exact renum_replaces_number_tokens. Qed.
Print Assumptions C14_renum_replaces_number_tokens.

(* and such a range, cut out of the listed text, is the digit string of that token *)
Theorem C14_replaced_text_is_digits : forall toks c, num_range toks c ->
  exists l s, In (TLit l) toks /\ is_lnum_lit l = Some s /\ cut (tokens_str toks) c = s.
Proof. exact num_range_is_the_digits. Qed.
Print Assumptions C14_replaced_text_is_digits.
