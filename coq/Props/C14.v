(* C14 -- RENUM (statements grow with Proofs/Renum.v). *)
From BL Require Import Base.Prelude Lang.Token Mach.Listing.
Local Open Scope N_scope.

(* a failing RENUM returns an error before any line is touched: the change map is built first *)
Theorem C14_atomic : forall l a b c e, c <> 0 -> renum_changes (ls_lines l) a b c 65530 a [] = Err e -> listing_renum l a b c = Err e.
Proof.
  intros l a b c e Hc H. unfold listing_renum.
  destruct (N.eqb_spec c 0) as [-> | _]; [contradiction |]. rewrite H. reflexivity.
Qed.
Print Assumptions C14_atomic.
