(* C08 -- 16-bit Integer arithmetic is always checked.
   Statements only; every proof is `exact <lemma>` from Proofs/. *)
From BL Require Import Base.Prelude Base.Floats Mach.Val Mach.Ops Proofs.Int16.
Local Open Scope Z_scope.

(* non-vacuity: the boundary operands satisfy the hypotheses *)
Example C08_operands_exist : I16 (-32768) /\ I16 32767 /\ ~ I16 (32767 + 1) /\ ~ I16 (- (-32768)).
Proof. unfold I16. lia. Qed.

Theorem C08_add : forall a b,
  (I16 (a + b) /\ op_sum (VInt a) (VInt b) = Ok (VInt (a + b)))
  \/ (~ I16 (a + b) /\ op_sum (VInt a) (VInt b) = err E_Overflow).
Proof. exact add_exact. Qed.
Print Assumptions C08_add.

Theorem C08_sub : forall a b,
  (I16 (a - b) /\ op_subtract (VInt a) (VInt b) = Ok (VInt (a - b)))
  \/ (~ I16 (a - b) /\ op_subtract (VInt a) (VInt b) = err E_Overflow).
Proof. exact sub_exact. Qed.
Print Assumptions C08_sub.

Theorem C08_mul : forall a b,
  (I16 (a * b) /\ op_multiply (VInt a) (VInt b) = Ok (VInt (a * b)))
  \/ (~ I16 (a * b) /\ op_multiply (VInt a) (VInt b) = err E_Overflow).
Proof. exact mul_exact. Qed.
Print Assumptions C08_mul.

Theorem C08_neg : forall a,
  (I16 (- a) /\ op_negate (VInt a) = Ok (VInt (- a)))
  \/ (~ I16 (- a) /\ op_negate (VInt a) = err E_Overflow).
Proof. exact neg_exact. Qed.
Print Assumptions C08_neg.

Theorem C08_divint : forall a b,
  (b = 0 /\ op_divint (VInt a) (VInt b) = err E_DivByZero)
  \/ (b <> 0 /\ I16 (Z.quot a b) /\ op_divint (VInt a) (VInt b) = Ok (VInt (Z.quot a b)))
  \/ (b <> 0 /\ ~ I16 (Z.quot a b) /\ op_divint (VInt a) (VInt b) = err E_Overflow).
Proof. exact divint_exact. Qed.
Print Assumptions C08_divint.

Theorem C08_divint_overflow_only_at_min : forall a b, I16 a -> I16 b -> b <> 0 ->
  I16 (Z.quot a b) \/ (a = -32768 /\ b = -1).
Proof. exact quot_range. Qed.
Print Assumptions C08_divint_overflow_only_at_min.

Theorem C08_mod : forall a b,
  (b = 0 /\ op_remainder (VInt a) (VInt b) = err E_DivByZero)
  \/ (b <> 0 /\ op_remainder (VInt a) (VInt b) = Ok (VInt (Z.rem a b))).
Proof. exact mod_exact. Qed.
Print Assumptions C08_mod.

Theorem C08_mod_in_range : forall a b, I16 a -> b <> 0 -> I16 (Z.rem a b).
Proof. exact rem_range. Qed.
Print Assumptions C08_mod_in_range.

Theorem C08_pow : forall (O : oracle) a b, I16 a -> 0 <= b ->
  (I16 (a ^ b) /\ op_power O (VInt a) (VInt b) = Ok (VInt (a ^ b)))
  \/ (~ I16 (a ^ b) /\ op_power O (VInt a) (VInt b) = err E_Overflow).
Proof. exact pow_exact. Qed.
Print Assumptions C08_pow.

Theorem C08_closed : forall a b v, I16 a -> I16 b ->
  (op_sum (VInt a) (VInt b) = Ok v \/ op_subtract (VInt a) (VInt b) = Ok v
   \/ op_multiply (VInt a) (VInt b) = Ok v \/ op_divint (VInt a) (VInt b) = Ok v
   \/ op_remainder (VInt a) (VInt b) = Ok v) ->
  exists z, v = VInt z /\ I16 z.
Proof. exact int_ops_closed. Qed.
Print Assumptions C08_closed.

(* ---- conversions from floating point (Proofs/FloatToInt.v): floor plus a range check, for every bit pattern ---- *)
From BL Require Import Base.Floats Proofs.FloatToInt.
From Flocq Require Import IEEE754.Binary IEEE754.Bits.

(* the general form used for Integer, line-number and byte-sized conversions: bounds below 2^24 *)
Theorem C08_single_conversion : forall b lo hi cast, Z.abs lo <= 16777215 -> Z.abs hi <= 16777215 ->
  float_to_int32 b lo hi cast =
  (if Binary.is_finite 24 128 (b32_of_bits b) && (lo <=? floor_of (b32_of_bits b)) && (floor_of (b32_of_bits b) <=? hi)
   then Ok (Z.min (floor_of (b32_of_bits b)) cast) else err E_Overflow).
Proof. exact float_to_int32_spec. Qed.
Print Assumptions C08_single_conversion.

Theorem C08_double_conversion : forall b lo hi cast, Z.abs lo <= 16777215 -> Z.abs hi <= 16777215 ->
  float_to_int64 b lo hi cast =
  (if Binary.is_finite 53 1024 (b64_of_bits b) && (lo <=? floor_of64 (b64_of_bits b)) && (floor_of64 (b64_of_bits b) <=? hi)
   then Ok (Z.min (floor_of64 (b64_of_bits b)) cast) else err E_Overflow).
Proof. exact float_to_int64_spec. Qed.
Print Assumptions C08_double_conversion.

(* to Integer: the floor of the number if it lies in -32768..32767, OVERFLOW otherwise -- also for infinities and NaN *)
Theorem C08_single_to_integer : forall b,
  to_i16 (VSng b) = (if Binary.is_finite 24 128 (b32_of_bits b) && (-32768 <=? floor_of (b32_of_bits b)) && (floor_of (b32_of_bits b) <=? 32767)
                     then Ok (floor_of (b32_of_bits b)) else err E_Overflow).
Proof. exact single_to_integer. Qed.
Print Assumptions C08_single_to_integer.

Theorem C08_double_to_integer : forall b,
  to_i16 (VDbl b) = (if Binary.is_finite 53 1024 (b64_of_bits b) && (-32768 <=? floor_of64 (b64_of_bits b)) && (floor_of64 (b64_of_bits b) <=? 32767)
                     then Ok (floor_of64 (b64_of_bits b)) else err E_Overflow).
Proof. exact double_to_integer. Qed.
Print Assumptions C08_double_to_integer.

(* never a wrapped or truncated out-of-range value *)
Theorem C08_conversion_in_range : forall v z, to_i16 v = Ok z -> match v with VInt _ => True | _ => -32768 <= z <= 32767 end.
Proof. exact to_i16_in_range. Qed.
Print Assumptions C08_conversion_in_range.
