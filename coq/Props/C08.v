(* C08 -- 16-bit Integer arithmetic is always checked.
   Statements only; every proof is `exact <lemma>` from Proofs/. *)
From BL Require Import Base.Prelude Base.Floats Mach.Val Mach.Ops Proofs.Int16.
Local Open Scope Z_scope.

(* non-vacuity: the boundary operands satisfy the hypotheses *)
Example C08_operands_exist : I16 (-32768) /\ I16 32767 /\ ~ I16 (32767 + 1) /\ ~ I16 (- (-32768)).
Proof. unfold I16. lia. Qed.

Theorem C08_add : forall a b,
  (I16 (a + b) /\ op_sum (VInt a) (VInt b) = Ok (VInt (a + b)))
  \/ (~ I16 (a + b) /\ op_sum (VInt a) (VInt b) = err E_Overflow).
Proof. exact add_exact. Qed.
Print Assumptions C08_add.

Theorem C08_sub : forall a b,
  (I16 (a - b) /\ op_subtract (VInt a) (VInt b) = Ok (VInt (a - b)))
  \/ (~ I16 (a - b) /\ op_subtract (VInt a) (VInt b) = err E_Overflow).
Proof. exact sub_exact. Qed.
Print Assumptions C08_sub.

Theorem C08_mul : forall a b,
  (I16 (a * b) /\ op_multiply (VInt a) (VInt b) = Ok (VInt (a * b)))
  \/ (~ I16 (a * b) /\ op_multiply (VInt a) (VInt b) = err E_Overflow).
Proof. exact mul_exact. Qed.
Print Assumptions C08_mul.

Theorem C08_neg : forall a,
  (I16 (- a) /\ op_negate (VInt a) = Ok (VInt (- a)))
  \/ (~ I16 (- a) /\ op_negate (VInt a) = err E_Overflow).
Proof. exact neg_exact. Qed.
Print Assumptions C08_neg.

Theorem C08_divint : forall a b,
  (b = 0 /\ op_divint (VInt a) (VInt b) = err E_DivByZero)
  \/ (b <> 0 /\ I16 (Z.quot a b) /\ op_divint (VInt a) (VInt b) = Ok (VInt (Z.quot a b)))
  \/ (b <> 0 /\ ~ I16 (Z.quot a b) /\ op_divint (VInt a) (VInt b) = err E_Overflow).
Proof. exact divint_exact. Qed.
Print Assumptions C08_divint.

Theorem C08_divint_overflow_only_at_min : forall a b, I16 a -> I16 b -> b <> 0 ->
  I16 (Z.quot a b) \/ (a = -32768 /\ b = -1).
Proof. exact quot_range. Qed.
Print Assumptions C08_divint_overflow_only_at_min.

Theorem C08_mod : forall a b,
  (b = 0 /\ op_remainder (VInt a) (VInt b) = err E_DivByZero)
  \/ (b <> 0 /\ op_remainder (VInt a) (VInt b) = Ok (VInt (Z.rem a b))).
Proof. exact mod_exact. Qed.
Print Assumptions C08_mod.

Theorem C08_mod_in_range : forall a b, I16 a -> b <> 0 -> I16 (Z.rem a b).
Proof. exact rem_range. Qed.
Print Assumptions C08_mod_in_range.

Theorem C08_pow : forall (O : oracle) a b, I16 a -> 0 <= b ->
  (I16 (a ^ b) /\ op_power O (VInt a) (VInt b) = Ok (VInt (a ^ b)))
  \/ (~ I16 (a ^ b) /\ op_power O (VInt a) (VInt b) = err E_Overflow).
Proof. exact pow_exact. Qed.
Print Assumptions C08_pow.

Theorem C08_closed : forall a b v, I16 a -> I16 b ->
  (op_sum (VInt a) (VInt b) = Ok v \/ op_subtract (VInt a) (VInt b) = Ok v
   \/ op_multiply (VInt a) (VInt b) = Ok v \/ op_divint (VInt a) (VInt b) = Ok v
   \/ op_remainder (VInt a) (VInt b) = Ok v) ->
  exists z, v = VInt z /\ I16 z.
Proof. exact int_ops_closed. Qed.
Print Assumptions C08_closed.
