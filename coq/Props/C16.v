(* C16 -- spelling variants mean the same (statements grow with Proofs/Spelling.v). *)
From Coq Require Import String.
From BL Require Import Base.Prelude Lang.Token Lang.Lex.
Local Open Scope N_scope.

(* the single-character aliases: ? scans to the PRINT token and ' to the REM token *)
Theorem C16_aliases : match_minutia 63 = Some (TWord WPrint) /\ match_minutia 39 = Some (TWord WRem2).
Proof. split; reflexivity. Qed.
Print Assumptions C16_aliases.

(* the operator merges, with any amount of blank space between the two characters *)
Theorem C16_merge_triples : forall n,
  triple_at (TOp OLt) (TWs n) (TOp OEq) = Some (TOp OLe) /\ triple_at (TOp OEq) (TWs n) (TOp OLt) = Some (TOp OLe)
  /\ triple_at (TOp OGt) (TWs n) (TOp OEq) = Some (TOp OGe) /\ triple_at (TOp OEq) (TWs n) (TOp OGt) = Some (TOp OGe)
  /\ triple_at (TOp OLt) (TWs n) (TOp OGt) = Some (TOp ONe) /\ triple_at (TOp OGt) (TWs n) (TOp OLt) = Some (TOp ONe)
  /\ triple_at (TIdent (IPlain (s2l "GO"%string))) (TWs n) (TWord WTo) = Some (TWord WGoto)
  /\ triple_at (TIdent (IPlain (s2l "GO"%string))) (TWs n) (TIdent (IPlain (s2l "SUB"%string))) = Some (TWord WGosub).
Proof. intros n. repeat split; reflexivity. Qed.
Print Assumptions C16_merge_triples.

Theorem C16_merge_doubles :
  double_at (TOp OEq) (TOp OLt) = Some (TOp OLe) /\ double_at (TOp OLt) (TOp OEq) = Some (TOp OLe)
  /\ double_at (TOp OEq) (TOp OGt) = Some (TOp OGe) /\ double_at (TOp OGt) (TOp OEq) = Some (TOp OGe)
  /\ double_at (TOp OLt) (TOp OGt) = Some (TOp ONe).
Proof. repeat split; reflexivity. Qed.
Print Assumptions C16_merge_doubles.

(* ... and the two tables are one table: for every pair of operator characters, what they merge to with blanks between them
   is what they merge to without.  (Before 638b3f3 this failed for > < against ><.) *)
Theorem C16_blank_inside_an_operator_is_optional : forall a c n,
  triple_at (TOp a) (TWs n) (TOp c) = double_at (TOp a) (TOp c).
Proof. intros a c n. destruct a; destruct c; reflexivity. Qed.
Print Assumptions C16_blank_inside_an_operator_is_optional.

(* ---- letter case (proofs in Proofs/CaseFold.v) ---- *)
From BL Require Import Mach.Func Proofs.CaseFold.

(* the word scanner (keywords, operators spelled as words, identifiers) gives the same tokens for texts that differ only
   in the case of their letters, and leaves remainders that again differ only in case *)
Theorem C16_word_scanner_ignores_case : forall cs cs' s digit pend, same_letters cs cs' ->
  fst (alpha_loop cs s digit pend) = fst (alpha_loop cs' s digit pend)
  /\ same_letters (snd (alpha_loop cs s digit pend)) (snd (alpha_loop cs' s digit pend)).
Proof. exact alpha_loop_case. Qed.
Print Assumptions C16_word_scanner_ignores_case.

(* characters with the same upper-case form fall into the same classes of the scanner *)
Theorem C16_classes_ignore_case : forall c d, to_upper c = to_upper d ->
  is_alpha c = is_alpha d /\ is_digit c = is_digit d /\ is_suffix_chr c = is_suffix_chr d /\ is_ws c = is_ws d.
Proof. exact to_upper_class. Qed.
Print Assumptions C16_classes_ignore_case.

(* ---- the whole scanner ignores letter case (Proofs/CaseLex.v) ---- *)
From BL Require Import Proofs.CaseLex.

(* numbers: e/E and d/D are the same exponent letters, and a letter pushed back comes back in upper case *)
Theorem C16_numbers_ignore_case : forall cs cs' s d dec ex, same_letters cs cs' -> nc_head cs ->
  num_rel (number_loop cs s d dec ex) (number_loop cs' s d dec ex).
Proof. exact number_loop_case. Qed.
Print Assumptions C16_numbers_ignore_case.

(* the token loop: same tokens for texts that differ only in letter case, as long as no string literal and no remark is
   among them (inside those every character is kept as typed) *)
Theorem C16_token_loop_ignores_case : forall fuel cs cs' acc ts, same_letters cs cs' -> lex_loop fuel cs acc = Ok ts -> no_verbatim ts ->
  lex_loop fuel cs' acc = Ok ts.
Proof. exact lex_loop_case. Qed.
Print Assumptions C16_token_loop_ignores_case.

(* the whole scanner, line-number prefix and post passes included *)
Theorem C16_lex_ignores_case : forall src src' ts, same_letters src src' -> raw_tokens src = Ok ts -> no_verbatim ts -> lex src' = lex src.
Proof. exact lex_ignores_case. Qed.
Print Assumptions C16_lex_ignores_case.

Theorem C16_case_example :
  lex (s2l "10 for i=1 to 1e3:print a1;&hff:next") = lex (s2l "10 FOR I=1 TO 1E3:PRINT A1;&HFF:NEXT")
  /\ same_letters (s2l "10 for i=1 to 1e3:print a1;&hff:next") (s2l "10 FOR I=1 TO 1E3:PRINT A1;&HFF:NEXT")
  /\ exists ts, raw_tokens (s2l "10 for i=1 to 1e3:print a1;&hff:next") = Ok ts /\ forallb (fun t => negb (verbatim t)) ts = true.
Proof. exact case_example. Qed.
Print Assumptions C16_case_example.

(* ---- the model's spelling tables are the source's (Gen/SourceTables.v is regenerated from /repo/src by tools/tables.py on every
   run; Proofs/SourceTables.v) ---- *)
From Coq Require Import List.
From BL Require Import Gen.SourceTables Proofs.SourceTables.

Theorem C16_reserved_words_are_the_sources : keyword_table = map (fun p => (s2l (fst p), snd p)) src_keywords.
Proof. exact keywords_are_the_sources. Qed.
Print Assumptions C16_reserved_words_are_the_sources.

Theorem C16_single_character_tokens_are_the_sources :
  map (fun p => match_minutia (fst p)) src_minutia = map (fun p => Some (snd p)) src_minutia
  /\ forall c, match_minutia c <> None -> In c (map fst src_minutia).
Proof. exact (conj minutia_arms_are_the_sources minutia_has_no_other_arm). Qed.
Print Assumptions C16_single_character_tokens_are_the_sources.

Theorem C16_listed_spellings_are_the_sources :
  (map (fun p => word_str (fst p)) src_word_display = map (fun p => s2l (snd p)) src_word_display /\ forall w, In w (map fst src_word_display))
  /\ (map (fun p => op_str (fst p)) src_op_display = map (fun p => s2l (snd p)) src_op_display /\ forall o, In o (map fst src_op_display))
  /\ (map (fun p => op_is_word (fst p)) src_op_is_word = map snd src_op_is_word /\ forall o, In o (map fst src_op_is_word)).
Proof. exact (conj word_display_is_the_sources (conj operator_display_is_the_sources operator_words_are_the_sources)). Qed.
Print Assumptions C16_listed_spellings_are_the_sources.

Theorem C16_operator_merges_are_the_sources : forall a c n,
  triple_at (TOp a) (TWs n) (TOp c) = option_map TOp (assoc_merge a c src_triple_merges)
  /\ double_at (TOp a) (TOp c) = option_map TOp (assoc_merge a c src_double_merges).
Proof. exact merges_are_the_sources. Qed.
Print Assumptions C16_operator_merges_are_the_sources.
