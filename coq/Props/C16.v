(* C16 -- spelling variants mean the same (statements grow with Proofs/Spelling.v). *)
From Coq Require Import String.
From BL Require Import Base.Prelude Lang.Token Lang.Lex.
Local Open Scope N_scope.

(* the single-character aliases: ? scans to the PRINT token and ' to the REM token *)
Theorem C16_aliases : match_minutia 63 = Some (TWord WPrint) /\ match_minutia 39 = Some (TWord WRem2).
Proof. split; reflexivity. Qed.
Print Assumptions C16_aliases.

(* the operator merges, with any amount of blank space between the two characters *)
Theorem C16_merge_triples : forall n,
  triple_at (TOp OLt) (TWs n) (TOp OEq) = Some (TOp OLe) /\ triple_at (TOp OEq) (TWs n) (TOp OLt) = Some (TOp OLe)
  /\ triple_at (TOp OGt) (TWs n) (TOp OEq) = Some (TOp OGe) /\ triple_at (TOp OEq) (TWs n) (TOp OGt) = Some (TOp OGe)
  /\ triple_at (TOp OLt) (TWs n) (TOp OGt) = Some (TOp ONe) /\ triple_at (TOp OGt) (TWs n) (TOp OLt) = Some (TOp ONe)
  /\ triple_at (TIdent (IPlain (s2l "GO"%string))) (TWs n) (TWord WTo) = Some (TWord WGoto)
  /\ triple_at (TIdent (IPlain (s2l "GO"%string))) (TWs n) (TIdent (IPlain (s2l "SUB"%string))) = Some (TWord WGosub).
Proof. intros n. repeat split; reflexivity. Qed.
Print Assumptions C16_merge_triples.

Theorem C16_merge_doubles :
  double_at (TOp OEq) (TOp OLt) = Some (TOp OLe) /\ double_at (TOp OLt) (TOp OEq) = Some (TOp OLe)
  /\ double_at (TOp OEq) (TOp OGt) = Some (TOp OGe) /\ double_at (TOp OGt) (TOp OEq) = Some (TOp OGe)
  /\ double_at (TOp OLt) (TOp OGt) = Some (TOp ONe).
Proof. repeat split; reflexivity. Qed.
Print Assumptions C16_merge_doubles.

(* ---- letter case (proofs in Proofs/CaseFold.v) ---- *)
From BL Require Import Mach.Func Proofs.CaseFold.

(* the word scanner (keywords, operators spelled as words, identifiers) gives the same tokens for texts that differ only
   in the case of their letters, and leaves remainders that again differ only in case *)
Theorem C16_word_scanner_ignores_case : forall cs cs' s digit pend, same_letters cs cs' ->
  fst (alpha_loop cs s digit pend) = fst (alpha_loop cs' s digit pend)
  /\ same_letters (snd (alpha_loop cs s digit pend)) (snd (alpha_loop cs' s digit pend)).
Proof. exact alpha_loop_case. Qed.
Print Assumptions C16_word_scanner_ignores_case.

(* characters with the same upper-case form fall into the same classes of the scanner *)
Theorem C16_classes_ignore_case : forall c d, to_upper c = to_upper d ->
  is_alpha c = is_alpha d /\ is_digit c = is_digit d /\ is_suffix_chr c = is_suffix_chr d /\ is_ws c = is_ws d.
Proof. exact to_upper_class. Qed.
Print Assumptions C16_classes_ignore_case.
