(* C16 -- spelling variants mean the same (statements grow with Proofs/Spelling.v). *)
From Coq Require Import String.
From BL Require Import Base.Prelude Lang.Token Lang.Lex.
Local Open Scope N_scope.

(* the single-character aliases: ? scans to the PRINT token and ' to the REM token *)
Theorem C16_aliases : match_minutia 63 = Some (TWord WPrint) /\ match_minutia 39 = Some (TWord WRem2).
Proof. split; reflexivity. Qed.
Print Assumptions C16_aliases.

(* the operator merges, with any amount of blank space between the two characters *)
Theorem C16_merge_triples : forall n,
  triple_at (TOp OLt) (TWs n) (TOp OEq) = Some (TOp OLe) /\ triple_at (TOp OEq) (TWs n) (TOp OLt) = Some (TOp OLe)
  /\ triple_at (TOp OGt) (TWs n) (TOp OEq) = Some (TOp OGe) /\ triple_at (TOp OEq) (TWs n) (TOp OGt) = Some (TOp OGe)
  /\ triple_at (TOp OLt) (TWs n) (TOp OGt) = Some (TOp ONe) /\ triple_at (TOp OGt) (TWs n) (TOp OLt) = Some (TOp ONe)
  /\ triple_at (TIdent (IPlain (s2l "GO"%string))) (TWs n) (TWord WTo) = Some (TWord WGoto)
  /\ triple_at (TIdent (IPlain (s2l "GO"%string))) (TWs n) (TIdent (IPlain (s2l "SUB"%string))) = Some (TWord WGosub).
Proof. intros n. repeat split; reflexivity. Qed.
Print Assumptions C16_merge_triples.

Theorem C16_merge_doubles :
  double_at (TOp OEq) (TOp OLt) = Some (TOp OLe) /\ double_at (TOp OLt) (TOp OEq) = Some (TOp OLe)
  /\ double_at (TOp OEq) (TOp OGt) = Some (TOp OGe) /\ double_at (TOp OGt) (TOp OEq) = Some (TOp OGe)
  /\ double_at (TOp OLt) (TOp OGt) = Some (TOp ONe).
Proof. repeat split; reflexivity. Qed.
Print Assumptions C16_merge_doubles.
