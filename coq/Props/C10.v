(* C10 -- statements grow with the development; see DESIGN.md section 7. *)
From BL Require Import Base.Prelude Mach.Val Mach.Compile.
Local Open Scope N_scope.
From BL Require Import Lang.Token Lang.Parse.

(* a mangled parameter name contains a '.', which no source identifier can contain: the scanner
   builds identifiers from letters, digits and one type suffix only *)
Theorem C10_mangled_has_dot : forall fn p, In 46 (ident_str (mangle fn p)).
Proof.
  intros fn p. unfold mangle.
  destruct p; cbn [ident_str]; apply in_or_app; right; left; reflexivity.
Qed.
Print Assumptions C10_mangled_has_dot.
