(* C10 -- user functions.
   Proved (Proofs/FnCall.v): the error cases of the call (undefined function, wrong argument count, DEF at the prompt),
   and the return protocol (the body's value is kept, everything down to the return address is dropped, control returns
   to the saved address; variables untouched).  Mangled parameter names contain a '.'.
   NOT proved: locality of parameters end to end and call-time evaluation of the body (decided by the C10 monitor against
   Spec/Sem.v, which binds parameters in a local environment), runaway recursion ending in OUT OF MEMORY (C18 cases). *)
From BL Require Import Base.Prelude Mach.Val Mach.Compile Mach.Runtime Proofs.FnCall.
Local Open Scope N_scope.
From BL Require Import Lang.Token Lang.Parse.

(* a mangled parameter name contains a '.', which no source identifier can contain: the scanner
   builds identifiers from letters, digits and one type suffix only *)
Theorem C10_mangled_has_dot : forall fn p, In 46 (ident_str (mangle fn p)).
Proof.
  intros fn p. unfold mangle.
  destruct p; cbn [ident_str]; apply in_or_app; right; left; reflexivity.
Qed.
Print Assumptions C10_mangled_has_dot.

Theorem C10_call_undefined : forall name r r1 args, pop_vec r = (r1, Ok args) ->
  alist_get name (r_fns r1) = None -> snd (do_fn name r) = err E_UndefinedFn.
Proof. exact call_undefined. Qed.
Print Assumptions C10_call_undefined.

Theorem C10_call_wrong_arity : forall name r r1 args arity addr, pop_vec r = (r1, Ok args) ->
  alist_get name (r_fns r1) = Some (arity, addr) -> arity <> lenN args -> snd (do_fn name r) = err E_IllegalFunctionCall.
Proof. exact call_wrong_arity. Qed.
Print Assumptions C10_call_wrong_arity.

Theorem C10_def_in_direct_mode : forall name r, r_entry r <= r_pc r -> snd (do_def name r) = err E_IllegalDirect.
Proof. exact def_in_direct_mode. Qed.
Print Assumptions C10_def_in_direct_mode.

Theorem C10_return_with_value : forall r v a rest, r_stack r = v :: VRet a :: rest -> is_assignable v = true ->
  lenN rest + 1 <= MAX_POOL ->
  exists r', do_return r = (r', Ok tt) /\ r_stack r' = v :: rest /\ r_pc r' = a /\ r_vars r' = r_vars r.
Proof. exact return_with_value. Qed.
Print Assumptions C10_return_with_value.

(* ---- the scanner never produces an identifier with a '.' (Proofs/LexIdent.v): parameters are private ---- *)
From BL Require Import Lang.Token Lang.Lex Lang.Parse Mach.Var Proofs.LexIdent.

(* whatever is typed, no identifier token of the scanned line contains a '.' *)
Theorem C10_scanned_identifiers_have_no_dot : forall src num toks i,
  lex src = Ok (num, toks) -> In (TIdent i) toks -> ~ In 46 (ident_str i).
Proof. exact scanned_identifiers_have_no_dot. Qed.
Print Assumptions C10_scanned_identifiers_have_no_dot.

(* so the mangled name FNX.P under which a parameter is stored is never the name of an identifier of any source line *)
Theorem C10_mangled_names_are_private : forall src num toks i fn p,
  lex src = Ok (num, toks) -> In (TIdent i) toks -> ident_str (mangle fn p) <> ident_str i.
Proof. exact mangled_names_are_private. Qed.
Print Assumptions C10_mangled_names_are_private.

(* and binding a parameter -- a store to its mangled name -- leaves every variable a program can name as it was *)
Theorem C10_parameter_binding_is_local : forall src num toks i fn p vs v vs',
  lex src = Ok (num, toks) -> In (TIdent i) toks ->
  var_store vs (ident_str (mangle fn p)) v = Ok vs' -> var_fetch vs' (ident_str i) = var_fetch vs (ident_str i).
Proof. exact parameter_binding_is_local. Qed.
Print Assumptions C10_parameter_binding_is_local.

(* ---- the call itself (Proofs/FnCall.v, FnBody.v) ---- *)
From BL Require Import Lang.Ast Mach.Compile Proofs.ExprCompile Proofs.FnBody.

(* entering: the return address goes under the arguments, the first argument is on top, control is at the function's code *)
Theorem C10_call_enters : forall name r r1 args arity addr, pop_vec r = (r1, Ok args) ->
  alist_get name (r_fns r1) = Some (arity, addr) -> arity = lenN args -> r_slen r1 + 1 + lenN args <= MAX_POOL ->
  exists r2, do_fn name r = (r2, Ok tt)
    /\ r_stack r2 = args ++ VRet (r_pc r1) :: r_stack r1 /\ r_pc r2 = addr
    /\ r_vars r2 = r_vars r1 /\ r_fns r2 = r_fns r1 /\ r_prog r2 = r_prog r1 /\ r_state r2 = r_state r1.
Proof. exact call_enters. Qed.
Print Assumptions C10_call_enters.

(* the body: parameter stores, the expression's code and RETURN leave the body's value -- evaluated with the parameters bound to
   the arguments and every other variable as it is at call time -- on the caller's stack and return behind the call; whatever
   the caller had on the stack below (loop frames, return addresses, temporaries of the calling expression) is untouched *)
Theorem C10_function_body_runs : forall O h names body r args a rest vs' v,
  pure body = true ->
  r_stack r = args ++ VRet a :: rest -> r_slen r = lenN (args ++ VRet a :: rest) ->
  bind_params (r_vars r) names args = Ok vs' ->
  eval_pure O vs' body = Ok v -> is_assignable v = true ->
  lenN rest + 1 + lenN (postfix body) <= MAX_POOL ->
  exists r', run_ops O h (map OpPop names ++ postfix body ++ [OpReturn]) r = (r', Ok tt)
    /\ r_stack r' = v :: rest /\ r_pc r' = a /\ r_vars r' = vs'.
Proof. exact function_body_runs. Qed.
Print Assumptions C10_function_body_runs.

(* ---- the code DEF FN emits is the sequence the call runs (Proofs/DefShape.v) ---- *)
From BL Require Import Lang.Token Proofs.DefShape.
Theorem C10_def_statement_code : forall c fc fn (ps : list (col * ident)) body,
  pure body = true -> lenN (postfix body) <= MAX_POOL -> lenN ps <= 32767 ->
  let names := map (fun ci => ident_str (snd ci)) ps in
  let code := [OpLiteral (VInt (Z.of_N (lenN ps))); OpDef (ident_str fn); OpJump 0] ++ map OpPop names ++ postfix body ++ [OpReturn] in
  lenN code <= MAX_POOL ->
  let s := SDef c (VUnary fc fn) (map (fun ci => VUnary (fst ci) (snd ci)) ps) body in
  l_ops (snd (fst (cg_stmt s))) = code /\ snd (cg_stmt s) = [].
Proof. exact def_statement_code. Qed.
Print Assumptions C10_def_statement_code.
