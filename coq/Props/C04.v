(* C04 -- what runs is always the program that LIST shows.
   Statements only; the proofs are in Proofs/Dirty.v (a Hoare logic over the VM monad, Proofs/RMFrame.v).

   The model mirrors the implementation's mechanism: a `dirty` flag raised by every edit and lowered only by
   the recompilation at the start of the next direct line.  The theorems say that the mechanism is sound in
   the model, for every state and every opcode, with no bound on the history:
     (1) through execute(), through a numbered line, through INPUT / INKEY$ replies and through interrupt(),
         the flag never falls, and the stored lines are unchanged unless the flag is up afterwards;
     (2) statements other than DELETE, RENUM and NEW never alter the stored lines (nor the flag, nor the code);
     (3) a direct line entered with the flag up is compiled behind a fresh compilation of exactly the stored
         lines, and neither the old code, nor the value stack (pending RETURN / NEXT), nor the user functions,
         nor the CONT state of the previous compilation can influence what happens next.
   What is NOT proved here: that a compilation of the listing behaves like typing the listing into a fresh
   interpreter (that is C01/C12 territory and is covered by the differential check of histories). *)
From BL Require Import Base.Prelude Mach.Val Lang.Token Mach.Compile Mach.Listing Mach.Runtime Proofs.RMFrame Proofs.Dirty.
Local Open Scope N_scope.

(* (1) execute(): any number of VM instructions, any state *)
Theorem C04_dirty_tracks_execute : forall O r n r' e, rt_execute O r n = Ok (r', e) ->
  (r_dirty r = true -> r_dirty r' = true) /\ (ls_lines (r_listing r') = ls_lines (r_listing r) \/ r_dirty r' = true).
Proof. exact dirty_tracks_edits_execute. Qed.
Print Assumptions C04_dirty_tracks_execute.

(* (1) a numbered line: insert, replace, delete -- deleting a line that does not exist included *)
Theorem C04_dirty_tracks_numbered_line : forall r l r', enter_indirect r l = Ok r' ->
  (r_dirty r = true -> r_dirty r' = true) /\ (ls_lines (r_listing r') = ls_lines (r_listing r) \/ r_dirty r' = true).
Proof. exact dirty_tracks_edits_indirect. Qed.
Print Assumptions C04_dirty_tracks_numbered_line.

Theorem C04_enter_indirect_keeps_dirty : forall r l r', enter_indirect r l = Ok r' -> r_dirty r = true -> r_dirty r' = true.
Proof. intros r l r' E. exact (proj1 (dirty_tracks_edits_indirect r l r' E)). Qed.
Print Assumptions C04_enter_indirect_keeps_dirty.

(* (1) replies to INPUT / INKEY$ and interrupts *)
Theorem C04_reply_neutral : forall O r s,
  Track (ls_lines (r_listing r)) (r_dirty r) (enter_input O r s) /\ Track (ls_lines (r_listing r)) (r_dirty r) (enter_inkey O r s).
Proof. exact dirty_tracks_edits_reply. Qed.
Print Assumptions C04_reply_neutral.

Theorem C04_interrupt_neutral : forall r, r_dirty (rt_interrupt r) = r_dirty r /\ r_listing (rt_interrupt r) = r_listing r.
Proof. exact dirty_tracks_edits_interrupt. Qed.
Print Assumptions C04_interrupt_neutral.

(* (2) one opcode, then a whole execute() call on code without editing opcodes *)
Theorem C04_noedit_statement_frame : forall O h op r, is_edit_op op = false ->
  let r' := fst (exec_op O h op r) in
  ls_lines (r_listing r') = ls_lines (r_listing r) /\ r_dirty r' = r_dirty r.
Proof. exact noedit_op_frame. Qed.
Print Assumptions C04_noedit_statement_frame.

Theorem C04_noedit_program_frame : forall O r n r' e,
  forallb not_edit (l_ops (pg_link (r_prog r))) = true ->
  rt_execute O r n = Ok (r', e) ->
  ls_lines (r_listing r') = ls_lines (r_listing r) /\ r_dirty r' = r_dirty r
  /\ l_ops (pg_link (r_prog r')) = l_ops (pg_link (r_prog r)).
Proof. exact noedit_execute_frame. Qed.
Print Assumptions C04_noedit_program_frame.

(* (3) the direct line *)
Theorem C04_direct_keeps_lines : forall r l,
  ls_lines (r_listing (enter_direct r l)) = ls_lines (r_listing r) /\ r_dirty (enter_direct r l) = false.
Proof. exact direct_keeps_lines. Qed.
Print Assumptions C04_direct_keeps_lines.

Theorem C04_recompiled_from_listing : forall r l, r_dirty r = true ->
  enter_direct r l =
  enter_direct (set_cont (set_fns (set_stack_len (set_dirty (set_prog r (compile_listing (r_prog r) (ls_lines (r_listing r)))) false) [] 0) []) StStopped) l.
Proof. exact recompiled_from_listing. Qed.
Print Assumptions C04_recompiled_from_listing.

Theorem C04_stale_code_discarded : forall r l p1, r_dirty r = true -> program_clear p1 = program_clear (r_prog r) ->
  enter_direct (set_prog r p1) l = enter_direct r l.
Proof. exact stale_code_discarded. Qed.
Print Assumptions C04_stale_code_discarded.

Theorem C04_stale_state_discarded : forall r l st sl fns c, r_dirty r = true ->
  enter_direct (set_cont (set_fns (set_stack_len r st sl) fns) c) l = enter_direct r l.
Proof. exact stale_state_discarded. Qed.
Print Assumptions C04_stale_state_discarded.

(* non-vacuity: a clean runtime in which a present line is deleted (flag goes up) and an absent one is "deleted" (nothing changes) *)
Example C04_witness :
  let r := set_listing rt_default (mkListing [(10, [TWord WEnd])] [] []) in
  r_dirty r = false
  /\ (forall r', enter_indirect r (Some 10, []) = Ok r' -> r_dirty r' = true /\ ls_lines (r_listing r') = [])
  /\ (forall r', enter_indirect r (Some 20, []) = Ok r' -> r_dirty r' = false /\ ls_lines (r_listing r') = ls_lines (r_listing r)).
Proof. cbn. repeat split; intros; match goal with H : Ok _ = Ok _ |- _ => injection H as <- end; reflexivity. Qed.

(* ---- what was compiled before does not matter (Proofs/FreshRun.v) ---- *)
From BL Require Import Lang.Token Lang.Parse Mach.Val Proofs.Slicing Proofs.Swap Proofs.FreshRun.

(* compiling the stored lines: the previous program enters only through its DATA pointer, which the compiler carries along
   untouched (and through pending WHILE/WEND records, empty after every link) *)
Theorem C04_compile_forgets_previous_program : forall ls p p', l_whiles (pg_link p) = l_whiles (pg_link p') ->
  compile_listing p' ls = with_pdp (compile_listing p ls) (l_data_pos (pg_link p')).
Proof. exact compile_listing_any. Qed.
Print Assumptions C04_compile_forgets_previous_program.

(* two machines with the flag up that agree on the listing (and on prompt text, snapshots, trace mode, cursor column, entropy
   position and the dead continuation address) agree, after the same direct line, on everything a run can read that a run
   does not itself reset: compiled code, direct code, entry point, states *)
Theorem C04_edited_machines_agree : forall r r' l,
  r_dirty r = true -> r_dirty r' = true -> r_listing r = r_listing r' ->
  l_whiles (pg_link (r_prog r)) = l_whiles (pg_link (r_prog r')) ->
  r_prompt r = r_prompt r' -> r_snap r = r_snap r' -> r_tron r = r_tron r' -> r_col r = r_col r' -> r_ent r = r_ent r' ->
  r_cont_pc r = r_cont_pc r' ->
  static_eq (enter_direct r l) (enter_direct r' l).
Proof. exact edited_machines_agree. Qed.
Print Assumptions C04_edited_machines_agree.

(* RUN after any history of edits and runs = RUN in any other machine that holds the same listing: same states, same
   events, for any number of instructions *)
Theorem C04_run_after_edit_is_fresh : forall O r r' l n h,
  r_dirty r = true -> r_dirty r' = true -> r_listing r = r_listing r' ->
  l_whiles (pg_link (r_prog r)) = l_whiles (pg_link (r_prog r')) ->
  r_prompt r = r_prompt r' -> r_snap r = r_snap r' -> r_tron r = r_tron r' -> r_col r = r_col r' -> r_ent r = r_ent r' ->
  r_cont_pc r = r_cont_pc r' ->
  nthN (l_ops (pg_link (r_prog (enter_direct r l)))) (r_pc (enter_direct r l)) = Some OpClear ->
  prog_line_for (enter_direct r l) (r_pc (enter_direct r l)) = None ->
  exec_loop_x O (S n) h (enter_direct r l) = exec_loop_x O (S n) h (enter_direct r' l).
Proof. exact run_after_edit_is_fresh. Qed.
Print Assumptions C04_run_after_edit_is_fresh.

(* the premises are met by a fresh machine and a used one holding the same edited listing, with RUN as the direct line *)
Theorem C04_fresh_run_applies :
  r_dirty edited_fresh = true /\ r_dirty edited_used = true /\ r_listing edited_fresh = r_listing edited_used
  /\ edited_fresh <> edited_used
  /\ nthN (l_ops (pg_link (r_prog (enter_direct edited_fresh run_line)))) (r_pc (enter_direct edited_fresh run_line)) = Some OpClear
  /\ prog_line_for (enter_direct edited_fresh run_line) (r_pc (enter_direct edited_fresh run_line)) = None.
Proof. exact fresh_run_premises. Qed.
Print Assumptions C04_fresh_run_applies.
