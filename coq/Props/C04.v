(* C04 -- what runs is the program that LIST shows (statements grow with Proofs/Dirty.v). *)
From BL Require Import Base.Prelude Mach.Val Mach.Compile Mach.Listing Mach.Runtime.
Local Open Scope N_scope.

(* typing a numbered line can only set the dirty flag, never clear it *)
Theorem C04_enter_indirect_keeps_dirty : forall r l r', enter_indirect r l = Ok r' -> r_dirty r = true -> r_dirty r' = true.
Proof.
  intros r l r' H Hd. unfold enter_indirect in H.
  destruct (fst l) as [n |]; [| injection H as <-; exact Hd].
  destruct (snd l); injection H as <-; cbn; [rewrite Hd; reflexivity | reflexivity].
Qed.
Print Assumptions C04_enter_indirect_keeps_dirty.
