(* C06 -- variables and arrays are typed, zero-initialised, bounds-checked, never aliased.
   Statements only; proofs in Proofs/Vars.v (and Proofs/DecN.v for the decimal rendering of subscripts).
   `well_typed vs`: every stored entry holds a value of the type its key demands (suffix, else DEFtype of the letter).
   It holds of the empty store and is preserved by assignment, by DEFtype and (trivially) by CLEAR; reading always
   returns a value of the variable's own type.  Distinct keys never share storage (store_frame), and distinct
   variables / array elements have distinct keys (array_key_inj, array_key_not_scalar).
   Assumption made explicit in the statements: names contain no comma (the lexer produces none). *)
From BL Require Import Base.Prelude Base.Floats Mach.Val Mach.Var Mach.Compile Mach.Runtime Proofs.Vars.
From Coq Require Import String.
Local Open Scope N_scope.

Theorem C06_zero_init : forall vs k t, alist_get k (vs_vars vs) = None -> key_type (vs_types vs) k = Some t ->
  var_fetch vs k = Ok (zero_of t).
Proof. exact fetch_unassigned. Qed.
Print Assumptions C06_zero_init.

Theorem C06_convert_typed : forall t v v', convert_to t v = Ok v' -> val_type v' = Some t.
Proof. exact convert_to_type. Qed.
Print Assumptions C06_convert_typed.

Theorem C06_empty_typed : well_typed vars_empty.
Proof. exact well_typed_empty. Qed.
Print Assumptions C06_empty_typed.

Theorem C06_store_typed : forall vs k v vs', well_typed vs -> var_store vs k v = Ok vs' -> well_typed vs'.
Proof. exact store_typed. Qed.
Print Assumptions C06_store_typed.

Theorem C06_deftype_typed : forall vs t from to vs', well_typed vs -> var_def vs t from to = Ok vs' -> well_typed vs'.
Proof. exact def_typed. Qed.
Print Assumptions C06_deftype_typed.

Theorem C06_fetch_typed : forall vs k v t, well_typed vs -> key_type (vs_types vs) k = Some t ->
  var_fetch vs k = Ok v -> val_type v = Some t.
Proof. exact fetch_typed. Qed.
Print Assumptions C06_fetch_typed.

Theorem C06_store_then_fetch : forall vs k v vs' t v', key_type (vs_types vs) k = Some t -> convert_to t v = Ok v' ->
  var_store vs k v = Ok vs' -> var_fetch vs' k = Ok (if is_default v' then zero_of t else v').
Proof. exact store_then_fetch. Qed.
Print Assumptions C06_store_then_fetch.

Theorem C06_store_frame : forall vs k v vs' k', var_store vs k v = Ok vs' -> k' <> k -> var_fetch vs' k' = var_fetch vs k'.
Proof. exact store_frame. Qed.
Print Assumptions C06_store_frame.

Theorem C06_deftype_frame : forall vs t from to vs' cf ct f' o' k v, var_def vs t from to = Ok vs' ->
  to_str from = Ok (cf :: f') -> to_str to = Ok (ct :: o') -> In (k, v) (vs_vars vs) ->
  (suffixed k = true \/ match after_last_dot k k with c :: _ => (cf <=? c) && (c <=? ct) | [] => false end = false) ->
  In (k, v) (vs_vars vs').
Proof. exact def_frame. Qed.
Print Assumptions C06_deftype_frame.

Theorem C06_array_bounds : forall vs name arr vs1 k, build_array_key vs name arr = (vs1, Ok k) ->
  exists req dim,
    subscripts arr = Ok req /\ k = array_key name req
    /\ alist_get name (vs_dims vs1) = Some dim
    /\ (alist_get name (vs_dims vs) = None -> dim = repeat 10%Z (List.length req))
    /\ (forall d, alist_get name (vs_dims vs) = Some d -> dim = d /\ vs1 = vs)
    /\ Forall (fun r => 0 <= r)%Z req /\ Forall2 (fun r d => r <= d)%Z req dim.
Proof. exact array_key_bounds. Qed.
Print Assumptions C06_array_bounds.

Theorem C06_array_rejects : forall vs name arr req dim,
  subscripts arr = Ok req ->
  dim = match alist_get name (vs_dims vs) with Some d => d | None => repeat 10%Z (List.length req) end ->
  (List.length dim <> List.length req \/ exists i r d, nth_error req i = Some r /\ nth_error dim i = Some d /\ (d < r)%Z) ->
  snd (build_array_key vs name arr) = err E_Subscript.
Proof. exact array_key_rejects. Qed.
Print Assumptions C06_array_rejects.

Theorem C06_dim_twice : forall vs name arr d, alist_get name (vs_dims vs) = Some d -> var_dimension vs name arr = err E_Redim.
Proof. exact dim_twice. Qed.
Print Assumptions C06_dim_twice.

Theorem C06_erase_then_dim : forall vs name vs', var_erase vs name = Ok vs' -> alist_get name (vs_dims vs') = None.
Proof. exact erase_then_dim. Qed.
Print Assumptions C06_erase_then_dim.

Theorem C06_array_key_inj : forall name name' idx idx', comma_free name -> comma_free name' ->
  Forall (fun i => 0 <= i)%Z idx -> Forall (fun i => 0 <= i)%Z idx' ->
  array_key name idx = array_key name' idx' -> name = name' /\ idx = idx'.
Proof. exact array_key_inj. Qed.
Print Assumptions C06_array_key_inj.

Theorem C06_array_key_not_scalar : forall name idx k, comma_free k -> array_key name idx <> k.
Proof. exact array_key_not_scalar. Qed.
Print Assumptions C06_array_key_not_scalar.

(* ---- SWAP (proofs in Proofs/Swap.v): the code SWAP a,b compiles to, run on the VM ---- *)
From BL Require Import Proofs.ExprCompile Proofs.Swap.

Theorem C06_swap_exchanges : forall O h a b r va vb vs1 vs2, r_slen r + 2 <= MAX_POOL ->
  var_fetch (r_vars r) a = Ok va -> var_fetch (r_vars r) b = Ok vb -> same_kind vb va = true ->
  var_store (r_vars r) b va = Ok vs1 -> var_store vs1 a vb = Ok vs2 ->
  run_ops O h (swap_code a b) r = (set_vars r vs2, Ok tt).
Proof. exact swap_exchanges. Qed.
Print Assumptions C06_swap_exchanges.

Theorem C06_swap_mixed_rejected : forall O h a b r va vb, r_slen r + 2 <= MAX_POOL ->
  var_fetch (r_vars r) a = Ok va -> var_fetch (r_vars r) b = Ok vb -> same_kind vb va = false ->
  snd (run_ops O h (swap_code a b) r) = err E_TypeMismatch /\ r_vars (fst (run_ops O h (swap_code a b) r)) = r_vars r.
Proof. exact swap_mixed_rejected. Qed.
Print Assumptions C06_swap_mixed_rejected.

(* non-vacuity: a typed store with a scalar and an array element; DEFINT A-B drops the Single in A, keeps A! and Z *)
Definition C06_witness_run : option (res val * res val * res val) :=
  match var_store vars_empty (s2l "A"%string) (VSng 1069547520) with            (* A = 1.5 *)
  | Ok vs1 => match var_store vs1 (s2l "A!"%string) (VSng 1069547520) with
    | Ok vs2 => match var_store vs2 (s2l "Z"%string) (VInt 7) with
      | Ok vs3 => match var_def vs3 TInt (VStr (s2l "A"%string)) (VStr (s2l "B"%string)) with
        | Ok vs4 => Some (var_fetch vs4 (s2l "A"%string), var_fetch vs4 (s2l "A!"%string), var_fetch vs4 (s2l "Z"%string))
        | _ => None end
      | _ => None end
    | _ => None end
  | _ => None end.
Example C06_witness : C06_witness_run = Some (Ok (VInt 0), Ok (VSng 1069547520), Ok (VSng 1088421888)).
Proof. vm_compute. reflexivity. Qed.
