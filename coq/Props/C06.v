(* C06 -- variables and arrays (statements grow with Proofs/Store.v). *)
From BL Require Import Base.Prelude Base.Floats Mach.Val Mach.Var.
Local Open Scope N_scope.

(* a key that is not stored reads as the zero of its own type *)
Theorem C06_zero_init : forall vs k t, alist_get k (vs_vars vs) = None -> key_type (vs_types vs) k = Some t ->
  var_fetch vs k = Ok (zero_of t).
Proof. intros vs k t H1 H2. unfold var_fetch. rewrite H1, H2. reflexivity. Qed.
Print Assumptions C06_zero_init.

(* conversion to a variable's type yields a value of exactly that type, or an error *)
Theorem C06_convert_typed : forall t v v', convert_to t v = Ok v' -> val_type v' = Some t.
Proof.
  intros t v v' H. destruct t; cbn in H.
  - destruct v; try (cbn in H; unfold bind in H;
      match type of H with (match ?e with _ => _ end) = _ => destruct e end; try discriminate; injection H as <-; reflexivity);
      try (injection H as <-; reflexivity); try discriminate.
  - destruct v; try (cbn in H; unfold bind in H;
      match type of H with (match ?e with _ => _ end) = _ => destruct e end; try discriminate; injection H as <-; reflexivity);
      try (injection H as <-; reflexivity); try discriminate.
  - destruct v; try (cbn in H; unfold bind in H;
      match type of H with (match ?e with _ => _ end) = _ => destruct e end; try discriminate; injection H as <-; reflexivity);
      try (injection H as <-; reflexivity); try discriminate.
  - destruct v; try discriminate.
    destruct (255 <? lenN s); [discriminate | injection H as <-; reflexivity].
Qed.
Print Assumptions C06_convert_typed.
