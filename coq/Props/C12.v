(* C12 -- RUN, CLEAR and NEW reset state completely. *)
From BL Require Import Base.Prelude Mach.Val Mach.Var Mach.Compile Mach.Listing Mach.Runtime Proofs.FnCall.
Local Open Scope N_scope.

(* CLEAR leaves variables, arrays, type defaults, user functions, the value stack, the DATA position
   and the continuation exactly as in Runtime::default() -- one conjunct per field *)
Theorem C12_clear_resets : forall (O : oracle) r,
  let r' := fst (do_clear O r) in
  r_vars r' = r_vars rt_default /\ r_fns r' = r_fns rt_default /\ r_stack r' = r_stack rt_default
  /\ r_slen r' = r_slen rt_default /\ l_data_pos (pg_link (r_prog r')) = 0 /\ r_cont r' = r_cont rt_default.
Proof. intros O r. cbn. repeat split; reflexivity. Qed.
Print Assumptions C12_clear_resets.

(* ... and touches nothing else that a run can read: program, listing, trace mode, column *)
Theorem C12_clear_frame : forall (O : oracle) r,
  let r' := fst (do_clear O r) in
  l_ops (pg_link (r_prog r')) = l_ops (pg_link (r_prog r)) /\ l_data (pg_link (r_prog r')) = l_data (pg_link (r_prog r))
  /\ r_listing r' = r_listing r /\ r_tron r' = r_tron r /\ r_col r' = r_col r /\ r_pc r' = r_pc r
  /\ r_entry r' = r_entry r /\ r_dirty r' = r_dirty r.
Proof. intros O r. cbn. repeat split; reflexivity. Qed.
Print Assumptions C12_clear_frame.

(* NEW additionally empties the listing, leaves trace mode off and forces recompilation *)
Theorem C12_new : forall (O : oracle) r,
  let r' := fst (do_new O r) in
  ls_lines (r_listing r') = [] /\ r_tron r' = false /\ r_dirty r' = true /\ r_state r' = StStopped
  /\ r_vars r' = vars_empty /\ r_fns r' = [] /\ r_stack r' = [].
Proof. intros O r. cbn. repeat split; reflexivity. Qed.
Print Assumptions C12_new.

(* RUN compiles to CLEAR followed by a jump to the line (or to the start of the program) *)
Theorem C12_run_is_clear_then_jump : forall c n l, lenN (l_ops l) + 2 <= MAX_POOL ->
  l_ops (fst (l_push_run c n l)) = l_ops l ++ [OpClear; OpJump 0] /\ snd (l_push_run c n l) = Ok tt.
Proof. exact run_is_clear_then_jump. Qed.
Print Assumptions C12_run_is_clear_then_jump.

(* CLEAR forgets: two machines that agree on everything static (listing, compiled code and DATA, program counter, trace,
   cursor and run state) and on their position in the entropy stream are identical after CLEAR, whatever their variables,
   arrays, DEFtype settings, user functions, value stacks, DATA pointers, random-number states and CONT slots were.  RUN is
   CLEAR followed by a jump (above), so what a program does from RUN on cannot depend on any of those. *)
From BL Require Import Proofs.Swap.
Theorem C12_clear_forgets : forall O r r', static_eq r r' -> fst (do_clear O r) = fst (do_clear O r').
Proof. exact clear_forgets. Qed.
Print Assumptions C12_clear_forgets.

(* ... and it does not: from the CLEAR that opens RUN's code on, the fetch loop produces the same states and the same
   events on any two machines that agree on the static part, for any number of instructions (tracing either off, or the
   CLEAR sitting in direct-mode code, which is where RUN puts it) *)
From BL Require Import Proofs.Slicing Proofs.RunForgets.
Theorem C12_run_forgets : forall O n h r r', static_eq r r' -> nthN (l_ops (pg_link (r_prog r))) (r_pc r) = Some OpClear ->
  (r_tron r = false \/ prog_line_for r (r_pc r) = None) ->
  exec_loop_x O (S n) h r = exec_loop_x O (S n) h r'.
Proof. exact run_forgets. Qed.
Print Assumptions C12_run_forgets.

(* two machines with different dynamic parts meet the premises *)
Theorem C12_run_forgets_applies :
  static_eq demo_machine demo_machine_used /\ demo_machine <> demo_machine_used
  /\ nthN (l_ops (pg_link (r_prog demo_machine))) (r_pc demo_machine) = Some OpClear /\ r_tron demo_machine = false.
Proof. exact run_forgets_premises. Qed.
Print Assumptions C12_run_forgets_applies.
