(* C03 -- no input can crash or wedge the interpreter.
   Statements only; proofs in Proofs/LexTotal.v.
   Proved for every source text, with no bound on its length: the scanner accepts it -- it returns tokens, never a BASIC
   error, never the model's Panic, and never runs out of the fuel that stands for "loops for ever" (Hang).  The loop that
   hung in the unrepaired crate (`PRINT 1EE`, commit 8079876) is number_loop; its progress lemma is the heart of the proof.
   NOT proved here: the same for the parser, code generator and VM.  Their Panic/Hang-freedom is checked only by the
   differential runs (a model that returned Panic where the crate does not would show as a disagreement). *)
From BL Require Import Base.Prelude Lang.Token Mach.Func Lang.Lex Proofs.LexTotal.
From Coq Require Import String.
Local Open Scope N_scope.

Theorem C03_lex_total : forall src, exists num toks, lex src = Ok (num, toks).
Proof. exact lex_total. Qed.
Print Assumptions C03_lex_total.

(* the token loop needs at most one round per character *)
Theorem C03_lex_loop_fuel : forall fuel cs acc, (List.length cs < fuel)%nat -> exists ts, lex_loop fuel cs acc = Ok ts.
Proof. exact lex_loop_total. Qed.
Print Assumptions C03_lex_loop_fuel.

(* number(): always a token and never a longer remainder; a strictly shorter one unless the first character is a dangling exponent letter *)
Theorem C03_number_progress : forall cs s d dec e,
  exists t rest, number_loop cs s d dec e = Ok (t, rest) /\ (List.length rest <= List.length cs)%nat
    /\ (forall c r, cs = c :: r -> c <> 69 -> c <> 101 -> c <> 68 -> c <> 100 -> (List.length rest < List.length cs)%nat).
Proof. exact number_loop_total. Qed.
Print Assumptions C03_number_progress.

(* non-vacuity / regression: the inputs that hung the unrepaired scanner *)
Example C03_hang_inputs : (exists r, lex (s2l "PRINT 1EE"%string) = Ok r) /\ (exists r, lex (s2l "1E."%string) = Ok r) /\ (exists r, lex (s2l "A=1E!"%string) = Ok r).
Proof. repeat split; eexists; vm_compute; reflexivity. Qed.

(* ---- the parser has no way to panic (Proofs/ParseSafe.v) ---- *)
From BL Require Import Lang.Ast Lang.Parse Proofs.ParseSafe.
(* for every token list and line number the parser answers with a tree, a BASIC error or the fuel signal of the model -- the
   outcome that stands for a Rust panic does not occur in any of its twenty-odd functions (carried through the parser monad by
   a tactic; literal conversion checked separately) *)
Theorem C03_parse_never_panics : forall n toks, parse n toks <> Panic.
Proof. exact parse_never_panics. Qed.
Print Assumptions C03_parse_never_panics.
