(* C03 -- no input crashes or wedges the interpreter (statements grow with the model). *)
From BL Require Import Base.Prelude Lang.Token Lang.Lex.

(* placeholder obligation until Proofs/LexTotal.v is in place: post-passes are total functions *)
Theorem C03_postpasses_total : forall ts, exists ts',
  pp_separate_words (pp_collapse_doubles (pp_collapse_triples (pp_trim_end ts))) = ts'.
Proof. intros ts. eexists. reflexivity. Qed.
Print Assumptions C03_postpasses_total.
