(* C18 -- pools are bounded and completed statements leave nothing behind (statements grow with Proofs/Pools.v). *)
From BL Require Import Base.Prelude Mach.Val Mach.Compile Mach.Runtime.
Local Open Scope N_scope.

(* a push that would take the value stack past 65536 entries reports OUT OF MEMORY *)
Theorem C18_push_bounded : forall r v r' x, push v r = (r', x) ->
  r_slen r' = r_slen r + 1 /\ (x = Ok tt <-> r_slen r' <= 65535) .
Proof.
  intros r v r' x H. unfold push in H. injection H as <- <-. cbn. split; [reflexivity |].
  unfold MAX_POOL. destruct (N.ltb_spec 65535 (r_slen r + 1)); split; intros H'; try lia; try discriminate; reflexivity.
Qed.
Print Assumptions C18_push_bounded.

(* SWAP leaves two values on the stack, whether it succeeds or not: the same two in the same order when the
   types agree (the two POPs that follow then exchange them), and in exchanged order on a type mismatch (so
   that the two POPs, if the program is continued, store each value back into its own variable) *)
Theorem C18_swap_neutral : forall r a b rest, r_stack r = b :: a :: rest -> r_slen r = lenN (r_stack r) -> r_slen r <= 65535 ->
  r_stack (fst (do_swap r)) = (if same_kind a b then b :: a :: rest else a :: b :: rest)
  /\ r_slen (fst (do_swap r)) = r_slen r.
Proof.
  intros r a b rest Hs Hl Hb. unfold do_swap, pop2, rbind, pop. rewrite Hs. cbn.
  assert (Hlen : r_slen r = lenN rest + 2).
  { rewrite Hl, Hs. unfold lenN. cbn [List.length]. lia. }
  assert (E1 : (MAX_POOL <? r_slen r - 1 - 1 + 1) = false) by (apply N.ltb_ge; unfold MAX_POOL; lia).
  assert (E2 : (MAX_POOL <? r_slen r - 1 - 1 + 1 + 1) = false) by (apply N.ltb_ge; unfold MAX_POOL; lia).
  destruct (same_kind a b); unfold push, rbind; cbn; rewrite ?E1; cbn; rewrite ?E2; cbn; (split; [reflexivity | lia]).
Qed.
Print Assumptions C18_swap_neutral.
