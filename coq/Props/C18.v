(* C18 -- pools are bounded and completed statements leave nothing behind (statements grow with Proofs/Pools.v). *)
From BL Require Import Base.Prelude Mach.Val Mach.Compile Mach.Runtime.
Local Open Scope N_scope.

(* a push that would take the value stack past 65536 entries reports OUT OF MEMORY *)
Theorem C18_push_bounded : forall r v r' x, push v r = (r', x) ->
  r_slen r' = r_slen r + 1 /\ (x = Ok tt <-> r_slen r' <= 65535) .
Proof.
  intros r v r' x H. unfold push in H. injection H as <- <-. cbn. split; [reflexivity |].
  unfold MAX_POOL. destruct (N.ltb_spec 65535 (r_slen r + 1)); split; intros H'; try lia; try discriminate; reflexivity.
Qed.
Print Assumptions C18_push_bounded.

(* SWAP leaves two values on the stack, whether it succeeds or not: the same two in the same order when the
   types agree (the two POPs that follow then exchange them), and in exchanged order on a type mismatch (so
   that the two POPs, if the program is continued, store each value back into its own variable) *)
Theorem C18_swap_neutral : forall r a b rest, r_stack r = b :: a :: rest -> r_slen r = lenN (r_stack r) -> r_slen r <= 65535 ->
  r_stack (fst (do_swap r)) = (if same_kind a b then b :: a :: rest else a :: b :: rest)
  /\ r_slen (fst (do_swap r)) = r_slen r.
Proof.
  intros r a b rest Hs Hl Hb. unfold do_swap, pop2, rbind, pop. rewrite Hs. cbn.
  assert (Hlen : r_slen r = lenN rest + 2).
  { rewrite Hl, Hs. unfold lenN. cbn [List.length]. lia. }
  assert (E1 : (MAX_POOL <? r_slen r - 1 - 1 + 1) = false) by (apply N.ltb_ge; unfold MAX_POOL; lia).
  assert (E2 : (MAX_POOL <? r_slen r - 1 - 1 + 1 + 1) = false) by (apply N.ltb_ge; unfold MAX_POOL; lia).
  destruct (same_kind a b); unfold push, rbind; cbn; rewrite ?E1; cbn; rewrite ?E2; cbn; (split; [reflexivity | lia]).
Qed.
Print Assumptions C18_swap_neutral.

(* ---- the variable pool (proofs in Proofs/Vars.v) and the code / DATA pools ---- *)
From BL Require Import Mach.Var Proofs.Vars.

(* the pool never holds more than 65536 entries: a new entry is refused beyond that, replacing one never grows it *)
Theorem C18_variable_pool_bounded : forall vs k v vs', lenN (vs_vars vs) <= 65536 -> update_val vs k v = Ok vs' -> lenN (vs_vars vs') <= 65536.
Proof. exact update_val_bounded. Qed.
Print Assumptions C18_variable_pool_bounded.

(* storing 0 or "" frees the slot: the key is gone and the pool did not grow *)
Theorem C18_default_frees_slot : forall vs k v vs', is_default v = true -> update_val vs k v = Ok vs' ->
  alist_get k (vs_vars vs') = None /\ (length (vs_vars vs') <= length (vs_vars vs))%nat.
Proof. exact store_default_frees. Qed.
Print Assumptions C18_default_frees_slot.

(* the code pool: an instruction beyond 65535 is OUT OF MEMORY; the DATA pool likewise *)
Theorem C18_code_pool_bounded : forall op l, snd (l_push op l) = Ok tt <-> lenN (l_ops l) + 1 <= 65535.
Proof.
  intros op l. unfold l_push, set_ops. cbn. unfold lenN. rewrite app_length. cbn [length]. unfold MAX_POOL.
  destruct (N.ltb_spec 65535 (N.of_nat (length (l_ops l) + 1))); split; intros H'; try lia; try discriminate; reflexivity.
Qed.
Print Assumptions C18_code_pool_bounded.

Theorem C18_data_pool_bounded : forall v l, snd (l_push_data v l) = Ok tt <-> lenN (l_data l) + 1 <= 65535.
Proof.
  intros v l. unfold l_push_data, set_data. cbn. unfold lenN. rewrite app_length. cbn [length]. unfold MAX_POOL.
  destruct (N.ltb_spec 65535 (N.of_nat (length (l_data l) + 1))); split; intros H'; try lia; try discriminate; reflexivity.
Qed.
Print Assumptions C18_data_pool_bounded.

(* ---- the value stack in every reachable state (proofs in Proofs/StackBound.v) ---- *)
From BL Require Import Proofs.StoreRt Proofs.StackBound.

Theorem C18_reachable_stack_bounded : forall O r, reachable O r -> r_slen r = lenN (r_stack r) /\ lenN (r_stack r) <= 65535.
Proof. exact reachable_stack_bounded. Qed.
Print Assumptions C18_reachable_stack_bounded.

Theorem C18_one_instruction_bounded : forall O h op r, SI r ->
  match snd (exec_op O h op r) with
  | Ok _ => lenN (r_stack (fst (exec_op O h op r))) <= 65535
  | _ => lenN (r_stack (fst (exec_op O h op r))) <= 65536
  end.
Proof. exact one_instruction_bounded. Qed.
Print Assumptions C18_one_instruction_bounded.

(* ---- compiled statements leave nothing behind (Proofs/Flow3.v, the C01 simulation) ---- *)
From BL Require Import Lang.Ast Spec.Sem Proofs.Slicing Proofs.Flow Proofs.Flow2 Proofs.Flow3.

(* for programs of LET, PRINT, GOTO, ON..GOTO and END: whenever the reference semantics completes a statement and passes
   control on, the VM -- after the corresponding instructions, whatever the budgets of the calls -- has a value stack exactly
   as long as before the statement *)
Theorem C18_statement_leaves_stack : forall O srcl pls lo sl,
  Forall2 lmatch srcl pls -> ascending pls lo -> last_is_end (prog_ops pls) = true -> last_nonempty pls ->
  sl + lenN (prog_ops pls) <= MAX_POOL ->
  forall sb n sd s sr sa pb pd p pr pa st r st2 k',
  srcl = sb ++ (n, sd ++ s :: sr) :: sa -> pls = pb ++ (n, pd ++ p :: pr) :: pa ->
  Forall2 lmatch sb pb -> Forall2 gstmt sd pd -> gstmt s p -> Forall2 gstmt sr pr -> Forall2 lmatch sa pa ->
  r_pc r = lenN (prog_ops pb) + lenN (flat_map pc_ops pd) -> sfacts pls sl st r ->
  exec O srcl 200 n s (tag_line n sr, n) st = (st2, Go k') ->
  exists outs r2, vm_steps O r outs r2 /\ r_slen r2 = r_slen r.
Proof. exact stmt_leaves_stack. Qed.
Print Assumptions C18_statement_leaves_stack.

(* ---- a completed built-in call leaves exactly its result (Proofs/CallWidth.v) ---- *)
From BL Require Import Mach.Func Drv.Driver Proofs.CallWidth.

(* whichever built-in is called: when the handler completes, the entries the call owns -- as many as the arity table the
   code generator consults says, the count literal included when the arity is a range -- are gone, one result is in their
   place, and everything beneath is what it was.  Nothing stays behind, nothing beneath is eaten. *)
Theorem C18_builtin_replaces_its_arguments : forall O name r r',
  WF r -> do_builtin O name r = (r', Ok None) ->
  call_width name (r_stack r) <= lenN (r_stack r) /\ WF r'
  /\ exists v, r_stack r' = v :: skipnN (call_width name (r_stack r)) (r_stack r).
Proof. exact builtin_replaces_its_arguments. Qed.
Print Assumptions C18_builtin_replaces_its_arguments.

(* the entries a call owns are the ones its compiled code pushed: len argument values and, for a range of arities, the count *)
Theorem C18_width_is_what_the_call_pushed : forall name lo hi len s,
  builtin_arity name = Some (lo, hi) -> in_range (lo, hi) len = true ->
  call_width name ((if lo =? hi then [] else [VInt (Z.of_N len)]) ++ s) = len + (if lo =? hi then 0 else 1).
Proof. exact width_is_what_the_call_pushed. Qed.
Print Assumptions C18_width_is_what_the_call_pushed.

Example C18_pos_calls :
  WF (pos_machine [VInt 1; VSng 0]) /\ WF (pos_machine [VInt 0])
  /\ (let '(r', x) := do_builtin dummy_oracle pos_name (pos_machine [VInt 1; VSng 0]) in x = Ok None /\ r_stack r' = [VInt 0; VRet 5])
  /\ (let '(r', x) := do_builtin dummy_oracle pos_name (pos_machine [VInt 0]) in x = Ok None /\ r_stack r' = [VInt 0; VRet 5]).
Proof. exact pos_calls. Qed.

(* the arity table itself is the source's: Gen/SourceTables.v is regenerated from Function::opcode_and_arity by tools/tables.py
   on every run *)
From BL Require Import Gen.SourceTables Proofs.SourceTables.
Theorem C18_arities_are_the_sources : forall name, builtin_arity name = assoc_arity name src_arity.
Proof. exact arities_are_the_sources. Qed.
Print Assumptions C18_arities_are_the_sources.

(* the pool size and the head-room of Stack::is_full are the source's (regenerated by tools/tables.py on every run) *)
Theorem C18_pool_limits_are_the_sources :
  MAX_POOL = src_max_pool /\ forall r, stack_is_full r = (src_max_pool - src_full_headroom <? r_slen r).
Proof. exact (conj (proj1 (proj2 (proj2 limits_are_the_sources))) (proj2 (proj2 (proj2 limits_are_the_sources)))). Qed.
Print Assumptions C18_pool_limits_are_the_sources.
