(* C19 -- compile-time diagnostics point into the listed line and block execution.
   Proved (Proofs/ErrBlock.v): with errors recorded for the stored program every jump into program code stops the
   machine and reports them, leaving stack, variables and column alone; jumps that stay inside the direct line are
   ordinary jumps; a listed line comes with exactly the error ranges recorded for that line, shifted by the width of the
   line-number prefix.  NOT proved: that the recorded range of UNDEFINED LINE covers exactly the number and that of an
   unmatched WHILE/WEND exactly the keyword (parser columns; decided by the C19 monitor on the listed text). *)
From BL Require Import Base.Prelude Mach.Val Mach.Compile Mach.Listing Mach.Runtime Proofs.ErrBlock.
Local Open Scope N_scope.

(* the range shown to the user is the parser's range shifted by the width of "<line number> " *)
Theorem C19_error_column_shift : forall code n a b,
  error_column (mkErr code (Some n) (a, b)) = (a + lenN (dec_of_N n) + 1, b + lenN (dec_of_N n) + 1).
Proof. intros. unfold error_column. cbn. f_equal; lia. Qed.
Print Assumptions C19_error_column_shift.

Theorem C19_jump_into_faulty_program_blocked : forall O a r, a < r_entry r ->
  let '(r', x) := exec_op O true (OpJump a) r in
  x = Ok (Some (EvErrors (ls_ind_errors (r_listing r)))) /\ r_state r' = StStopped /\ r_cont r' = StStopped
  /\ r_stack r' = r_stack r /\ r_vars r' = r_vars r /\ r_col r' = r_col r.
Proof. exact jump_into_faulty_program_blocked. Qed.
Print Assumptions C19_jump_into_faulty_program_blocked.

Theorem C19_jump_within_direct_line : forall O h a r, r_entry r <= a -> exec_op O h (OpJump a) r = (set_pc r a, Ok None).
Proof. exact jump_within_direct_line. Qed.
Print Assumptions C19_jump_within_direct_line.

Theorem C19_underline_ranges : forall l a b text cols next, list_line l a b = Ok (Some (text, cols, next)) ->
  exists n toks, text = line_to_string (Some n, toks) /\ In (n, toks) (ls_lines l) /\ a <= n <= b
    /\ cols = map error_column (filter (fun e => match eline e with Some k => k =? n | None => false end) (ls_ind_errors l)).
Proof. exact underline_ranges_are_the_lines_errors. Qed.
Print Assumptions C19_underline_ranges.

(* ---- the linker's diagnostic for a branch to a line that is not there (Proofs/LinkErr.v) ---- *)
From BL Require Import Lang.Ast Proofs.Reloc Proofs.Flow Proofs.Flow2 Proofs.LinkErr.

(* every unresolved reference to a line number yields UNDEFINED LINE with the line that holds the code address and the
   column range recorded with the reference; the unresolved instruction stays as it was *)
Theorem C19_undefined_line_reported : forall syms unl acc addr c sym, In (addr, (c, sym)) unl -> zassoc_get sym syms = None -> (0 <= sym)%Z ->
  In (mkErr E_UndefinedLine (line_number_for syms addr) c) (snd (fold_left (lstep syms) unl acc)).
Proof. exact undefined_line_reported. Qed.
Print Assumptions C19_undefined_line_reported.

(* in a compiled program (lines ascending) an address inside the code of line n is attributed to line n *)
Theorem C19_address_belongs_to_line : forall before n ps after lo addr,
  ascending (before ++ (n, ps) :: after) lo -> n <= 65529 ->
  lenN (prog_ops before) <= addr < lenN (prog_ops before) + lenN (line_ops (n, ps)) ->
  line_number_for (line_syms (before ++ (n, ps) :: after) 0) addr = Some n.
Proof. exact address_belongs_to_line. Qed.
Print Assumptions C19_address_belongs_to_line.

(* together, for GOTO and ON..GOTO statements: a target m that is no line of the program is reported as UNDEFINED LINE in
   the line n the statement stands on, at the column range c the parser recorded for the number *)
Theorem C19_branch_to_missing_line_is_reported : forall before n pb p pa after lo s k c m,
  let pls := before ++ (n, pb ++ p :: pa) :: after in
  ascending pls lo -> n <= 65529 -> fstmt s p -> In (k, (c, Z.of_N m)) (pc_refs p) -> (forall pl, In pl pls -> fst pl <> m) ->
  In (mkErr E_UndefinedLine (Some n) c) (snd (fold_left (lstep (line_syms pls 0)) (line_refs pls 0) (prog_ops pls, []))).
Proof. exact branch_to_missing_line_is_reported. Qed.
Print Assumptions C19_branch_to_missing_line_is_reported.

(* ---- the parser's columns are the character ranges of the tokens in the listed text (Proofs/ParseCols.v) ---- *)
From BL Require Import Lang.Token Lang.Parse Proofs.ParseCols.

(* every token is handed to the parser with the range it occupies in the concatenation of the token texts, blanks included *)
Theorem C19_token_range : forall all st t st', Pos all st -> p_next st = (Some t, st') ->
  Pos all st' /\ exists before after, all = before ++ t :: after /\ p_cs st' = widths before /\ p_ce st' = widths before + width t.
Proof. exact next_gives_range. Qed.
Print Assumptions C19_token_range.

(* wherever the statement parser stops it stands on a token boundary of the line (or behind its end) *)
Theorem C19_parser_stays_aligned : forall all fuel b st l st', At all st -> statements fuel b st = Ok (l, st') -> At all st'.
Proof. exact parser_stays_aligned. Qed.
Print Assumptions C19_parser_stays_aligned.

Theorem C19_line_number_operand_range : forall all st e st', Pos all st -> expect_line_number st = Ok (e, st') ->
  Pos all st' /\ exists before l s after n,
    all = before ++ TLit l :: after /\ is_lnum_lit l = Some s /\ parse_u16 s = Some n /\ n <= 65529
    /\ e = lnum_expr (widths before, widths before + lenN s) n.
Proof. exact line_number_operand_range. Qed.
Print Assumptions C19_line_number_operand_range.

(* the whole line, every statement form: each branch target of GOTO, GOSUB, ON..GOTO / GOSUB, THEN n, ELSE n, RESTORE n, RUN n
   carries exactly the range of its number token, each WHILE and WEND exactly the range of its keyword -- at any nesting of IF *)
Theorem C19_parse_columns_exact : forall n toks l, parse n toks = Ok l -> good_stmts toks l.
Proof. exact parse_columns_exact. Qed.
Print Assumptions C19_parse_columns_exact.

Example C19_columns_demo :
  match parse None cols_demo_toks with
  | Ok l => map (cut (tokens_str cols_demo_toks)) (branch_cols l) = [[49; 48; 48]; [50; 48; 48; 48]]%list /\ branch_cols l = [(24, 27); (39, 43)]%list
  | _ => False
  end.
Proof. exact cols_demo. Qed.

(* ---- the code generator hands those ranges on (Proofs/RefCols.v) ---- *)
From BL Require Import Lang.Ast Proofs.RefCols.

(* for every line that parses and every statement of it, of any form: each reference to a program line that the statement's code
   leaves for the linker (non-negative symbol) carries the character range of a number token of that line *)
Theorem C19_line_references_carry_number_ranges : forall n toks ast s, parse n toks = Ok ast -> In s ast ->
  forall a c sym, In (a, (c, sym)) (l_unlinked (snd (fst (cg_stmt s)))) -> (0 <= sym)%Z -> num_range toks c.
Proof. exact line_references_carry_number_ranges. Qed.
Print Assumptions C19_line_references_carry_number_ranges.

(* the numbers of the diagnostics are the source's (coq/Gen/SourceTables.v is regenerated from enum ErrorCode by tools/tables.py
   on every run; Proofs/SourceTables.v) *)
From BL Require Import Base.Prelude Gen.SourceTables Proofs.SourceTables.
Theorem C19_error_codes_are_the_sources :
  E_Break = src_E_Break /\ E_NextWithoutFor = src_E_NextWithoutFor /\ E_Syntax = src_E_SyntaxError
  /\ E_ReturnWithoutGosub = src_E_ReturnWithoutGosub /\ E_OutOfData = src_E_OutOfData
  /\ E_IllegalFunctionCall = src_E_IllegalFunctionCall /\ E_Overflow = src_E_Overflow /\ E_OutOfMemory = src_E_OutOfMemory
  /\ E_UndefinedLine = src_E_UndefinedLine /\ E_Subscript = src_E_SubscriptOutOfRange /\ E_Redim = src_E_RedimensionedArray
  /\ E_DivByZero = src_E_DivisionByZero /\ E_IllegalDirect = src_E_IllegalDirect /\ E_TypeMismatch = src_E_TypeMismatch
  /\ E_StringTooLong = src_E_StringTooLong /\ E_CantContinue = src_E_CantContinue /\ E_UndefinedFn = src_E_UndefinedUserFunction
  /\ E_Redo = src_E_RedoFromStart /\ E_LineBufferOverflow = src_E_LineBufferOverflow /\ E_WhileWithoutWend = src_E_WhileWithoutWend
  /\ E_WendWithoutWhile = src_E_WendWithoutWhile /\ E_Internal = src_E_InternalError /\ E_DirectInFile = src_E_DirectStatementInFile.
Proof. exact error_codes_are_the_sources. Qed.
Print Assumptions C19_error_codes_are_the_sources.
