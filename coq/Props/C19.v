(* C19 -- compile-time diagnostics (statements grow with Proofs/Columns.v). *)
From BL Require Import Base.Prelude Mach.Val Mach.Compile Mach.Listing.
Local Open Scope N_scope.

(* the range shown to the user is the parser's range shifted by the width of "<line number> " *)
Theorem C19_error_column_shift : forall code n a b,
  error_column (mkErr code (Some n) (a, b)) = (a + lenN (dec_of_N n) + 1, b + lenN (dec_of_N n) + 1).
Proof. intros. unfold error_column. cbn. f_equal; lia. Qed.
Print Assumptions C19_error_column_shift.
