(* C19 -- compile-time diagnostics point into the listed line and block execution.
   Proved (Proofs/ErrBlock.v): with errors recorded for the stored program every jump into program code stops the
   machine and reports them, leaving stack, variables and column alone; jumps that stay inside the direct line are
   ordinary jumps; a listed line comes with exactly the error ranges recorded for that line, shifted by the width of the
   line-number prefix.  NOT proved: that the recorded range of UNDEFINED LINE covers exactly the number and that of an
   unmatched WHILE/WEND exactly the keyword (parser columns; decided by the C19 monitor on the listed text). *)
From BL Require Import Base.Prelude Mach.Val Mach.Compile Mach.Listing Mach.Runtime Proofs.ErrBlock.
Local Open Scope N_scope.

(* the range shown to the user is the parser's range shifted by the width of "<line number> " *)
Theorem C19_error_column_shift : forall code n a b,
  error_column (mkErr code (Some n) (a, b)) = (a + lenN (dec_of_N n) + 1, b + lenN (dec_of_N n) + 1).
Proof. intros. unfold error_column. cbn. f_equal; lia. Qed.
Print Assumptions C19_error_column_shift.

Theorem C19_jump_into_faulty_program_blocked : forall O a r, a < r_entry r ->
  let '(r', x) := exec_op O true (OpJump a) r in
  x = Ok (Some (EvErrors (ls_ind_errors (r_listing r)))) /\ r_state r' = StStopped /\ r_cont r' = StStopped
  /\ r_stack r' = r_stack r /\ r_vars r' = r_vars r /\ r_col r' = r_col r.
Proof. exact jump_into_faulty_program_blocked. Qed.
Print Assumptions C19_jump_into_faulty_program_blocked.

Theorem C19_jump_within_direct_line : forall O h a r, r_entry r <= a -> exec_op O h (OpJump a) r = (set_pc r a, Ok None).
Proof. exact jump_within_direct_line. Qed.
Print Assumptions C19_jump_within_direct_line.

Theorem C19_underline_ranges : forall l a b text cols next, list_line l a b = Ok (Some (text, cols, next)) ->
  exists n toks, text = line_to_string (Some n, toks) /\ In (n, toks) (ls_lines l) /\ a <= n <= b
    /\ cols = map error_column (filter (fun e => match eline e with Some k => k =? n | None => false end) (ls_ind_errors l)).
Proof. exact underline_ranges_are_the_lines_errors. Qed.
Print Assumptions C19_underline_ranges.

(* ---- the linker's diagnostic for a branch to a line that is not there (Proofs/LinkErr.v) ---- *)
From BL Require Import Lang.Ast Proofs.Reloc Proofs.Flow Proofs.Flow2 Proofs.LinkErr.

(* every unresolved reference to a line number yields UNDEFINED LINE with the line that holds the code address and the
   column range recorded with the reference; the unresolved instruction stays as it was *)
Theorem C19_undefined_line_reported : forall syms unl acc addr c sym, In (addr, (c, sym)) unl -> zassoc_get sym syms = None -> (0 <= sym)%Z ->
  In (mkErr E_UndefinedLine (line_number_for syms addr) c) (snd (fold_left (lstep syms) unl acc)).
Proof. exact undefined_line_reported. Qed.
Print Assumptions C19_undefined_line_reported.

(* in a compiled program (lines ascending) an address inside the code of line n is attributed to line n *)
Theorem C19_address_belongs_to_line : forall before n ps after lo addr,
  ascending (before ++ (n, ps) :: after) lo -> n <= 65529 ->
  lenN (prog_ops before) <= addr < lenN (prog_ops before) + lenN (line_ops (n, ps)) ->
  line_number_for (line_syms (before ++ (n, ps) :: after) 0) addr = Some n.
Proof. exact address_belongs_to_line. Qed.
Print Assumptions C19_address_belongs_to_line.

(* together, for GOTO and ON..GOTO statements: a target m that is no line of the program is reported as UNDEFINED LINE in
   the line n the statement stands on, at the column range c the parser recorded for the number *)
Theorem C19_branch_to_missing_line_is_reported : forall before n pb p pa after lo s k c m,
  let pls := before ++ (n, pb ++ p :: pa) :: after in
  ascending pls lo -> n <= 65529 -> fstmt s p -> In (k, (c, Z.of_N m)) (pc_refs p) -> (forall pl, In pl pls -> fst pl <> m) ->
  In (mkErr E_UndefinedLine (Some n) c) (snd (fold_left (lstep (line_syms pls 0)) (line_refs pls 0) (prog_ops pls, []))).
Proof. exact branch_to_missing_line_is_reported. Qed.
Print Assumptions C19_branch_to_missing_line_is_reported.
