(* C01 -- compiled execution follows the documented semantics.
   What is proved.
   (a) Expressions (Proofs/ExprCompile.v): for expressions over literals, scalar variables, unary minus, NOT and all
   binary operators -- any depth -- the code the compiler emits is the postfix form; the VM's own fetch loop runs that
   code like a straight-line interpreter and leaves the program counter behind it; the result on top of the stack
   (or the error) is the one the reference semantics Spec/Sem.v computes for the same variable store, and nothing else
   in the machine state changes.  Plus the ON dispatch arithmetic and LET to a scalar variable.
   (b) Control flow and output (Proofs/Flow.v .. Flow4.v): for whole programs, of any size, made of LET (scalar variable,
   expression as in (a)), PRINT (items as in (a)), GOTO, ON..GOTO and END, with ascending line numbers and END as the last
   statement: what the code generator
   and the linker produce is an explicit layout (line -> address, statement -> address, every branch slot patched to the
   first instruction of its target line), and the VM's fetch loop, started on that code with tracing off, follows the
   reference semantics statement by statement: if Spec/Sem.run says the run prints the texts t1..tk and reaches END with
   variable store V, the VM returns exactly those texts, in that order, and then stops (EvStopped) with variable store V; if
   it says error c after t1..tk, the VM prints t1..tk and reports error c (C01_compiled_program_follows_semantics;
   the statement-level simulation is C01_statement_simulation).  The parser's own line-number literals meet the premise on
   branch targets (C01_line_literal_ok: every line number 0..65529, from Flocq's specification of binary32); Proofs/Flow4.v holds a parsed program that meets every premise.
   What is NOT proved: the same for GOSUB/RETURN, FOR/NEXT, WHILE/WEND, IF, arrays, function calls (TAB, SPC), TRON, and the line
   number attached to an error.  There the deciding work is the differential run of generated programs against Spec/Sem.v. *)
From BL Require Import Base.Prelude Mach.Val Mach.Func Mach.Var Lang.Token Lang.Ast Mach.Compile Mach.Runtime Spec.Sem Proofs.Slicing Proofs.ExprCompile.
Local Open Scope N_scope.

(* ON: selector 0 or beyond the list falls through past the jump table; 1..len selects an entry *)
Theorem C01_on_dispatch : forall (O : oracle) r sel len rest,
  r_stack r = VInt sel :: VInt len :: rest -> (0 <= sel)%Z -> (0 <= len)%Z ->
  (-32768 <= sel <= 32767)%Z -> (-32768 <= len <= 32767)%Z ->
  do_on r = (set_pc (set_stack_len r rest (r_slen r - 1 - 1))
               (if ((sel =? 0) || (len <? sel))%Z then r_pc r + Z.to_N len else r_pc r + Z.to_N (sel - 1)), Ok tt).
Proof.
  intros O r sel len rest Hs H1 H2 H3 H4.
  unfold do_on, rbind, pop. rewrite Hs. cbn.
  unfold rlift. cbn.
  destruct ((sel <? 0)%Z) eqn:E1; [apply Z.ltb_lt in E1; lia |].
  destruct ((len <? 0)%Z) eqn:E2; [apply Z.ltb_lt in E2; lia |].
  cbn. destruct ((sel =? 0) || (len <? sel))%Z; reflexivity.
Qed.
Print Assumptions C01_on_dispatch.

(* code generation: a pure expression compiles to its postfix form, with no symbols, no DATA and no errors *)
Theorem C01_expression_code_is_postfix : forall e, pure e = true -> lenN (postfix e) <= MAX_POOL ->
  snd (fst (cg_expr e)) = plain (postfix e) /\ snd (cg_expr e) = [].
Proof. exact cg_expr_postfix. Qed.
Print Assumptions C01_expression_code_is_postfix.

(* the VM: postfix code pushes the value of the expression and changes nothing else; errors are the expression's errors *)
Theorem C01_postfix_runs : forall O h e r, pure e = true -> r_slen r + lenN (postfix e) <= MAX_POOL ->
  match eval_pure O (r_vars r) e with
  | Ok v => run_ops O h (postfix e) r = (pushed r v, Ok tt)
  | Err er => snd (run_ops O h (postfix e) r) = Err er
  | Panic => snd (run_ops O h (postfix e) r) = Panic
  | Hang => snd (run_ops O h (postfix e) r) = Hang
  end.
Proof. exact run_postfix. Qed.
Print Assumptions C01_postfix_runs.

(* ... through the model's own fetch-and-dispatch loop, with the code anywhere in program memory *)
Theorem C01_fetch_loop_runs_code : forall O code h r, forallb expr_op code = true -> r_tron r = false -> code_at r (r_pc r) code ->
  snd (exec_loop_x O (length code) h r) = no_event (snd (run_ops O h code r)) /\
  (forall u, snd (run_ops O h code r) = Ok u ->
     fst (exec_loop_x O (length code) h r) = set_pc (fst (run_ops O h code r)) (r_pc r + lenN code)).
Proof. exact fetch_loop_runs_code. Qed.
Print Assumptions C01_fetch_loop_runs_code.

Theorem C01_postfix_is_expression_code : forall e, pure e = true -> forallb expr_op (postfix e) = true.
Proof. exact postfix_expr_ops. Qed.
Print Assumptions C01_postfix_is_expression_code.

(* the reference semantics computes the same value *)
Theorem C01_sem_eval_pure : forall O fuel e s line, pure e = true -> (depth e < fuel)%nat -> s_locals s = [] ->
  eval O fuel line e s = (s, of_res (eval_pure O (s_vars s) e)).
Proof. exact sem_eval_pure. Qed.
Print Assumptions C01_sem_eval_pure.

(* together: compiled code on the VM against the reference semantics *)
Theorem C01_compiled_expression_correct : forall O h e r s line,
  pure e = true -> lenN (postfix e) <= MAX_POOL -> r_slen r + lenN (postfix e) <= MAX_POOL ->
  s_locals s = [] -> s_vars s = r_vars r ->
  let code := l_ops (snd (fst (cg_expr e))) in
  snd (cg_expr e) = [] /\
  match snd (eval O (S (depth e)) line e s) with
  | EvOk v => run_ops O h code r = (pushed r v, Ok tt)
  | EvErr c => exists er, snd (run_ops O h code r) = Err er /\ ecode er = c
  | EvUndef => True
  end.
Proof. exact compiled_expression_correct. Qed.
Print Assumptions C01_compiled_expression_correct.

(* ---- a whole statement: LET v = e for a scalar variable ---- *)
Theorem C01_let_code : forall c cv i e, pure e = true -> builtin_arity (ident_str i) = None ->
  lenN (let_code i e) <= MAX_POOL ->
  snd (fst (cg_stmt (SLet c (VUnary cv i) e))) = plain (let_code i e) /\ snd (cg_stmt (SLet c (VUnary cv i) e)) = [].
Proof. exact cg_let_shape. Qed.
Print Assumptions C01_let_code.

(* the compiled assignment leaves exactly the variable store the reference semantics prescribes, the stack as it was *)
Theorem C01_compiled_let_correct : forall O h line cv i e r s vs,
  pure e = true -> r_slen r + lenN (postfix e) <= MAX_POOL -> s_locals s = [] -> s_vars s = r_vars r ->
  (sdo x <~ eval O (S (depth e)) line e ;; assign O (S (depth e)) line (VUnary cv i) x) s = (with_vars s vs, EvOk tt) ->
  run_ops O h (let_code i e) r = (set_vars r vs, Ok tt).
Proof. exact compiled_let_correct. Qed.
Print Assumptions C01_compiled_let_correct.

Theorem C01_run_let : forall O h i e r, pure e = true -> r_slen r + lenN (postfix e) <= MAX_POOL ->
  match eval_pure O (r_vars r) e with
  | Ok v =>
      match var_store (r_vars r) (ident_str i) v with
      | Ok vs => run_ops O h (let_code i e) r = (set_vars r vs, Ok tt)
      | Err er => snd (run_ops O h (let_code i e) r) = Err er
      | Panic => snd (run_ops O h (let_code i e) r) = Panic
      | Hang => snd (run_ops O h (let_code i e) r) = Hang
      end
  | Err er => snd (run_ops O h (let_code i e) r) = Err er
  | Panic => snd (run_ops O h (let_code i e) r) = Panic
  | Hang => snd (run_ops O h (let_code i e) r) = Hang
  end.
Proof. exact run_let. Qed.
Print Assumptions C01_run_let.

(* ---- control flow, part 1 (Proofs/Flow.v): what compilation produces for programs made of LET, GOTO, ON..GOTO and END ---- *)
From BL Require Import Proofs.Flow.

(* each statement of the fragment compiles to its piece: code with placeholder jumps plus references to target lines *)
Theorem C01_statement_pieces : forall s p, fstmt s p -> lenN (pc_ops p) <= MAX_POOL ->
  exists c, cg_stmt s = ((c, raw (pc_cur p) (pc_ops p) (pc_refs p)), []).
Proof. exact fstmt_cg. Qed.
Print Assumptions C01_statement_pieces.

(* a whole program of such lines compiles, without errors, to the layout: line symbols at the start addresses, the pieces
   one behind the other, every reference recorded at its absolute address *)
Theorem C01_compile_is_layout : forall lines plines dp,
  Forall2 (fun l pl => fst l = fst pl /\ Forall2 fstmt (snd l) (snd pl)) lines plines ->
  lenN (l_ops (layout plines dp)) <= MAX_POOL ->
  pg_link (compile_asts lines dp) = layout plines dp /\ pg_errors (compile_asts lines dp) = []
  /\ pg_direct (compile_asts lines dp) = 0 /\ pg_ind_errors (compile_asts lines dp) = [].
Proof. exact compile_is_layout. Qed.
Print Assumptions C01_compile_is_layout.

(* ---- control flow, part 2 (Proofs/Flow2.v): the layout made explicit, and what linking does to it ---- *)
From BL Require Import Proofs.Flow2.

(* the symbol of a line is the address where its code starts; a statement's code sits behind the code of the statements
   before it; its references are recorded at their absolute addresses *)
Theorem C01_line_address : forall before n ps after lo, ascending (before ++ (n, ps) :: after) lo ->
  zassoc_get (Z.of_N n) (line_syms (before ++ (n, ps) :: after) 0) = Some (lenN (prog_ops before), 0).
Proof. exact line_address. Qed.
Print Assumptions C01_line_address.

Theorem C01_piece_address : forall before n pb p pa after i op, nth_error (pc_ops p) i = Some op ->
  nthN (prog_ops (before ++ (n, pb ++ p :: pa) :: after)) (lenN (prog_ops before) + lenN (flat_map pc_ops pb) + N.of_nat i) = Some op.
Proof. exact piece_address. Qed.
Print Assumptions C01_piece_address.

(* linking a compiled program of the fragment that ends in END: the code is the layout's code with every recorded
   reference patched through the symbol table, and the direct-mode area starts right behind it *)
Theorem C01_link_layout : forall P pls dp lo, pg_link P = layout pls dp -> pg_direct P = 0 -> ascending pls lo ->
  last_is_end (prog_ops pls) = true -> last_nonempty pls ->
  l_ops (pg_link (program_link P)) = final_ops pls /\ pg_direct (program_link P) = lenN (final_ops pls)
  /\ l_data (pg_link (program_link P)) = [] /\ l_data_pos (pg_link (program_link P)) = dp.
Proof. exact link_layout. Qed.
Print Assumptions C01_link_layout.

(* a GOTO / ON..GOTO slot holds, after linking, a jump to the first instruction of the target line; everything else is untouched *)
Theorem C01_linked_jump : forall pls a c n' s', good_prog pls ->
  In (a, (c, Z.of_N n')) (line_refs pls 0) -> nthN (prog_ops pls) a = Some (OpJump 0) ->
  zassoc_get (Z.of_N n') (line_syms pls 0) = Some (s', 0) ->
  nthN (final_ops pls) a = Some (OpJump s').
Proof. exact final_jump. Qed.
Print Assumptions C01_linked_jump.

Theorem C01_linked_other : forall pls a, ~ In a (map fst (line_refs pls 0)) -> nthN (final_ops pls) a = nthN (prog_ops pls) a.
Proof. exact final_other. Qed.
Print Assumptions C01_linked_other.

(* ---- control flow, parts 3 and 4 (Proofs/Flow3.v, Flow4.v): the VM on the linked code follows the reference semantics ---- *)
From BL Require Import Proofs.Flow2 Proofs.Flow3 Proofs.Flow4.

(* every slot the linker patches holds a placeholder jump, so every other instruction survives linking unchanged *)
Theorem C01_linking_keeps_code : forall pls a op, good_prog pls -> nthN (prog_ops pls) a = Some op -> op <> OpJump 0 ->
  nthN (final_ops pls) a = Some op.
Proof. exact final_keeps. Qed.
Print Assumptions C01_linking_keeps_code.

(* the parser writes the target n of a branch as the Single f32_of_Z n: the compiler's reading of that literal and the
   reference reading both give n, for every line number there is (Proofs/LineLit.v: exact conversion, floor, comparison
   and truncation of binary32 integers below 2^24, from Flocq's correctness theorems -- no enumeration) *)
Theorem C01_line_literal_ok : forall n, n <= 65529 ->
  target_is (Floats.f32_of_Z (Z.of_N n)) n /\ Z.to_N (Floats.f32_to_Z (Floats.f32_of_Z (Z.of_N n))) = n.
Proof. exact line_literal_ok. Qed.
Print Assumptions C01_line_literal_ok.

(* one statement: whatever the reference semantics does -- print texts and pass control to a continuation, end, fail with
   error c -- the VM, from the related state, does in finitely many budget-bounded calls of its fetch loop, returning the
   same texts in the same order, and arrives in a related state *)
Theorem C01_statement_simulation : forall O srcl pls lo sl,
  Forall2 lmatch srcl pls -> ascending pls lo -> last_is_end (prog_ops pls) = true -> last_nonempty pls ->
  sl + lenN (prog_ops pls) <= MAX_POOL ->
  forall sb n sd s sr sa pb pd p pr pa st r,
  srcl = sb ++ (n, sd ++ s :: sr) :: sa -> pls = pb ++ (n, pd ++ p :: pr) :: pa ->
  Forall2 lmatch sb pb -> Forall2 gstmt sd pd -> gstmt s p -> Forall2 gstmt sr pr -> Forall2 lmatch sa pa ->
  r_pc r = lenN (prog_ops pb) + lenN (flat_map pc_ops pd) -> sfacts pls sl st r ->
  outcome O srcl pls sl st (exec O srcl 200 n s (tag_line n sr, n) st) r.
Proof. exact stmt_step. Qed.
Print Assumptions C01_statement_simulation.

(* whole runs, any number of steps *)
Theorem C01_vm_follows_semantics : forall O srcl pls lo sl,
  Forall2 lmatch srcl pls -> ascending pls lo -> last_is_end (prog_ops pls) = true -> last_nonempty pls ->
  sl + lenN (prog_ops pls) <= MAX_POOL ->
  forall fuel k st r, Rel srcl pls sl k st r -> final O st (run O srcl fuel k st) r.
Proof. exact vm_follows_sem. Qed.
Print Assumptions C01_vm_follows_semantics.

(* from the parsed lines: compile, link, start at the first line with empty variables and the cursor at the left margin.
   vm_steps r outs r1: the VM gets from r to r1 by calls of its fetch loop (any budgets), and the PRINT events these calls
   return carry exactly the texts outs, in order; printed st st' outs: the reference semantics printed exactly outs
   between st and st' *)
Theorem C01_compiled_program_follows_semantics : forall O srcl pls dp lo n ss rest inputs fuel r,
  Forall2 lmatch srcl pls -> ascending pls lo -> last_is_end (prog_ops pls) = true -> last_nonempty pls ->
  r_slen r + lenN (prog_ops pls) <= MAX_POOL ->
  srcl = (n, ss) :: rest ->
  r_prog r = program_link (compile_asts srcl dp) -> r_pc r = 0 -> r_vars r = vars_empty -> r_tron r = false -> r_col r = 0 ->
  match run O srcl fuel (tag_line n ss, n) (sem_start false inputs) with
  | (st', HEnd) => exists outs r1 m r', vm_steps O r outs r1 /\ printed (sem_start false inputs) st' outs
                     /\ exec_loop_x O m false r1 = (r', Ok (Some EvStopped)) /\ r_vars r' = s_vars st'
  | (st', HError c _) => exists outs r1 m er, vm_steps O r outs r1 /\ printed (sem_start false inputs) st' outs
                           /\ snd (exec_loop_x O m false r1) = Err er /\ ecode er = c
  | _ => True
  end.
Proof. exact compiled_program_follows_semantics. Qed.
Print Assumptions C01_compiled_program_follows_semantics.

(* the premises are met by a program the model's own lexer and parser produce, and on it the conclusion is not the trivial
   branch: the VM prints " 2 ", "X" and a newline, then stops at END *)
Theorem C01_demo_program : map parse_src demo_text = map Some demo_src
  /\ (Forall2 lmatch demo_src demo_pieces /\ ascending demo_pieces 0 /\ last_is_end (prog_ops demo_pieces) = true
      /\ last_nonempty demo_pieces /\ 0 + lenN (prog_ops demo_pieces) <= MAX_POOL)
  /\ (forall O r dp, r_prog r = program_link (compile_asts demo_src dp) -> r_pc r = 0 -> r_vars r = vars_empty ->
        r_tron r = false -> r_slen r = 0 -> r_col r = 0 ->
        exists r1 m r', vm_steps O r [[32; 50; 32]; [88]; [10]] r1 /\ exec_loop_x O m false r1 = (r', Ok (Some EvStopped))).
Proof. exact (conj demo_is_parsed (conj demo_meets_premises demo_vm_prints)). Qed.
Print Assumptions C01_demo_program.

(* ---- FOR and NEXT: the emitted sequences and what the FOR sequence does (Proofs/StmtShape.v) ---- *)
From BL Require Import Proofs.StmtShape.

(* FOR v = e1 TO e2 STEP e3 compiles to: e1, store into v, e2, e3, the name of v, the loop address (0 until the linker
   patches it): the order in which the manual says they are evaluated *)
Theorem C01_for_statement_code : forall c vc v e1 e2 e3,
  pure e1 = true -> pure e2 = true -> pure e3 = true -> builtin_arity (ident_str v) = None ->
  let code := postfix e1 ++ [OpPop (ident_str v)] ++ postfix e2 ++ postfix e3 ++ [OpLiteral (VStr (ident_str v)); OpLiteral (VNext 0)] in
  lenN code <= MAX_POOL ->
  let s := SFor c (VUnary vc v) e1 e2 e3 in
  l_ops (snd (fst (cg_stmt s))) = code /\ l_data (snd (fst (cg_stmt s))) = [] /\ snd (cg_stmt s) = [].
Proof. exact for_statement_code. Qed.
Print Assumptions C01_for_statement_code.

(* on the VM: the limit and the step are evaluated in the store in which the loop variable already holds the start value
   (FOR I=1 TO I+2 runs to 3 whatever I was), and the frame limit / step / name / loop address is what is left on the stack *)
Theorem C01_for_assigns_before_limit_and_step : forall O h i e1 e2 e3 a r x vs y z,
  pure e1 = true -> pure e2 = true -> pure e3 = true ->
  r_slen r + lenN (postfix e1) + lenN (postfix e2) + lenN (postfix e3) + 4 <= MAX_POOL ->
  eval_pure O (r_vars r) e1 = Ok x -> var_store (r_vars r) (ident_str i) x = Ok vs ->
  eval_pure O vs e2 = Ok y -> eval_pure O vs e3 = Ok z ->
  run_ops O h (for_code i e1 e2 e3 a) r
  = (set_stack_len (set_vars r vs) (VNext a :: VStr (ident_str i) :: z :: y :: r_stack r) (r_slen r + 4), Ok tt).
Proof. exact run_for. Qed.
Print Assumptions C01_for_assigns_before_limit_and_step.

(* NEXT with a list closes the loops in the order written: one NEXT instruction per name, first name first *)
Theorem C01_next_statement_code : forall c (vs : list (col * ident)),
  (forall ci, In ci vs -> builtin_arity (ident_str (snd ci)) = None) ->
  let code := map (fun ci => OpNext (ident_str (snd ci))) vs in
  lenN code <= MAX_POOL ->
  let s := SNext c (map (fun ci => VUnary (fst ci) (snd ci)) vs) in
  l_ops (snd (fst (cg_stmt s))) = code /\ snd (cg_stmt s) = [].
Proof. exact next_statement_code. Qed.
Print Assumptions C01_next_statement_code.
