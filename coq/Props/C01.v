(* C01 -- compiled execution follows the documented control flow (statements grow). *)
From BL Require Import Base.Prelude Mach.Val Mach.Compile Mach.Runtime.
Local Open Scope N_scope.

(* ON: selector 0 or beyond the list falls through past the jump table; 1..len selects an entry *)
Theorem C01_on_dispatch : forall (O : oracle) r sel len rest,
  r_stack r = VInt sel :: VInt len :: rest -> (0 <= sel)%Z -> (0 <= len)%Z ->
  (-32768 <= sel <= 32767)%Z -> (-32768 <= len <= 32767)%Z ->
  do_on r = (set_pc (set_stack_len r rest (r_slen r - 1 - 1))
               (if ((sel =? 0) || (len <? sel))%Z then r_pc r + Z.to_N len else r_pc r + Z.to_N (sel - 1)), Ok tt).
Proof.
  intros O r sel len rest Hs H1 H2 H3 H4.
  unfold do_on, rbind, pop. rewrite Hs. cbn.
  unfold rlift. cbn.
  destruct ((sel <? 0)%Z) eqn:E1; [apply Z.ltb_lt in E1; lia |].
  destruct ((len <? 0)%Z) eqn:E2; [apply Z.ltb_lt in E2; lia |].
  cbn. destruct ((sel =? 0) || (len <? sel))%Z; reflexivity.
Qed.
Print Assumptions C01_on_dispatch.
