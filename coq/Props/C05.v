(* C05 -- listing is faithful.
   Proved: the listed text of line n, entered again, is line n again (for every n up to 65529 and every token list);
   reading back the decimal rendering of a number gives the number; a string literal's payload is copied character for
   character.  NOT proved: that the listed tokens lex back to the same tokens / the same AST (the fixed-point and
   same-meaning halves).  Those are decided by the C05 monitor on the implementation: exhaustively for all strings over
   the 25-symbol lexical alphabet up to the tier's length, and on generated lines. *)
From BL Require Import Base.Prelude Lang.Token Lang.Lex Mach.Listing Proofs.DecN Proofs.ListNumber.
Local Open Scope N_scope.

(* a string literal's payload is copied from the source character for character, up to the closing quote *)
Theorem C05_string_payload : forall body rest, ~ In 34 body ->
  string_loop (body ++ 34 :: rest) [] = (TLit (LStr body), rest).
Proof.
  intros body rest H.
  assert (G : forall acc, string_loop (body ++ 34 :: rest) acc = (TLit (LStr (rev acc ++ body)), rest)).
  { induction body as [| c b IH]; intros acc; cbn.
    - rewrite app_nil_r. reflexivity.
    - destruct (N.eqb_spec c 34) as [-> | Hne]; [exfalso; apply H; left; reflexivity |].
      rewrite IH by (intros Hin; apply H; right; exact Hin).
      cbn. rewrite <- app_assoc. reflexivity. }
  exact (G []).
Qed.
Print Assumptions C05_string_payload.

Theorem C05_listed_line_keeps_number : forall n toks, n <= 65529 ->
  exists toks', lex (line_to_string (Some n, toks)) = Ok (Some n, toks').
Proof. exact listed_line_keeps_number. Qed.
Print Assumptions C05_listed_line_keeps_number.

Theorem C05_line_number_prefix : forall n body, n <= 65529 -> split_line_number (dec_of_N n ++ 32 :: body) = (Some n, body).
Proof. exact relist_line_number. Qed.
Print Assumptions C05_line_number_prefix.

Theorem C05_decimal_reads_back : forall n, parse_udec (dec_of_N n) = Some n.
Proof. exact parse_dec_of_N. Qed.
Print Assumptions C05_decimal_reads_back.
