(* C05 -- listing is faithful (statements grow with Proofs/LexPrint.v). *)
From BL Require Import Base.Prelude Lang.Token Lang.Lex.
Local Open Scope N_scope.

(* a string literal's payload is copied from the source character for character, up to the closing quote *)
Theorem C05_string_payload : forall body rest, ~ In 34 body ->
  string_loop (body ++ 34 :: rest) [] = (TLit (LStr body), rest).
Proof.
  intros body rest H.
  assert (G : forall acc, string_loop (body ++ 34 :: rest) acc = (TLit (LStr (rev acc ++ body)), rest)).
  { induction body as [| c b IH]; intros acc; cbn.
    - rewrite app_nil_r. reflexivity.
    - destruct (N.eqb_spec c 34) as [-> | Hne]; [exfalso; apply H; left; reflexivity |].
      rewrite IH by (intros Hin; apply H; right; exact Hin).
      cbn. rewrite <- app_assoc. reflexivity. }
  exact (G []).
Qed.
Print Assumptions C05_string_payload.
