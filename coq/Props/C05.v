(* C05 -- listing is faithful.
   Proved: the listed text of line n, entered again, is line n again (for every n up to 65529 and every token list);
   reading back the decimal rendering of a number gives the number; a string literal's payload is copied character for
   character.  NOT proved: that the listed tokens lex back to the same tokens / the same AST (the fixed-point and
   same-meaning halves).  Those are decided by the C05 monitor on the implementation: exhaustively for all strings over
   the 25-symbol lexical alphabet up to the tier's length, and on generated lines. *)
From Coq Require Import String.
From BL Require Import Base.Prelude Lang.Token Lang.Lex Mach.Listing Proofs.DecN Proofs.ListNumber.
Local Open Scope N_scope.

(* a string literal's payload is copied from the source character for character, up to the closing quote *)
Theorem C05_string_payload : forall body rest, ~ In 34 body ->
  string_loop (body ++ 34 :: rest) [] = (TLit (LStr body), rest).
Proof.
  intros body rest H.
  assert (G : forall acc, string_loop (body ++ 34 :: rest) acc = (TLit (LStr (rev acc ++ body)), rest)).
  { induction body as [| c b IH]; intros acc; cbn.
    - rewrite app_nil_r. reflexivity.
    - destruct (N.eqb_spec c 34) as [-> | Hne]; [exfalso; apply H; left; reflexivity |].
      rewrite IH by (intros Hin; apply H; right; exact Hin).
      cbn. rewrite <- app_assoc. reflexivity. }
  exact (G []).
Qed.
Print Assumptions C05_string_payload.

Theorem C05_listed_line_keeps_number : forall n toks, n <= 65529 ->
  exists toks', lex (line_to_string (Some n, toks)) = Ok (Some n, toks').
Proof. exact listed_line_keeps_number. Qed.
Print Assumptions C05_listed_line_keeps_number.

Theorem C05_line_number_prefix : forall n body, n <= 65529 -> split_line_number (dec_of_N n ++ 32 :: body) = (Some n, body).
Proof. exact relist_line_number. Qed.
Print Assumptions C05_line_number_prefix.

Theorem C05_decimal_reads_back : forall n, parse_udec (dec_of_N n) = Some n.
Proof. exact parse_dec_of_N. Qed.
Print Assumptions C05_decimal_reads_back.

(* ---- remark lines (Proofs/RemarkText.v) ---- *)
From BL Require Import Mach.Func Proofs.RemarkText.

(* a line that is a remark written with ': entered and listed, it is the same text with the trailing blanks removed --
   whatever the text contains (quotes, colons, reserved words, lower case, any code points) *)
Theorem C05_apostrophe_remark_is_kept : forall n body, n <= 65529 ->
  relist (dec_of_N n ++ 32 :: 39 :: body) = Some (dec_of_N n ++ 32 :: 39 :: trim_end body).
Proof. exact apostrophe_line_is_kept. Qed.
Print Assumptions C05_apostrophe_remark_is_kept.

(* ... and that listing, entered again, lists identically *)
Theorem C05_apostrophe_listing_is_a_fixed_point : forall n body, n <= 65529 ->
  forall t, relist (dec_of_N n ++ 32 :: 39 :: body) = Some t -> relist t = Some t.
Proof. exact apostrophe_listing_is_a_fixed_point. Qed.
Print Assumptions C05_apostrophe_listing_is_a_fixed_point.

(* the same for REM followed by a character that cannot continue a word (a blank, a colon, a quote ...); text glued to REM
   is the recorded open finding of this property and is excluded by the premise *)
Theorem C05_rem_remark_is_kept : forall n c body, n <= 65529 -> ends_word c = true ->
  relist (dec_of_N n ++ 32 :: 82 :: 69 :: 77 :: c :: body) = Some (dec_of_N n ++ 32 :: 82 :: 69 :: 77 :: trim_end (c :: body)).
Proof. exact rem_line_is_kept. Qed.
Print Assumptions C05_rem_remark_is_kept.

Theorem C05_rem_listing_is_a_fixed_point : forall n c body, n <= 65529 -> ends_word c = true ->
  forall t, relist (dec_of_N n ++ 32 :: 82 :: 69 :: 77 :: c :: body) = Some t -> relist t = Some t.
Proof. exact rem_listing_is_a_fixed_point. Qed.
Print Assumptions C05_rem_listing_is_a_fixed_point.

Example C05_remark_demo :
  relist (s2l "20 '" ++ remark_demo) = Some (s2l "20 'x: ""PRINT"" goto 10 " ++ [233; 26085])
  /\ relist (s2l "20 REM " ++ remark_demo) = Some (s2l "20 REM x: ""PRINT"" goto 10 " ++ [233; 26085])
  /\ ends_word 32 = true /\ ends_word 58 = true /\ ends_word 34 = true.
Proof. exact remark_demo_kept. Qed.

(* ---- & constants (Proofs/RadixText.v) ---- *)
From BL Require Import Proofs.RadixText.

(* a hexadecimal / octal constant lists as & H digits / & digits, and that text -- in front of anything that does not
   continue the digits -- scans back to the same constant (the character the scanner stopped at comes back in upper case) *)
Theorem C05_radix_listing_is_the_source_text : forall s, lit_str (LHex s) = 38 :: 72 :: s /\ lit_str (LOct s) = 38 :: s.
Proof. exact radix_listing_is_the_source_text. Qed.
Print Assumptions C05_radix_listing_is_the_source_text.

Theorem C05_hex_constant_reads_back : forall s rest, all_b hex_digit s = true -> stops true rest ->
  lex_radix (72 :: s ++ rest) = (TLit (LHex s), handed_back rest).
Proof. exact hex_constant_reads_back. Qed.
Print Assumptions C05_hex_constant_reads_back.

Theorem C05_oct_constant_reads_back : forall s rest, s <> [] -> all_b oct_digit s = true -> stops false rest ->
  lex_radix (s ++ rest) = (TLit (LOct s), handed_back rest).
Proof. exact oct_constant_reads_back. Qed.
Print Assumptions C05_oct_constant_reads_back.

Example C05_radix_demo :
  all_b hex_digit [49; 70] = true /\ stops true [32; 43] /\ all_b oct_digit [49; 55] = true /\ stops false [56] /\ stops false [58]
  /\ lex_radix (72 :: [49; 70] ++ [58]) = (TLit (LHex [49; 70]), [58]) /\ lex_radix ([49; 55] ++ [43]) = (TLit (LOct [49; 55]), [43]).
Proof. exact radix_demo. Qed.
