(* C15 -- the program store is an ordered map with exact LIST / DELETE ranges.
   Statements only; proofs in Proofs/Store.v.  `get ls n` is the abstract map behind the list of lines, `asc ls`
   says the line numbers ascend strictly (the BTreeMap's order). *)
From BL Require Import Base.Prelude Mach.Val Lang.Token Lang.Lex Mach.Compile Mach.Listing Mach.Runtime Proofs.Store Proofs.StoreRt.
From Coq Require Import String.
Local Open Scope N_scope.

Theorem C15_insert_lookup : forall ls n t, lines_has (lines_insert ls n t) n = true.
Proof. exact old_C15_insert_lookup. Qed.
Print Assumptions C15_insert_lookup.

(* a numbered line inserts or replaces, and nothing else changes *)
Theorem C15_insert : forall ls n t k, asc ls ->
  asc (lines_insert ls n t) /\ Store.get (lines_insert ls n t) k = if n =? k then Some t else Store.get ls k.
Proof. intros ls n t k H. split; [exact (insert_asc ls n t H) | exact (get_insert ls n t k H)]. Qed.
Print Assumptions C15_insert.

(* a bare number deletes, and nothing else changes *)
Theorem C15_remove : forall ls n k, asc ls ->
  asc (lines_remove ls n) /\ Store.get (lines_remove ls n) k = if n =? k then None else Store.get ls k.
Proof. intros ls n k H. split; [exact (remove_asc ls n H) | exact (get_remove ls n k)]. Qed.
Print Assumptions C15_remove.

(* DELETE a-b removes exactly the lines inside the inclusive range *)
Theorem C15_delete_range : forall ls a b k, asc ls ->
  asc (delete_range ls a b) /\ Store.get (delete_range ls a b) k = if in_rng a b k then None else Store.get ls k.
Proof. intros ls a b k H. split; [exact (filter_asc _ ls H) | exact (get_delete_range ls a b k)]. Qed.
Print Assumptions C15_delete_range.

(* LIST a-b: iterating Listing::list_line as the runtime does yields exactly the lines of the inclusive range, ascending *)
Theorem C15_list_range : forall fuel l a b, asc (ls_lines l) -> (forall e, In e (ls_lines l) -> fst e <= 65529) ->
  a <= b -> (List.length (in_range_lines (ls_lines l) a b) < fuel)%nat ->
  list_texts fuel l a b = Ok (map text_of (in_range_lines (ls_lines l) a b)).
Proof. exact list_range_spec. Qed.
Print Assumptions C15_list_range.

(* membership in the abstract map and in the list coincide on ascending lists *)
Theorem C15_get_In : forall ls n t, asc ls -> (Store.get ls n = Some t <-> In (n, t) ls).
Proof. intros ls n t H. split; [apply get_In | apply In_get; exact H]. Qed.
Print Assumptions C15_get_In.

(* in every state the public API can reach (enter, execute, interrupt, snapshots) the stored lines ascend strictly *)
Theorem C15_reachable_sorted : forall O r, reachable O r -> asc (ls_lines (r_listing r)).
Proof. exact reachable_sorted. Qed.
Print Assumptions C15_reachable_sorted.

(* a numbered line, in any reachable state that is not waiting for a reply: the number is at most 65529, the line
   is inserted / replaced (or deleted when nothing follows the number), and no other line changes *)
Theorem C15_numbered_line_effect : forall O r s n toks r' b k, reachable O r ->
  (match r_state r with StInput | StInkey => False | _ => True end) ->
  utf8_len s <= MAX_LINE_LEN -> lex s = Ok (Some n, toks) -> rt_enter O r s = Ok (r', b) ->
  n <= 65529 /\
  Store.get (ls_lines (r_listing r')) k =
    if n =? k then (match toks with [] => None | _ => Some toks end) else Store.get (ls_lines (r_listing r)) k.
Proof. exact numbered_line_effect. Qed.
Print Assumptions C15_numbered_line_effect.

Example C15_witness :
  let l := mkListing [(10, [TWord WEnd]); (20, [TWord WStop]); (30, [TWord WEnd])] [] [] in
  asc (ls_lines l) /\ list_texts 5 l 15 30 = Ok [s2l "20 STOP"%string; s2l "30 END"%string].
Proof. split; [repeat constructor | vm_compute; reflexivity]. Qed.
