(* C15 -- the program store is an ordered map (statements grow with Proofs/Store.v). *)
From BL Require Import Base.Prelude Lang.Token Mach.Listing.
Local Open Scope N_scope.

(* inserting a line makes exactly that line readable *)
Theorem C15_insert_lookup : forall ls n t, lines_has (lines_insert ls n t) n = true.
Proof.
  intros ls n t. unfold lines_has. induction ls as [| [m u] r IH]; cbn.
  - rewrite N.eqb_refl. reflexivity.
  - destruct (N.ltb_spec n m) as [Hlt | Hge]; cbn.
    + rewrite N.eqb_refl. reflexivity.
    + destruct (N.eqb_spec n m) as [-> | Hne]; cbn.
      * rewrite N.eqb_refl. reflexivity.
      * destruct (N.eqb_spec m n); [congruence | exact IH].
Qed.
Print Assumptions C15_insert_lookup.
