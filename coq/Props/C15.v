(* C15 -- the program store is an ordered map with exact LIST / DELETE ranges.
   Statements only; proofs in Proofs/Store.v.  `get ls n` is the abstract map behind the list of lines, `asc ls`
   says the line numbers ascend strictly (the BTreeMap's order). *)
From BL Require Import Base.Prelude Mach.Val Lang.Token Lang.Lex Mach.Compile Mach.Listing Mach.Runtime Proofs.Store Proofs.StoreRt.
From Coq Require Import String.
Local Open Scope N_scope.

Theorem C15_insert_lookup : forall ls n t, lines_has (lines_insert ls n t) n = true.
Proof. exact old_C15_insert_lookup. Qed.
Print Assumptions C15_insert_lookup.

(* a numbered line inserts or replaces, and nothing else changes *)
Theorem C15_insert : forall ls n t k, asc ls ->
  asc (lines_insert ls n t) /\ Store.get (lines_insert ls n t) k = if n =? k then Some t else Store.get ls k.
Proof. intros ls n t k H. split; [exact (insert_asc ls n t H) | exact (get_insert ls n t k H)]. Qed.
Print Assumptions C15_insert.

(* a bare number deletes, and nothing else changes *)
Theorem C15_remove : forall ls n k, asc ls ->
  asc (lines_remove ls n) /\ Store.get (lines_remove ls n) k = if n =? k then None else Store.get ls k.
Proof. intros ls n k H. split; [exact (remove_asc ls n H) | exact (get_remove ls n k)]. Qed.
Print Assumptions C15_remove.

(* DELETE a-b removes exactly the lines inside the inclusive range *)
Theorem C15_delete_range : forall ls a b k, asc ls ->
  asc (delete_range ls a b) /\ Store.get (delete_range ls a b) k = if in_rng a b k then None else Store.get ls k.
Proof. intros ls a b k H. split; [exact (filter_asc _ ls H) | exact (get_delete_range ls a b k)]. Qed.
Print Assumptions C15_delete_range.

(* LIST a-b: iterating Listing::list_line as the runtime does yields exactly the lines of the inclusive range, ascending *)
Theorem C15_list_range : forall fuel l a b, asc (ls_lines l) -> (forall e, In e (ls_lines l) -> fst e <= 65529) ->
  a <= b -> (List.length (in_range_lines (ls_lines l) a b) < fuel)%nat ->
  list_texts fuel l a b = Ok (map text_of (in_range_lines (ls_lines l) a b)).
Proof. exact list_range_spec. Qed.
Print Assumptions C15_list_range.

(* membership in the abstract map and in the list coincide on ascending lists *)
Theorem C15_get_In : forall ls n t, asc ls -> (Store.get ls n = Some t <-> In (n, t) ls).
Proof. intros ls n t H. split; [apply get_In | apply In_get; exact H]. Qed.
Print Assumptions C15_get_In.

(* in every state the public API can reach (enter, execute, interrupt, snapshots) the stored lines ascend strictly *)
Theorem C15_reachable_sorted : forall O r, reachable O r -> asc (ls_lines (r_listing r)).
Proof. exact reachable_sorted. Qed.
Print Assumptions C15_reachable_sorted.

(* a numbered line, in any reachable state that is not waiting for a reply: the number is at most 65529, the line
   is inserted / replaced (or deleted when nothing follows the number), and no other line changes *)
Theorem C15_numbered_line_effect : forall O r s n toks r' b k, reachable O r ->
  (match r_state r with StInput | StInkey => False | _ => True end) ->
  utf8_len s <= MAX_LINE_LEN -> lex s = Ok (Some n, toks) -> rt_enter O r s = Ok (r', b) ->
  n <= 65529 /\
  Store.get (ls_lines (r_listing r')) k =
    if n =? k then (match toks with [] => None | _ => Some toks end) else Store.get (ls_lines (r_listing r)) k.
Proof. exact numbered_line_effect. Qed.
Print Assumptions C15_numbered_line_effect.

Example C15_witness :
  let l := mkListing [(10, [TWord WEnd]); (20, [TWord WStop]); (30, [TWord WEnd])] [] [] in
  asc (ls_lines l) /\ list_texts 5 l 15 30 = Ok [s2l "20 STOP"%string; s2l "30 END"%string].
Proof. split; [repeat constructor | vm_compute; reflexivity]. Qed.

(* ---- the operands of LIST and DELETE (Proofs/ParseRange.v) ---- *)
From BL Require Import Lang.Token Lang.Ast Lang.Parse Proofs.ParseExpr Proofs.ParseRange.

(* the range parser, in front of: nothing that is a number or a dash / n / n- / -m / n-m, returns the documented bounds
   (`bound e n`: the operand e is the line-number literal n, columns aside) and stands behind what it read *)
Theorem C15_range_bare : forall st ts, rep st ts -> not_number ts -> not_dash ts ->
  exists a b st', line_number_range st = Ok ((a, b), st') /\ bound a 0 /\ bound b 65529 /\ rep st' ts.
Proof. exact range_bare. Qed.
Print Assumptions C15_range_bare.

Theorem C15_range_single : forall st t n r, rep st (t :: r) -> is_lnum t n -> not_dash r ->
  exists a b st', line_number_range st = Ok ((a, b), st') /\ bound a n /\ bound b n /\ rep st' r.
Proof. exact range_single. Qed.
Print Assumptions C15_range_single.

Theorem C15_range_from : forall st t n r, rep st (t :: TOp OMinus :: r) -> is_lnum t n -> not_number r ->
  exists a b st', line_number_range st = Ok ((a, b), st') /\ bound a n /\ bound b 65529 /\ rep st' r.
Proof. exact range_from. Qed.
Print Assumptions C15_range_from.

Theorem C15_range_to : forall st t m r, rep st (TOp OMinus :: t :: r) -> is_lnum t m ->
  exists a b st', line_number_range st = Ok ((a, b), st') /\ bound a 0 /\ bound b m /\ rep st' r.
Proof. exact range_to. Qed.
Print Assumptions C15_range_to.

(* n-m, and an inverted range is refused before anything runs *)
Theorem C15_range_both : forall st t1 n t2 m r, rep st (t1 :: TOp OMinus :: t2 :: r) -> is_lnum t1 n -> is_lnum t2 m ->
  if m <? n then exists e, line_number_range st = Err e /\ ecode e = E_UndefinedLine
  else exists a b st', line_number_range st = Ok ((a, b), st') /\ bound a n /\ bound b m /\ rep st' r.
Proof. exact range_both. Qed.
Print Assumptions C15_range_both.

Theorem C15_range_tokens :
  Lex.lex (s2l "LIST 120-300") = Ok (None, [TWord WList; TWs 1; TLit (LInt (s2l "120")); TOp OMinus; TLit (LInt (s2l "300"))])
  /\ is_lnum (TLit (LInt (s2l "120"))) 120 /\ is_lnum (TLit (LInt (s2l "300"))) 300.
Proof. exact range_tokens. Qed.
Print Assumptions C15_range_tokens.

(* the largest line number and the longest line are the source's (coq/Gen/SourceTables.v is regenerated from /repo/src by
   tools/tables.py on every run; Proofs/SourceTables.v) *)
From BL Require Import Mach.Runtime Gen.SourceTables Proofs.SourceTables.
Theorem C15_line_limits_are_the_sources : src_max_line_number = 65529 /\ MAX_LINE_LEN = src_max_line_len.
Proof. exact (conj (proj1 limits_are_the_sources) (proj1 (proj2 limits_are_the_sources))). Qed.
Print Assumptions C15_line_limits_are_the_sources.
