(* C13 -- interrupt / STOP / END are transparent under CONT; slicing does not matter. *)
From BL Require Import Base.Prelude Mach.Val Mach.Compile Mach.Runtime.
Local Open Scope N_scope.

(* interrupt() saves exactly the state and program counter that CONT restores *)
Theorem C13_interrupt_saves : forall r, r_pc r < r_entry r ->
  let r' := rt_interrupt r in
  r_cont r' = r_state r /\ r_cont_pc r' = r_pc r /\ r_stack r' = r_stack r /\ r_vars r' = r_vars r
  /\ r_pc r' = r_pc r /\ r_state r' = StInterrupt.
Proof.
  intros r H. unfold rt_interrupt. cbn.
  destruct (N.leb_spec (r_entry r) (r_pc r)) as [Hle | _]; [lia |].
  cbn. repeat split; reflexivity.
Qed.
Print Assumptions C13_interrupt_saves.
