(* C13 -- interrupt / STOP / END are transparent under CONT; slicing does not matter.
   Statements only; proofs in Proofs/Slicing.v.  `exec_loop_x` is the model's execute_loop with the reason for
   stopping made visible (None = the instruction budget ran out); C13_loop_is_model ties it to the model's own loop.
   Proved: any way of cutting a run into budgets gives the same state and the same first event as one budget of
   the same total -- for every program, state and cut.  Proved as well (Proofs/ContTrip.v): the interrupt / CONT round trip
   through the public entry points -- interrupt(), the execute() calls that report ?BREAK and show the prompt, enter("CONT"),
   execute(k+1) -- ends in execute(k) of a machine that equals the interrupted one in address, stack, variables, functions,
   DATA pointer, random state, program code, symbols and data, and differs only in the cursor column (0 after the forced line
   break), the emptied continuation slot, the trace marker and the direct-code area; the same for any machine at the prompt
   whose slot holds a running program (after STOP, END or an error).  And (Proofs/DeadFields.v, ContRun.v): no instruction
   reads the three fields in which the resumed machine can differ while the slot is empty and tracing is off, so -- when the
   cursor stood in column 0 at the interrupt -- the execute() calls after CONT return exactly the events the uninterrupted
   machine returns, one call (C13_interrupt_is_transparent) or any number of calls (C13_calls_ignore_dead_fields), as long
   as the reference run stays inside the program and keeps running.  NOT proved: the case of a cursor beyond column 0 (one
   line break is forced by design, after which TAB, POS and print zones differ), runs that trace (TRON re-announces the
   line); these are checked on runs by the C13 monitor.  An INPUT in the way is covered step by step: the interrupt at the
   prompt (C13_interrupt_at_prompt_is_transparent), the reply (C13_reply_ignores_dead_fields) and the call that stores the
   fields or unwinds to the prompt again (C13_field_stores_ignore_dead_fields).  STOP and END inside
   the program are covered like the interrupt (C13_stop_is_transparent, C13_end_is_transparent): after the report, the
   prompt and CONT, the call returns what the machine would have returned had the statement been skipped. *)
From BL Require Import Base.Prelude Lang.Ast Mach.Val Mach.Compile Mach.Listing Mach.Runtime Proofs.Slicing Proofs.ContTrip Proofs.Dirty Proofs.DeadFields Proofs.ContRun.
Local Open Scope N_scope.

Theorem C13_interrupt_saves : forall r, r_pc r < r_entry r ->
  let r' := rt_interrupt r in
  r_cont r' = r_state r /\ r_cont_pc r' = r_pc r /\ r_stack r' = r_stack r /\ r_vars r' = r_vars r
  /\ r_pc r' = r_pc r /\ r_state r' = StInterrupt.
Proof.
  intros r H. unfold rt_interrupt. cbn.
  destruct (N.leb_spec (r_entry r) (r_pc r)) as [Hle | _]; [lia |].
  cbn. repeat split; reflexivity.
Qed.
Print Assumptions C13_interrupt_saves.

Theorem C13_loop_is_model : forall O fuel h r,
  exec_loop O fuel h r = (fst (exec_loop_x O fuel h r), match snd (exec_loop_x O fuel h r) with
                                                        | Ok x => Ok (ev_or_running x)
                                                        | Err e => Err e | Panic => Panic | Hang => Hang
                                                        end).
Proof. exact exec_loop_x_loop. Qed.
Print Assumptions C13_loop_is_model.

Theorem C13_split : forall O n m h r,
  exec_loop_x O (n + m) h r = match exec_loop_x O n h r with (r1, Ok None) => exec_loop_x O m h r1 | other => other end.
Proof. exact exec_loop_split. Qed.
Print Assumptions C13_split.

Theorem C13_slicing_irrelevant : forall O qs h r, run_slices O qs h r = exec_loop_x O (fold_right Nat.add 0%nat qs) h r.
Proof. exact slicing_irrelevant. Qed.
Print Assumptions C13_slicing_irrelevant.

Theorem C13_same_total_same_run : forall O qs qs' h r,
  fold_right Nat.add 0%nat qs = fold_right Nat.add 0%nat qs' -> run_slices O qs h r = run_slices O qs' h r.
Proof. exact same_total_same_run. Qed.
Print Assumptions C13_same_total_same_run.

(* at the API: while the machine stays in a running state between two calls, execute(n+m) = execute(n); execute(m) *)
Theorem C13_execute_split : forall O n m r r1,
  running_state (r_state r) = true -> ls_dir_errors (r_listing r) = [] ->
  let h := match ls_ind_errors (r_listing r) with [] => false | _ => true end in
  exec_loop_x O (N.to_nat n) h r = (r1, Ok None) ->
  running_state (r_state r1) = true -> r_listing r1 = r_listing r ->
  rt_execute O r n = Ok (r1, EvRunning) /\ rt_execute O r (n + m) = rt_execute O r1 m.
Proof. exact execute_split. Qed.
Print Assumptions C13_execute_split.

(* ---- the two halves of CONT ---- *)
(* the error path of execute() (STOP, ?BREAK, any error inside the program) saves the running state and the address of
   the next instruction, and keeps stack, variables, program and listing *)
Theorem C13_break_saves : forall r2 er r' e st, r_state r2 = st -> running_state st = true -> st = StRunning ->
  r_pc r2 < r_entry r2 -> stack_is_full r2 = false ->
  match r_state r2 with
  | StInputRunning =>
      let '(s, a) := unwind_input (r_stack r2) in
      let r3 := set_stack r2 s in
      let r4 := match a with Some addr => set_pc r3 addr | None => r3 end in
      Ok (set_state r4 StInputRedo, EvRunning)
  | st =>
      let r3 := set_cont_pc (set_cont (set_state r2 (StRuntimeError (in_line er (cur_line r2)))) st) (r_pc r2) in
      let r4 := if (r_entry r3 <=? r_pc r3) || stack_is_full r3 then set_cont (set_stack r3 []) StStopped else r3 in
      Ok (r4, EvRunning)
  end = Ok (r', e) ->
  r_cont r' = StRunning /\ r_cont_pc r' = r_pc r2 /\ r_stack r' = r_stack r2 /\ r_vars r' = r_vars r2 /\ r_pc r' = r_pc r2
  /\ r_prog r' = r_prog r2 /\ r_listing r' = r_listing r2.
Proof. exact break_saves. Qed.
Print Assumptions C13_break_saves.

(* CONT puts exactly that state and address back, empties the slot and touches nothing else *)
Theorem C13_cont_restores : forall r st, r_cont r = st -> is_stopped st = false -> r_state r = StRunning ->
  fst (do_cont r) = set_pc (set_cont (set_state r st) StStopped) (r_cont_pc r)
  /\ snd (do_cont r) = Ok (if is_running st then None else Some EvRunning).
Proof. exact cont_restores. Qed.
Print Assumptions C13_cont_restores.

Theorem C13_cont_refused : forall r, r_cont r = StStopped -> do_cont r = (r, err E_CantContinue).
Proof. exact cont_refused. Qed.
Print Assumptions C13_cont_refused.

(* ---- the interrupt / CONT round trip at the public entry points (Proofs/ContTrip.v) ---- *)
Theorem C13_cont_line_compiles : forall p c, Linked p -> program_link (codegen_line p None (Ok [SCont c])) = cont_prog p.
Proof. exact cont_line_compiles. Qed.
Print Assumptions C13_cont_line_compiles.

Theorem C13_cont_prog_keeps_program : forall p, pg_direct p <= lenN (l_ops (pg_link p)) ->
  let p' := cont_prog p in
  firstnN (pg_direct p) (l_ops (pg_link p')) = firstnN (pg_direct p) (l_ops (pg_link p))
  /\ l_data (pg_link p') = l_data (pg_link p) /\ l_data_pos (pg_link p') = l_data_pos (pg_link p)
  /\ l_syms (pg_link p') = l_syms (pg_link p) /\ pg_direct p' = pg_direct p /\ pg_ind_errors p' = pg_ind_errors p.
Proof. exact cont_prog_keeps_program. Qed.
Print Assumptions C13_cont_prog_keeps_program.

Theorem C13_break_then_prompt : forall O r1 k1 k2 k3 k4, r_state r1 = StInterrupt -> r_entry r1 <> 0 ->
  let e := mkErr E_Break (cur_line r1) (0, 0) in
  let pr := EvPrint (match r_prompt r1 with [] => [] | p => p ++ [c_nl] end) in
  if 0 <? r_col r1
  then execs O r1 [k1; k2; k3; k4] = Ok (at_prompt r1, [EvPrint [c_nl]; EvErrors [e]; pr; EvStopped])
  else execs O r1 [k2; k3; k4] = Ok (at_prompt r1, [EvErrors [e]; pr; EvStopped]).
Proof. exact break_then_prompt. Qed.
Print Assumptions C13_break_then_prompt.

Theorem C13_error_then_prompt : forall O rS e k1 k2 k3 k4, r_state rS = StRuntimeError e -> r_entry rS <> 0 ->
  let pr := EvPrint (match r_prompt rS with [] => [] | p => p ++ [c_nl] end) in
  if 0 <? r_col rS
  then execs O rS [k1; k2; k3; k4] = Ok (at_prompt rS, [EvPrint [c_nl]; EvErrors [e]; pr; EvStopped])
  else execs O rS [k2; k3; k4] = Ok (at_prompt rS, [EvErrors [e]; pr; EvStopped]).
Proof. exact error_then_prompt. Qed.
Print Assumptions C13_error_then_prompt.

Theorem C13_cont_instruction_runs : forall O r k h, r_dirty r = false -> Linked (r_prog r) -> r_tron r = false ->
  r_cont r = StRunning ->
  exec_loop O (S k) h (entered r) = exec_loop O k h (resumed r).
Proof. exact cont_instruction_runs. Qed.
Print Assumptions C13_cont_instruction_runs.

Theorem C13_interrupt_cont_round_trip : forall O r k,
  r_state r = StRunning -> r_pc r < r_entry r -> r_dirty r = false -> r_tron r = false -> Linked (r_prog r) ->
  r_entry r = pg_direct (r_prog r) ->
  let rB := at_prompt (rt_interrupt r) in
  let r' := resumed rB in
  rt_enter O rB cont_text = Ok (entered rB, true)
  /\ rt_execute O (entered rB) (N.succ k) = rt_execute O r' k
  /\ (r_pc r' = r_pc r /\ r_stack r' = r_stack r /\ r_slen r' = r_slen r /\ r_vars r' = r_vars r /\ r_fns r' = r_fns r
      /\ r_rand r' = r_rand r /\ r_ent r' = r_ent r /\ r_state r' = StRunning /\ r_entry r' = r_entry r
      /\ r_tron r' = r_tron r /\ r_dirty r' = r_dirty r /\ r_snap r' = r_snap r /\ r_prompt r' = r_prompt r
      /\ ls_lines (r_listing r') = ls_lines (r_listing r) /\ r_prog r' = cont_prog (r_prog r)
      /\ r_col r' = 0 /\ r_cont r' = StStopped /\ r_cont_pc r' = r_pc r /\ r_tr r' = None).
Proof. exact interrupt_cont_round_trip. Qed.
Print Assumptions C13_interrupt_cont_round_trip.

Theorem C13_cont_at_prompt_resumes : forall O rB k,
  match r_state rB with StInput | StInkey => False | _ => True end ->
  r_cont rB = StRunning -> r_dirty rB = false -> r_tron rB = false -> Linked (r_prog rB) ->
  let r' := resumed rB in
  rt_enter O rB cont_text = Ok (entered rB, true)
  /\ rt_execute O (entered rB) (N.succ k) = rt_execute O r' k
  /\ (r_pc r' = r_cont_pc rB /\ r_stack r' = r_stack rB /\ r_slen r' = r_slen rB /\ r_vars r' = r_vars rB /\ r_fns r' = r_fns rB
      /\ r_rand r' = r_rand rB /\ r_ent r' = r_ent rB /\ r_state r' = StRunning /\ r_entry r' = pg_direct (r_prog rB)
      /\ r_tron r' = r_tron rB /\ r_dirty r' = r_dirty rB /\ r_snap r' = r_snap rB /\ r_prompt r' = r_prompt rB
      /\ ls_lines (r_listing r') = ls_lines (r_listing rB) /\ r_prog r' = cont_prog (r_prog rB)
      /\ r_col r' = r_col rB /\ r_cont r' = StStopped /\ r_cont_pc r' = r_cont_pc rB /\ r_tr r' = None).
Proof. exact cont_at_prompt_resumes. Qed.
Print Assumptions C13_cont_at_prompt_resumes.

(* Program::link always leaves the shape the round trip asks for *)
Theorem C13_program_link_shape : forall p, let q := program_link p in
  l_unlinked (pg_link q) = [] /\ l_whiles (pg_link q) = [] /\ l_cur (pg_link q) = 0%Z
  /\ filter (fun e => (0 <=? fst e)%Z) (l_syms (pg_link q)) = l_syms (pg_link q).
Proof. exact program_link_shape. Qed.
Print Assumptions C13_program_link_shape.

(* non-vacuity: a machine reached through enter / execute only, stopped after its first PRINT in the middle of a comparison *)
Example C13_round_trip_applies :
  r_state trip_machine = StRunning /\ r_pc trip_machine < r_entry trip_machine /\ r_dirty trip_machine = false
  /\ r_tron trip_machine = false /\ Linked (r_prog trip_machine) /\ r_entry trip_machine = pg_direct (r_prog trip_machine)
  /\ r_stack trip_machine <> []%list /\ 0 < r_col trip_machine.
Proof. exact trip_premises. Qed.

(* ---- no run reads the three fields: instruction, loop, execute() call, calls (Proofs/DeadFields.v, ContRun.v) ---- *)
Theorem C13_instruction_ignores_dead_fields : forall O h op, op <> OpCont -> forall c t ops r,
  exists c' t', exec_op O h op (L c t ops r) = (L c' t' ops (fst (exec_op O h op r)), snd (exec_op O h op r)).
Proof. exact lensed_exec_op. Qed.
Print Assumptions C13_instruction_ignores_dead_fields.

Theorem C13_run_ignores_dead_fields : forall O fuel h e0 r c t ops,
  safe_run O e0 fuel h r -> firstnN e0 ops = firstnN e0 (l_ops (pg_link (r_prog r))) ->
  exists c' t', exec_loop O fuel h (L c t ops r) = (L c' t' ops (fst (exec_loop O fuel h r)), snd (exec_loop O fuel h r)).
Proof. exact run_ignores_dead_fields. Qed.
Print Assumptions C13_run_ignores_dead_fields.

Theorem C13_execute_ignores_dead_fields : forall O r k e0 c t ops,
  r_state r = StRunning -> ls_dir_errors (r_listing r) = [] ->
  safe_run O e0 (N.to_nat k) (has_ind r) r -> firstnN e0 ops = firstnN e0 (l_ops (pg_link (r_prog r))) ->
  same_up_to ops (rt_execute O (L c t ops r) k) (rt_execute O r k).
Proof. exact execute_ignores_dead_fields. Qed.
Print Assumptions C13_execute_ignores_dead_fields.

Theorem C13_calls_ignore_dead_fields : forall O ks r e0 c t ops,
  forallb not_edit (l_ops (pg_link (r_prog r))) = true ->
  safe_calls O e0 ks r -> firstnN e0 ops = firstnN e0 (l_ops (pg_link (r_prog r))) ->
  same_trace ops (execs O (L c t ops r) ks) (execs O r ks).
Proof. exact calls_ignore_dead_fields. Qed.
Print Assumptions C13_calls_ignore_dead_fields.

(* the property for interrupts: interrupt(), ?BREAK, prompt, CONT -- and the call returns what the uninterrupted call returns *)
Theorem C13_interrupt_is_transparent : forall O r k,
  r_state r = StRunning -> r_pc r < r_entry r -> r_dirty r = false -> r_tron r = false -> Linked (r_prog r) ->
  r_entry r = pg_direct (r_prog r) -> r_col r = 0 -> tidy r ->
  safe_run O (r_entry r) (N.to_nat k) (has_ind r) r ->
  let rB := at_prompt (rt_interrupt r) in
  rt_enter O rB cont_text = Ok (entered rB, true)
  /\ same_up_to (firstnN (pg_direct (r_prog r)) (l_ops (pg_link (r_prog r))) ++ [OpCont; OpEnd])
                (rt_execute O (entered rB) (N.succ k)) (rt_execute O r k).
Proof. exact interrupt_is_transparent. Qed.
Print Assumptions C13_interrupt_is_transparent.

(* non-vacuity: a loop stopped inside a comparison with the cursor in column 0 meets every premise, for 200 instructions *)
Example C13_transparent_applies :
  let r := loop_machine in
  r_state r = StRunning /\ r_pc r < r_entry r /\ r_dirty r = false /\ r_tron r = false /\ Linked (r_prog r)
  /\ r_entry r = pg_direct (r_prog r) /\ r_col r = 0 /\ tidy r /\ r_stack r <> nil
  /\ safe_run Drv.Driver.dummy_oracle (r_entry r) (N.to_nat 200) (has_ind r) r
  /\ forallb not_edit (l_ops (pg_link (r_prog r))) = true.
Proof. exact transparent_premises. Qed.

(* ---- STOP and END inside the program, then CONT (Proofs/ContRun.v) ---- *)
Theorem C13_stop_is_transparent : forall O r j k k1 k2 k3,
  r_state r = StRunning -> r_pc r + 1 < r_entry r -> r_dirty r = false -> r_tron r = false -> Linked (r_prog r) ->
  r_entry r = pg_direct (r_prog r) -> r_col r = 0 -> tidy r -> stack_is_full r = false ->
  nthN (l_ops (pg_link (r_prog r))) (r_pc r) = Some OpStop ->
  let r2 := set_pc r (r_pc r + 1) in
  safe_run O (r_entry r) (N.to_nat k) (has_ind r) r2 ->
  let rS := stopped_at r in
  let rB := at_prompt rS in
  rt_execute O r (N.succ j) = Ok (rS, EvRunning)
  /\ execs O rS [k1; k2; k3] = Ok (rB, [EvErrors [in_line (mkErr E_Break None (0, 0)) (cur_line r2)];
                                          EvPrint (match r_prompt r with [] => [] | p => p ++ [c_nl] end); EvStopped])
  /\ rt_enter O rB cont_text = Ok (entered rB, true)
  /\ same_up_to (firstnN (pg_direct (r_prog r)) (l_ops (pg_link (r_prog r))) ++ [OpCont; OpEnd])
                (rt_execute O (entered rB) (N.succ k)) (rt_execute O r2 k).
Proof. exact stop_is_transparent. Qed.
Print Assumptions C13_stop_is_transparent.

Theorem C13_end_is_transparent : forall O r j k,
  r_state r = StRunning -> r_pc r + 1 < r_entry r -> r_dirty r = false -> r_tron r = false -> Linked (r_prog r) ->
  r_entry r = pg_direct (r_prog r) -> r_col r = 0 -> tidy r ->
  nthN (l_ops (pg_link (r_prog r))) (r_pc r) = Some OpEnd ->
  let r2 := set_pc r (r_pc r + 1) in
  safe_run O (r_entry r) (N.to_nat k) (has_ind r) r2 ->
  let rB := ended_at r in
  rt_execute O r (N.succ j) = Ok (rB, EvPrint (match r_prompt r with [] => [] | p => p ++ [c_nl] end))
  /\ rt_enter O rB cont_text = Ok (entered rB, true)
  /\ same_up_to (firstnN (pg_direct (r_prog r)) (l_ops (pg_link (r_prog r))) ++ [OpCont; OpEnd])
                (rt_execute O (entered rB) (N.succ k)) (rt_execute O r2 k).
Proof. exact end_is_transparent. Qed.
Print Assumptions C13_end_is_transparent.

(* non-vacuity: machines reached through enter / execute only, standing in front of a STOP and in front of an END *)
Example C13_stop_applies :
  let r := before_stop in
  r_state r = StRunning /\ r_pc r + 1 < r_entry r /\ r_dirty r = false /\ r_tron r = false /\ Linked (r_prog r)
  /\ r_entry r = pg_direct (r_prog r) /\ r_col r = 0 /\ tidy r /\ stack_is_full r = false
  /\ nthN (l_ops (pg_link (r_prog r))) (r_pc r) = Some OpStop
  /\ safe_run Drv.Driver.dummy_oracle (r_entry r) (N.to_nat 50) (has_ind r) (set_pc r (r_pc r + 1)).
Proof. exact stop_premises. Qed.
Example C13_end_applies :
  let r := before_end in
  r_state r = StRunning /\ r_pc r + 1 < r_entry r /\ r_dirty r = false /\ r_tron r = false /\ Linked (r_prog r)
  /\ r_entry r = pg_direct (r_prog r) /\ r_col r = 0 /\ tidy r
  /\ nthN (l_ops (pg_link (r_prog r))) (r_pc r) = Some OpEnd
  /\ safe_run Drv.Driver.dummy_oracle (r_entry r) (N.to_nat 50) (has_ind r) (set_pc r (r_pc r + 1)).
Proof. exact end_premises. Qed.

(* ---- an interrupt while the program waits at an INPUT prompt (Proofs/ContTrip.v, ContRun.v) ---- *)
Theorem C13_cont_instruction_waits : forall O r k h, r_dirty r = false -> Linked (r_prog r) -> r_tron r = false ->
  is_stopped (r_cont r) = false -> is_running (r_cont r) = false ->
  exec_loop O (S k) h (entered r) = (resumed r, Ok EvRunning).
Proof. exact cont_instruction_waits. Qed.
Print Assumptions C13_cont_instruction_waits.

Theorem C13_interrupt_at_prompt_is_transparent : forall O r k k',
  r_state r = StInput -> r_pc r < r_entry r -> r_dirty r = false -> r_tron r = false -> Linked (r_prog r) ->
  r_entry r = pg_direct (r_prog r) -> r_col r = 0 -> tidy r ->
  let rB := at_prompt (rt_interrupt r) in
  rt_enter O rB cont_text = Ok (entered rB, true)
  /\ rt_execute O (entered rB) (N.succ k) = Ok (resumed rB, EvRunning)
  /\ same_up_to (firstnN (pg_direct (r_prog r)) (l_ops (pg_link (r_prog r))) ++ [OpCont; OpEnd])
                (rt_execute O (resumed rB) k') (rt_execute O r k').
Proof. exact interrupt_at_prompt_is_transparent. Qed.
Print Assumptions C13_interrupt_at_prompt_is_transparent.

Example C13_prompt_applies :
  let r := waiting_machine in
  r_state r = StInput /\ r_pc r < r_entry r /\ r_dirty r = false /\ r_tron r = false /\ Linked (r_prog r)
  /\ r_entry r = pg_direct (r_prog r) /\ r_col r = 0 /\ tidy r /\ r_stack r <> nil.
Proof. exact waiting_premises. Qed.

(* ---- the reply and the call that stores its fields ---- *)
Theorem C13_reply_ignores_dead_fields : forall O r s c t ops, r_state r = StInput ->
  exists c' t', rt_enter O (L c t ops r) s = Ok (L c' t' ops (set_col (enter_input O r s) 0), true)
                /\ rt_enter O r s = Ok (set_col (enter_input O r s) 0, true).
Proof. exact reply_ignores_dead_fields. Qed.
Print Assumptions C13_reply_ignores_dead_fields.

Theorem C13_field_stores_ignore_dead_fields : forall O r k e0 c t ops,
  r_state r = StInputRunning -> ls_dir_errors (r_listing r) = [] ->
  safe_run O e0 (N.to_nat k) (has_ind r) r -> firstnN e0 ops = firstnN e0 (l_ops (pg_link (r_prog r))) ->
  same_up_to ops (rt_execute O (L c t ops r) k) (rt_execute O r k).
Proof. exact field_stores_ignore_dead_fields. Qed.
Print Assumptions C13_field_stores_ignore_dead_fields.
