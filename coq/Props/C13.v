(* C13 -- interrupt / STOP / END are transparent under CONT; slicing does not matter.
   Statements only; proofs in Proofs/Slicing.v.  `exec_loop_x` is the model's execute_loop with the reason for
   stopping made visible (None = the instruction budget ran out); C13_loop_is_model ties it to the model's own loop.
   Proved: any way of cutting a run into budgets gives the same state and the same first event as one budget of
   the same total -- for every program, state and cut.  NOT proved: the CONT half (that STOP/END/interrupt
   followed by CONT reaches the state of the uninterrupted run); that half is checked on runs by the C13 monitor. *)
From BL Require Import Base.Prelude Mach.Val Mach.Compile Mach.Listing Mach.Runtime Proofs.Slicing.
Local Open Scope N_scope.

Theorem C13_interrupt_saves : forall r, r_pc r < r_entry r ->
  let r' := rt_interrupt r in
  r_cont r' = r_state r /\ r_cont_pc r' = r_pc r /\ r_stack r' = r_stack r /\ r_vars r' = r_vars r
  /\ r_pc r' = r_pc r /\ r_state r' = StInterrupt.
Proof.
  intros r H. unfold rt_interrupt. cbn.
  destruct (N.leb_spec (r_entry r) (r_pc r)) as [Hle | _]; [lia |].
  cbn. repeat split; reflexivity.
Qed.
Print Assumptions C13_interrupt_saves.

Theorem C13_loop_is_model : forall O fuel h r,
  exec_loop O fuel h r = (fst (exec_loop_x O fuel h r), match snd (exec_loop_x O fuel h r) with
                                                        | Ok x => Ok (ev_or_running x)
                                                        | Err e => Err e | Panic => Panic | Hang => Hang
                                                        end).
Proof. exact exec_loop_x_loop. Qed.
Print Assumptions C13_loop_is_model.

Theorem C13_split : forall O n m h r,
  exec_loop_x O (n + m) h r = match exec_loop_x O n h r with (r1, Ok None) => exec_loop_x O m h r1 | other => other end.
Proof. exact exec_loop_split. Qed.
Print Assumptions C13_split.

Theorem C13_slicing_irrelevant : forall O qs h r, run_slices O qs h r = exec_loop_x O (fold_right Nat.add 0%nat qs) h r.
Proof. exact slicing_irrelevant. Qed.
Print Assumptions C13_slicing_irrelevant.

Theorem C13_same_total_same_run : forall O qs qs' h r,
  fold_right Nat.add 0%nat qs = fold_right Nat.add 0%nat qs' -> run_slices O qs h r = run_slices O qs' h r.
Proof. exact same_total_same_run. Qed.
Print Assumptions C13_same_total_same_run.

(* at the API: while the machine stays in a running state between two calls, execute(n+m) = execute(n); execute(m) *)
Theorem C13_execute_split : forall O n m r r1,
  running_state (r_state r) = true -> ls_dir_errors (r_listing r) = [] ->
  let h := match ls_ind_errors (r_listing r) with [] => false | _ => true end in
  exec_loop_x O (N.to_nat n) h r = (r1, Ok None) ->
  running_state (r_state r1) = true -> r_listing r1 = r_listing r ->
  rt_execute O r n = Ok (r1, EvRunning) /\ rt_execute O r (n + m) = rt_execute O r1 m.
Proof. exact execute_split. Qed.
Print Assumptions C13_execute_split.

(* ---- the two halves of CONT ---- *)
(* the error path of execute() (STOP, ?BREAK, any error inside the program) saves the running state and the address of
   the next instruction, and keeps stack, variables, program and listing *)
Theorem C13_break_saves : forall r2 er r' e st, r_state r2 = st -> running_state st = true -> st = StRunning ->
  r_pc r2 < r_entry r2 -> stack_is_full r2 = false ->
  match r_state r2 with
  | StInputRunning =>
      let '(s, a) := unwind_input (r_stack r2) in
      let r3 := set_stack r2 s in
      let r4 := match a with Some addr => set_pc r3 addr | None => r3 end in
      Ok (set_state r4 StInputRedo, EvRunning)
  | st =>
      let r3 := set_cont_pc (set_cont (set_state r2 (StRuntimeError (in_line er (cur_line r2)))) st) (r_pc r2) in
      let r4 := if (r_entry r3 <=? r_pc r3) || stack_is_full r3 then set_cont (set_stack r3 []) StStopped else r3 in
      Ok (r4, EvRunning)
  end = Ok (r', e) ->
  r_cont r' = StRunning /\ r_cont_pc r' = r_pc r2 /\ r_stack r' = r_stack r2 /\ r_vars r' = r_vars r2 /\ r_pc r' = r_pc r2
  /\ r_prog r' = r_prog r2 /\ r_listing r' = r_listing r2.
Proof. exact break_saves. Qed.
Print Assumptions C13_break_saves.

(* CONT puts exactly that state and address back, empties the slot and touches nothing else *)
Theorem C13_cont_restores : forall r st, r_cont r = st -> is_stopped st = false -> r_state r = StRunning ->
  fst (do_cont r) = set_pc (set_cont (set_state r st) StStopped) (r_cont_pc r)
  /\ snd (do_cont r) = Ok (if is_running st then None else Some EvRunning).
Proof. exact cont_restores. Qed.
Print Assumptions C13_cont_restores.

Theorem C13_cont_refused : forall r, r_cont r = StStopped -> do_cont r = (r, err E_CantContinue).
Proof. exact cont_refused. Qed.
Print Assumptions C13_cont_refused.

(* ---- a pending key wait (INKEY$): asking again changes nothing, and CONT after an interrupt comes back to the same wait ---- *)
Theorem C13_key_wait_asks_again : forall O r k, r_state r = StInkey -> rt_execute O r k = Ok (r, EvInkey).
Proof. exact key_wait_asks_again. Qed.
Print Assumptions C13_key_wait_asks_again.

Theorem C13_key_wait_resumes : forall O r k, r_state r = StRunning -> r_cont r = StInkey ->
  let r' := fst (do_cont r) in
  snd (do_cont r) = Ok (Some EvRunning) /\ r_state r' = StInkey /\ r_pc r' = r_cont_pc r /\ r_stack r' = r_stack r
  /\ r_vars r' = r_vars r /\ rt_execute O r' k = Ok (r', EvInkey).
Proof. exact key_wait_resumes. Qed.
Print Assumptions C13_key_wait_resumes.
