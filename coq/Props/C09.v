(* C09 -- READ consumes DATA in source order; RESTORE and RUN reposition it.
   Proved (Proofs/DataRead.v): one READ takes the constant under the pointer and advances it by one, touching nothing
   else; k READs deliver the next k constants of the segment in order; reading past the end is OUT OF DATA and changes
   nothing; RESTORE sets the pointer to the resolved data address; CLEAR rewinds to 0; a line's symbol records the number
   of constants before the line; appending a fragment appends its constants.
   NOT proved: that the segment of a whole compiled program is the concatenation of its DATA statements in source order
   (needs an induction over all statement kinds of the code generator).  Decided by the C09 monitor against Spec/Sem.v,
   whose DATA list is defined directly on the AST. *)
From BL Require Import Base.Prelude Mach.Val Mach.Compile Mach.Runtime Proofs.DataRead.
Local Open Scope N_scope.

(* appending a fragment keeps the data already in the segment and adds the fragment's constants behind it *)
Theorem C09_append_data : forall l f l', l_append f l = (l', Ok tt) -> l_data l' = l_data l ++ l_data f.
Proof.
  intros l f l' H. unfold l_append in H.
  destruct (l_direct_set l && match l_data f with [] => false | _ => true end); [discriminate |].
  destruct (MAX_POOL <? lenN _) in H; [discriminate |].
  match type of H with (?a, (if ?c then _ else _)) = _ => destruct c end; [discriminate |].
  injection H as <-. reflexivity.
Qed.
Print Assumptions C09_append_data.

Theorem C09_read_one : forall r v, nthN (data_of r) (data_pos r) = Some v -> r_slen r + 1 <= MAX_POOL ->
  exists r', do_read r = (r', Ok tt)
    /\ r_stack r' = v :: r_stack r /\ data_pos r' = data_pos r + 1 /\ data_of r' = data_of r
    /\ r_vars r' = r_vars r /\ r_pc r' = r_pc r /\ l_ops (pg_link (r_prog r')) = l_ops (pg_link (r_prog r)).
Proof. exact read_one. Qed.
Print Assumptions C09_read_one.

Theorem C09_read_past_end : forall r, lenN (data_of r) <= data_pos r -> do_read r = (r, err E_OutOfData).
Proof. exact read_past_end. Qed.
Print Assumptions C09_read_past_end.

Theorem C09_read_sequence : forall k r vs, firstn k (skipnN (data_pos r) (data_of r)) = vs -> length vs = k ->
  r_slen r + N.of_nat k <= MAX_POOL ->
  exists r', reads k r = (r', Ok tt) /\ r_stack r' = rev vs ++ r_stack r /\ data_pos r' = data_pos r + N.of_nat k
             /\ data_of r' = data_of r /\ r_vars r' = r_vars r.
Proof. exact read_sequence. Qed.
Print Assumptions C09_read_sequence.

Theorem C09_restore_sets_pointer : forall O h a r, data_pos (fst (exec_op O h (OpRestore a) r)) = a
  /\ data_of (fst (exec_op O h (OpRestore a) r)) = data_of r.
Proof. exact restore_sets_pointer. Qed.
Print Assumptions C09_restore_sets_pointer.

Theorem C09_clear_rewinds : forall O r, data_pos (fst (do_clear O r)) = 0 /\ data_of (fst (do_clear O r)) = data_of r.
Proof. exact clear_rewinds. Qed.
Print Assumptions C09_clear_rewinds.

Theorem C09_line_symbol_data_address : forall n l l', l_push_symbol n l = (l', Ok tt) ->
  exists a, zassoc_get n (l_syms l') = Some (a, lenN (l_data l)).
Proof. exact line_symbol_data_address. Qed.
Print Assumptions C09_line_symbol_data_address.
