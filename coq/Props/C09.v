(* C09 -- READ consumes DATA in source order; RESTORE and RUN reposition it.
   Proved (Proofs/DataRead.v): one READ takes the constant under the pointer and advances it by one, touching nothing
   else; k READs deliver the next k constants of the segment in order; reading past the end is OUT OF DATA and changes
   nothing; RESTORE sets the pointer to the resolved data address; CLEAR rewinds to 0; a line's symbol records the number
   of constants before the line; appending a fragment appends its constants.
   Proved (Proofs/DataSeg.v, Proofs/SymSeg.v), by induction over ALL statement kinds of the code generator and over all
   programs: a statement that compiles without error contributes exactly its DATA constants, in the reference
   semantics' order (IF: THEN part, then ELSE part); the data segment of the compiled and linked program is Sem.all_data
   -- the DATA constants in source order, wherever the DATA lines sit (C09_data_segment_is_source_order); statement code
   only defines negative local symbols above the fragment's counter, so appending never disturbs a line symbol, and the
   symbol of line n holds the address RESTORE n receives: Sem.data_index_of_line n, the number of constants in the
   lines before n (C09_restore_address).
   NOT proved: conversion of the value read to the variable's type "exactly as assignment would" is the shared OpPop
   path (C06's theorems), not restated here; edit histories before the run are C04's business. *)
From BL Require Import Base.Prelude Mach.Val Mach.Compile Mach.Runtime Proofs.DataRead.
Local Open Scope N_scope.

(* appending a fragment keeps the data already in the segment and adds the fragment's constants behind it *)
Theorem C09_append_data : forall l f l', l_append f l = (l', Ok tt) -> l_data l' = l_data l ++ l_data f.
Proof.
  intros l f l' H. unfold l_append in H.
  destruct (l_direct_set l && match l_data f with [] => false | _ => true end); [discriminate |].
  destruct (MAX_POOL <? lenN _) in H; [discriminate |].
  match type of H with (?a, (if ?c then _ else _)) = _ => destruct c end; [discriminate |].
  injection H as <-. reflexivity.
Qed.
Print Assumptions C09_append_data.

Theorem C09_read_one : forall r v, nthN (data_of r) (data_pos r) = Some v -> r_slen r + 1 <= MAX_POOL ->
  exists r', do_read r = (r', Ok tt)
    /\ r_stack r' = v :: r_stack r /\ data_pos r' = data_pos r + 1 /\ data_of r' = data_of r
    /\ r_vars r' = r_vars r /\ r_pc r' = r_pc r /\ l_ops (pg_link (r_prog r')) = l_ops (pg_link (r_prog r)).
Proof. exact read_one. Qed.
Print Assumptions C09_read_one.

Theorem C09_read_past_end : forall r, lenN (data_of r) <= data_pos r -> do_read r = (r, err E_OutOfData).
Proof. exact read_past_end. Qed.
Print Assumptions C09_read_past_end.

Theorem C09_read_sequence : forall k r vs, firstn k (skipnN (data_pos r) (data_of r)) = vs -> length vs = k ->
  r_slen r + N.of_nat k <= MAX_POOL ->
  exists r', reads k r = (r', Ok tt) /\ r_stack r' = rev vs ++ r_stack r /\ data_pos r' = data_pos r + N.of_nat k
             /\ data_of r' = data_of r /\ r_vars r' = r_vars r.
Proof. exact read_sequence. Qed.
Print Assumptions C09_read_sequence.

Theorem C09_restore_sets_pointer : forall O h a r, data_pos (fst (exec_op O h (OpRestore a) r)) = a
  /\ data_of (fst (exec_op O h (OpRestore a) r)) = data_of r.
Proof. exact restore_sets_pointer. Qed.
Print Assumptions C09_restore_sets_pointer.

Theorem C09_clear_rewinds : forall O r, data_pos (fst (do_clear O r)) = 0 /\ data_of (fst (do_clear O r)) = data_of r.
Proof. exact clear_rewinds. Qed.
Print Assumptions C09_clear_rewinds.

Theorem C09_line_symbol_data_address : forall n l l', l_push_symbol n l = (l', Ok tt) ->
  exists a, zassoc_get n (l_syms l') = Some (a, lenN (l_data l)).
Proof. exact line_symbol_data_address. Qed.
Print Assumptions C09_line_symbol_data_address.

(* ---- the data segment of whole programs (Proofs/DataSeg.v, Proofs/SymSeg.v) ---- *)
From BL Require Import Lang.Ast Spec.Sem Proofs.Flow Proofs.DataSeg Proofs.SymSeg.

(* expressions and variables never put anything into the data segment, whatever happens while compiling them *)
Theorem C09_expressions_have_no_data : forall e, l_data (snd (fst (cg_expr e))) = [].
Proof. exact cg_expr_nodata. Qed.
Print Assumptions C09_expressions_have_no_data.

(* every statement kind: compiled without error, it contributes exactly its DATA constants in the reference order *)
Theorem C09_statement_data : forall s, snd (cg_stmt s) = [] -> wf_data s = true ->
  map Some (l_data (snd (fst (cg_stmt s)))) = stmt_data s.
Proof. exact cg_stmt_data. Qed.
Print Assumptions C09_statement_data.

(* linking does not touch the data segment *)
Theorem C09_link_keeps_data : forall p, l_data (pg_link (program_link p)) = l_data (pg_link p).
Proof. exact program_link_data. Qed.
Print Assumptions C09_link_keeps_data.

(* any program, any layout: the segment READ indexes into is the DATA constants in source order *)
Theorem C09_data_segment_is_source_order : forall prog dp,
  pg_errors (compile_asts prog dp) = [] -> forallb (fun e => forallb wf_data (snd e)) prog = true ->
  map Some (l_data (pg_link (program_link (compile_asts prog dp)))) = all_data prog.
Proof. exact data_segment_is_source_order. Qed.
Print Assumptions C09_data_segment_is_source_order.

(* statement code keeps its symbols to itself: negative, above the fragment's counter *)
Theorem C09_statement_symbols_local : forall s, snd (cg_stmt s) = [] ->
  (l_cur (snd (fst (cg_stmt s))) <= 0)%Z
  /\ forall k v, In (k, v) (l_syms (snd (fst (cg_stmt s)))) -> (l_cur (snd (fst (cg_stmt s))) <= k < 0)%Z.
Proof. exact cg_stmt_inv. Qed.
Print Assumptions C09_statement_symbols_local.

(* RESTORE n: the data address recorded for line n is the number of constants in the lines before it *)
Theorem C09_restore_address : forall before n ss after dp,
  let prog := before ++ (n, ss) :: after in
  pg_errors (compile_asts prog dp) = [] -> forallb (fun e => forallb wf_data (snd e)) prog = true ->
  (forall e, In e before -> fst e < n) -> (forall e, In e after -> n < fst e) ->
  exists code_addr,
    zassoc_get (Z.of_N n) (l_syms (pg_link (compile_asts prog dp))) = Some (code_addr, data_index_of_line prog n).
Proof. exact restore_address. Qed.
Print Assumptions C09_restore_address.

(* the premises are met by a parsed program with DATA before, inside (IF branches) and after the code that reads it *)
Theorem C09_demo_program :
  lenN data_demo = 5 /\ pg_errors (compile_asts data_demo 0) = []
  /\ forallb (fun e => forallb wf_data (snd e)) data_demo = true
  /\ l_data (pg_link (program_link (compile_asts data_demo 0))) = [VInt 1; VSng 3223322624; VStr [88]; VInt 7; VInt 9; VInt (-3)]
  /\ zassoc_get 30%Z (l_syms (pg_link (compile_asts data_demo 0))) = Some (4, 2) /\ data_index_of_line data_demo 30 = 2.
Proof. exact data_demo_facts. Qed.
Print Assumptions C09_demo_program.

(* DATA in a direct line: the fragment is refused before anything of it is merged -- the link, and with it the program's data
   segment, is exactly what it was (a guard placed behind the merge, as in three seeded changes, fails this) *)
Theorem C09_direct_data_is_refused_whole : forall f l, l_direct_set l = true -> l_data f <> [] ->
  l_append f l = (l, err E_IllegalDirect).
Proof.
  intros f l Hd Hf. unfold l_append. rewrite Hd. destruct (l_data f); [contradiction | reflexivity].
Qed.
Print Assumptions C09_direct_data_is_refused_whole.
