(* C09 -- statements grow with the development; see DESIGN.md section 7. *)
From BL Require Import Base.Prelude Mach.Val Mach.Compile.
Local Open Scope N_scope.

(* appending a fragment keeps the data already in the segment and adds the fragment's constants behind it *)
Theorem C09_append_data : forall l f l', l_append f l = (l', Ok tt) -> l_data l' = l_data l ++ l_data f.
Proof.
  intros l f l' H. unfold l_append in H.
  destruct (l_direct_set l && match l_data f with [] => false | _ => true end); [discriminate |].
  destruct (MAX_POOL <? lenN _) in H; [discriminate |].
  match type of H with (?a, (if ?c then _ else _)) = _ => destruct c end; [discriminate |].
  injection H as <-. reflexivity.
Qed.
Print Assumptions C09_append_data.
