(* C17 -- INPUT cuts a reply at the commas outside double quotes.  Statements only; proofs in Proofs/Input.v. *)
From BL Require Import Base.Prelude Mach.Val Mach.Compile Mach.Runtime Proofs.Input.
Local Open Scope N_scope.

Theorem C17_split_single : forall s, ~ In 44 s -> ~ In 34 s -> split_fields s [] false = [s].
Proof. exact old_C17_split_single. Qed.
Print Assumptions C17_split_single.

(* nothing is lost or invented: the fields joined by commas are the reply, for every reply *)
Theorem C17_split_join : forall s, join_commas (split_fields s [] false) = s.
Proof. exact split_join. Qed.
Print Assumptions C17_split_join.

(* n fields with closed quotes and no comma outside quotes, joined by commas, split into exactly those n fields *)
Theorem C17_split_exact : forall fs, fs <> [] -> Forall (fun f => scan f false = Some false) fs ->
  split_fields (join_commas fs) [] false = fs.
Proof. exact split_exact. Qed.
Print Assumptions C17_split_exact.

Theorem C17_split_nonempty : forall s cur q, split_fields s cur q <> [].
Proof. exact split_nonempty. Qed.
Print Assumptions C17_split_nonempty.
