(* C17 -- INPUT parses replies as documented and retries per reply.
   Proved (Proofs/Input.v): the reply is cut at the commas outside double quotes -- nothing lost, nothing invented, exact on
   well-quoted fields.  Proved (Proofs/InputProto.v), for every machine state: the prompt event is the program's prompt
   followed by "? " with capitals off exactly for the Integer-0 flag; a reply with the wrong number of fields or over the
   length limit is refused as a whole, changing nothing but the state; the refusal is reported as REDO FROM START and the
   machine prompts again; an accepted reply puts a return address under its fields, first field on top, without touching a
   variable; one field becomes a string (trimmed, one pair of quotes removed) or a number (0 when empty); an error while
   the fields are stored cuts the stack back below that return address, goes back to the INPUT statement and refuses the
   reply.
   NOT proved: number syntax of a field (val_from_str: decimal, exponent, & and &H forms) against the manual; that the
   compiled INPUT statement drives these steps in the documented order (differential). *)
From BL Require Import Base.Prelude Mach.Val Mach.Func Mach.Compile Mach.Listing Mach.Runtime Proofs.Input Proofs.InputProto.
Local Open Scope N_scope.

Theorem C17_split_single : forall s, ~ In 44 s -> ~ In 34 s -> split_fields s [] false = [s].
Proof. exact old_C17_split_single. Qed.
Print Assumptions C17_split_single.

(* nothing is lost or invented: the fields joined by commas are the reply, for every reply *)
Theorem C17_split_join : forall s, join_commas (split_fields s [] false) = s.
Proof. exact split_join. Qed.
Print Assumptions C17_split_join.

(* n fields with closed quotes and no comma outside quotes, joined by commas, split into exactly those n fields *)
Theorem C17_split_exact : forall fs, fs <> [] -> Forall (fun f => scan f false = Some false) fs ->
  split_fields (join_commas fs) [] false = fs.
Proof. exact split_exact. Qed.
Print Assumptions C17_split_exact.

Theorem C17_split_nonempty : forall s cur q, split_fields s cur q <> [].
Proof. exact split_nonempty. Qed.
Print Assumptions C17_split_nonempty.

(* ---- the protocol (Proofs/InputProto.v) ---- *)
Theorem C17_prompt_event : forall O r len caps p rest k, r_state r = StInput -> r_stack r = len :: caps :: VStr p :: rest ->
  r_slen r <= MAX_POOL ->
  exists r', rt_execute O r k = Ok (r', EvInput (p ++ [63; 32]) (negb (match caps with VInt n => (n =? 0)%Z | _ => false end)))
             /\ r_stack r' = len :: caps :: VStr p :: rest /\ r_col r' = 0 /\ r_vars r' = r_vars r /\ r_pc r' = r_pc r.
Proof. exact prompt_event. Qed.
Print Assumptions C17_prompt_event.

Theorem C17_wrong_field_count : forall O r s n rest, r_stack r = VInt n :: rest -> (1 < n)%Z -> utf8_len s <= MAX_LINE_LEN ->
  Z.of_N (lenN (split_fields s [] false)) <> n -> enter_input O r s = set_state r StInputRedo.
Proof. exact wrong_field_count. Qed.
Print Assumptions C17_wrong_field_count.

Theorem C17_long_reply_refused : forall O r s, MAX_LINE_LEN < utf8_len s -> enter_input O r s = set_state r StInputRedo.
Proof. exact long_reply_refused. Qed.
Print Assumptions C17_long_reply_refused.

Theorem C17_redo_reported : forall O r k, r_state r = StInputRedo ->
  rt_execute O r k = Ok (set_state r StInput, EvErrors [mkErr E_Redo None (0, 0)]).
Proof. exact redo_reported. Qed.
Print Assumptions C17_redo_reported.

Theorem C17_reply_accepted : forall O r s n rest, r_stack r = VInt n :: rest -> utf8_len s <= MAX_LINE_LEN ->
  let fields := if (n <=? 1)%Z then [s] else split_fields s [] false in
  ((n <=? 1)%Z = true \/ Z.of_N (lenN fields) = n) -> r_slen r + 1 + lenN fields <= MAX_POOL ->
  let r' := enter_input O r s in
  r_stack r' = map VStr fields ++ VRet (r_pc r) :: VInt n :: rest /\ r_state r' = StInputRunning
  /\ r_vars r' = r_vars r /\ r_pc r' = r_pc r /\ r_prog r' = r_prog r.
Proof. exact reply_accepted. Qed.
Print Assumptions C17_reply_accepted.

Theorem C17_field_conversion : forall r name field rest c0 nm, r_state r = StInputRunning -> name = c0 :: nm ->
  r_stack r = VStr field :: rest -> r_slen r <= MAX_POOL ->
  do_input name r =
  (set_stack_len r ((if ends_with_chr name 36 then VStr (strip_quotes (trim field))
                     else match trim field with [] => VInt 0 | f => val_from_str f end) :: rest) (r_slen r - 1 + 1), Ok None).
Proof. exact field_conversion. Qed.
Print Assumptions C17_field_conversion.

Theorem C17_store_error_retries : forall O r k r2 e above a below,
  r_state r = StInputRunning -> ls_dir_errors (r_listing r) = [] ->
  exec_loop O (N.to_nat k) (match ls_ind_errors (r_listing r) with [] => false | _ => true end) r = (r2, Err e) ->
  r_state r2 = StInputRunning -> r_stack r2 = above ++ VRet a :: below ->
  (forall v, In v above -> match v with VRet _ => False | _ => True end) ->
  rt_execute O r k = Ok (set_state (set_pc (set_stack r2 below) a) StInputRedo, EvRunning).
Proof. exact store_error_retries. Qed.
Print Assumptions C17_store_error_retries.

(* ---- number syntax of a field: the & forms read back what HEX$ / OCT$ print (Proofs/Strings2.v) ---- *)
From BL Require Import Proofs.Strings2.

Theorem C17_field_reads_hex : forall n, (0 <= n <= 32767)%Z ->
  exists s, fn_hex (VInt n) = Ok (VStr s) /\ val_from_str (38 :: 72 :: s) = VInt n.
Proof. exact val_reads_hex. Qed.
Print Assumptions C17_field_reads_hex.

Theorem C17_field_reads_oct : forall n, (0 <= n <= 32767)%Z ->
  exists s, fn_oct (VInt n) = Ok (VStr s) /\ val_from_str (38 :: s) = VInt n.
Proof. exact val_reads_oct. Qed.
Print Assumptions C17_field_reads_oct.

Example C17_field_hex_example : val_from_str (38 :: 72 :: 55 :: 70 :: nil) = VInt 127 /\ val_from_str (38 :: 49 :: 55 :: nil) = VInt 15.
Proof. split; vm_compute; reflexivity. Qed.
