(* C17 -- INPUT (statements grow with Proofs/Input.v). *)
From BL Require Import Base.Prelude Mach.Val Mach.Compile Mach.Runtime.
Local Open Scope N_scope.

(* a reply without commas and quotes is one field *)
Theorem C17_split_single : forall s, ~ In 44 s -> ~ In 34 s -> split_fields s [] false = [s].
Proof.
  intros s Hc Hq.
  assert (G : forall cur, split_fields s cur false = [rev cur ++ s]).
  { induction s as [| c r IH]; intros cur; cbn.
    - rewrite app_nil_r. reflexivity.
    - destruct (N.eqb_spec c 34) as [-> | H1]; [exfalso; apply Hq; left; reflexivity |].
      destruct (N.eqb_spec c 44) as [-> | H2]; [exfalso; apply Hc; left; reflexivity |].
      cbn. rewrite IH.
      + cbn. rewrite <- app_assoc. reflexivity.
      + intros Hin; apply Hc; right; exact Hin.
      + intros Hin; apply Hq; right; exact Hin. }
  exact (G []).
Qed.
Print Assumptions C17_split_single.
