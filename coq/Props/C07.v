(* C07 -- string operations count characters (statements grow with Proofs/Strings.v). *)
From BL Require Import Base.Prelude Mach.Val Mach.Func.

Theorem C07_len_counts_characters : forall s, (lenN s <= 32767)%N -> fn_len (VStr s) = Ok (VInt (Z.of_N (lenN s))).
Proof.
  intros s H. unfold fn_len, to_str, bind, val_of_len.
  destruct (N.leb_spec (lenN s) 32767) as [_ | Hgt]; [reflexivity | lia].
Qed.
Print Assumptions C07_len_counts_characters.
