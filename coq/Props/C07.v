(* C07 -- string operations work on characters.
   Statements only; proofs in Proofs/Strings.v.  A string value is a list of Unicode scalar values, so no model
   function can split a character; what is proved is that each function returns exactly the documented piece,
   counted in characters.  That the crate's byte-offset slicing agrees is the correspondence check's job. *)
From BL Require Import Base.Prelude Base.Floats Mach.Val Mach.Func Mach.Compile Mach.Runtime Proofs.Strings.
Local Open Scope N_scope.

Theorem C07_len_counts_characters : forall s, lenN s <= 32767 -> fn_len (VStr s) = Ok (VInt (Z.of_N (lenN s))).
Proof. exact len_spec. Qed.
Print Assumptions C07_len_counts_characters.

Theorem C07_left : forall s n, (0 <= n)%Z -> to_usize (VInt n) = Ok n ->
  exists l, fn_left (VStr s) (VInt n) = Ok (VStr l) /\ lenN l = N.min (Z.to_N n) (lenN s) /\ exists t, s = l ++ t.
Proof. exact left_spec. Qed.
Print Assumptions C07_left.

Theorem C07_right : forall s n, (0 <= n)%Z -> to_usize (VInt n) = Ok n ->
  exists r, fn_right (VStr s) (VInt n) = Ok (VStr r) /\ lenN r = N.min (Z.to_N n) (lenN s) /\ exists t, s = t ++ r.
Proof. exact right_spec. Qed.
Print Assumptions C07_right.

Theorem C07_mid : forall s p l, (1 <= p)%Z -> to_usize (VInt p) = Ok p -> to_u16 (VInt l) = Ok l -> (0 <= l)%Z ->
  exists m, fn_mid [VStr s; VInt p; VInt l] = Ok (VStr m)
    /\ lenN m = N.min (Z.to_N l) (lenN s - (Z.to_N p - 1))
    /\ exists a b, s = a ++ m ++ b /\ lenN a = N.min (Z.to_N p - 1) (lenN s).
Proof. exact mid_spec. Qed.
Print Assumptions C07_mid.

(* INSTR: one plus the least character index at which the pattern occurs; 0 if nowhere *)
Theorem C07_find_least : forall p s i, find_sub p s = Some i <->
  (starts_with p (skipnN i s) = true /\ i <= lenN s /\ forall j, j < i -> starts_with p (skipnN j s) = false).
Proof. exact find_sub_spec. Qed.
Print Assumptions C07_find_least.

Theorem C07_instr : forall s p, s <> [] ->
  fn_instr [VStr s; VStr p] = match find_sub p s with Some i => val_of_len (i + 1) | None => Ok (VInt 0) end.
Proof. exact instr_spec. Qed.
Print Assumptions C07_instr.

(* MID$ assignment never changes the length of the target and leaves everything before the position alone *)
Theorem C07_letmid_length : forall orig ins index pos len, length (letmid_loop orig ins index pos len) = length orig.
Proof. exact letmid_length. Qed.
Print Assumptions C07_letmid_length.

Theorem C07_letmid_prefix : forall orig ins index pos len, index + lenN orig < pos -> letmid_loop orig ins index pos len = orig.
Proof. exact letmid_prefix. Qed.
Print Assumptions C07_letmid_prefix.

Theorem C07_asc_chr : forall n, (0 <= n <= 32767)%Z -> is_scalar_value n = true -> to_u32 (VInt n) = Ok n ->
  exists s, fn_chr (VInt n) = Ok (VStr s) /\ lenN s = 1 /\ fn_asc (VStr s) = Ok (VInt n).
Proof. exact asc_chr. Qed.
Print Assumptions C07_asc_chr.

(* non-vacuity on non-ASCII text: a, e-acute, CJK, emoji, b *)
Example C07_witness :
  let s := [97; 233; 26085; 128512; 98] in
  fn_mid [VStr s; VInt 2; VInt 3] = Ok (VStr [233; 26085; 128512])
  /\ fn_instr [VStr s; VStr [26085]] = Ok (VInt 3) /\ fn_len (VStr s) = Ok (VInt 5).
Proof. vm_compute. repeat split; reflexivity. Qed.

(* ---- the limit, concatenation, comparison, STRING$, HEX$ / OCT$ (Proofs/Strings2.v) ---- *)
From BL Require Import Mach.Ops Mach.Var Proofs.Strings2.

(* the 255-character limit sits where a string is stored *)
Theorem C07_string_store_limit : forall s, convert_to TStr (VStr s) = if 255 <? lenN s then err E_StringTooLong else Ok (VStr s).
Proof. exact string_store_limit. Qed.
Print Assumptions C07_string_store_limit.

Theorem C07_concat_is_append : forall a b, op_sum (VStr a) (VStr b) = Ok (VStr (a ++ b)).
Proof. exact concat_is_append. Qed.
Print Assumptions C07_concat_is_append.

(* comparison is lexicographic on character codes; a proper prefix is smaller; equality is equality of the sequences *)
Theorem C07_less_is_lexicographic : forall a b, str_ltb a b = true <-> lex_lt a b.
Proof. exact str_ltb_lex. Qed.
Print Assumptions C07_less_is_lexicographic.

Theorem C07_string_less : forall a b, op_less (VStr a) (VStr b) = Ok (if str_ltb a b then VInt (-1) else VInt 0).
Proof. exact string_less. Qed.
Print Assumptions C07_string_less.

Theorem C07_string_equal : forall a b, op_equal (VStr a) (VStr b) = Ok (if str_eqb a b then VInt (-1) else VInt 0).
Proof. exact string_equal. Qed.
Print Assumptions C07_string_equal.

Theorem C07_equal_is_equality : forall a b, str_eqb a b = true <-> a = b.
Proof. exact str_eqb_eq. Qed.
Print Assumptions C07_equal_is_equality.

Theorem C07_string_fn : forall n c rest, (0 <= n <= 255)%Z -> fn_string (VInt n) (VStr (c :: rest)) = Ok (VStr (repeatN c (Z.to_N n))).
Proof. exact string_fn. Qed.
Print Assumptions C07_string_fn.

Theorem C07_string_fn_too_long : forall n cv, (255 < n <= 32767)%Z -> fn_string (VInt n) cv = err E_Overflow.
Proof. exact string_fn_too_long. Qed.
Print Assumptions C07_string_fn_too_long.

(* HEX$ and OCT$ produce digits that the interpreter's own radix reader (the one behind &H.. and &.. literals and VAL) turns
   back into the 16-bit pattern of the argument *)
Theorem C07_hex_reads_back : forall n, (-32768 <= n <= 32767)%Z ->
  exists s, fn_hex (VInt n) = Ok (VStr s) /\ radix_digits 16 s 0 = Some (u16_of_i16 n).
Proof. exact hex_reads_back. Qed.
Print Assumptions C07_hex_reads_back.

Theorem C07_oct_reads_back : forall n, (-32768 <= n <= 32767)%Z ->
  exists s, fn_oct (VInt n) = Ok (VStr s) /\ radix_digits 8 s 0 = Some (u16_of_i16 n).
Proof. exact oct_reads_back. Qed.
Print Assumptions C07_oct_reads_back.
