(* Canonical text of tokens, ASTs and errors (mirrors harness/src/canon.rs). *)
From BL Require Import Base.Prelude Base.Floats Lang.Token Lang.Ast Drv.Show.
From Coq Require Import String.
Local Open Scope N_scope.

Definition show_ident (i : ident) : str :=
  (match i with IPlain _ => s2l "P" | IString _ => s2l "T" | ISingle _ => s2l "S"
           | IDouble _ => s2l "D" | IInteger _ => s2l "I" end) ++ hex_of_str (ident_str i).

Definition show_token (t : token) : str :=
  match t with
  | TUnknown s => s2l "U:" ++ hex_of_str s
  | TWs n => s2l "W:" ++ dec_of_N n
  | TLit (LSng s) => s2l "LS:" ++ hex_of_str s
  | TLit (LDbl s) => s2l "LD:" ++ hex_of_str s
  | TLit (LInt s) => s2l "LI:" ++ hex_of_str s
  | TLit (LHex s) => s2l "LH:" ++ hex_of_str s
  | TLit (LOct s) => s2l "LO:" ++ hex_of_str s
  | TLit (LStr s) => s2l "LT:" ++ hex_of_str s
  | TWord w => s2l "K:" ++ hex_of_str (word_str w)
  | TOp o => s2l "O:" ++ hex_of_str (op_str o)
  | TIdent i => s2l "I" ++ show_ident i
  | TLParen => s2l "LP" | TRParen => s2l "RP" | TComma => s2l "CM"
  | TColon => s2l "CL" | TSemicolon => s2l "SC"
  end.

Definition show_lnum (n : option N) : str :=
  match n with Some k => dec_of_N k | None => s2l "-" end.

Definition show_tokens (ts : list token) : str := join [32] (map show_token ts).

Definition sp := [32].
Definition show_col (wc : bool) (c : col) : str :=
  if wc then sp ++ dec_of_N (fst c) ++ sp ++ dec_of_N (snd c) else [].

Definition binop_name (b : binop) : string :=
  match b with
  | BPow => "pow" | BMul => "mul" | BDiv => "div" | BDivInt => "divint" | BMod => "mod"
  | BAdd => "add" | BSub => "sub" | BEq => "eq" | BNe => "ne" | BLt => "lt" | BLe => "le"
  | BGt => "gt" | BGe => "ge" | BAnd => "and" | BOr => "or" | BXor => "xor" | BImp => "imp"
  | BEqv => "eqv"
  end%string.

Definition par (s : str) : str := 40 :: s ++ [41].
Definition brk (l : list str) : str := 91 :: join sp l ++ [93].

Fixpoint show_expr (wc : bool) (e : expr) : str :=
  match e with
  | EUnary c i => par (s2l "u" ++ show_col wc c ++ sp ++ show_ident i)
  | EArray c i args => par (s2l "a" ++ show_col wc c ++ sp ++ show_ident i ++ sp ++ brk (map (show_expr wc) args))
  | ESng c b => par (s2l "s" ++ show_col wc c ++ sp ++ hex_fixed 8 (Z.to_N b) [])
  | EDbl c b => par (s2l "d" ++ show_col wc c ++ sp ++ hex_fixed 16 (Z.to_N b) [])
  | EInt c n => par (s2l "i" ++ show_col wc c ++ sp ++ dec_of_Z n)
  | EStr c s => par (s2l "t" ++ show_col wc c ++ sp ++ hex_of_str s)
  | ENeg c x => par (s2l "neg" ++ show_col wc c ++ sp ++ show_expr wc x)
  | ENot c x => par (s2l "not" ++ show_col wc c ++ sp ++ show_expr wc x)
  | EBin c o l r => par (s2l (binop_name o) ++ show_col wc c ++ sp ++ show_expr wc l ++ sp ++ show_expr wc r)
  end.

Definition show_var (wc : bool) (v : var) : str := show_expr wc (expr_of_var v).

Definition node (wc : bool) (name : string) (c : col) (parts : list str) : str :=
  par (s2l name ++ show_col wc c ++ flat_map (fun p => sp ++ p) parts).

Fixpoint show_stmt (wc : bool) (s : stmt) : str :=
  let se := show_expr wc in
  let sv := show_var wc in
  let ses l := brk (map se l) in
  let svs l := brk (map sv l) in
  match s with
  | SClear c => node wc "Clear" c [] | SCls c => node wc "Cls" c [] | SCont c => node wc "Cont" c []
  | SData c l => node wc "Data" c [ses l]
  | SDef c f ps b => node wc "Def" c [sv f; svs ps; se b]
  | SDefdbl c a b => node wc "Defdbl" c [sv a; sv b]
  | SDefint c a b => node wc "Defint" c [sv a; sv b]
  | SDefsng c a b => node wc "Defsng" c [sv a; sv b]
  | SDefstr c a b => node wc "Defstr" c [sv a; sv b]
  | SDelete c a b => node wc "Delete" c [se a; se b]
  | SDim c l => node wc "Dim" c [svs l]
  | SEnd c => node wc "End" c []
  | SErase c l => node wc "Erase" c [svs l]
  | SFor c v a b st => node wc "For" c [sv v; se a; se b; se st]
  | SGosub c e => node wc "Gosub" c [se e]
  | SGoto c e => node wc "Goto" c [se e]
  | SIf c p th el => node wc "If" c [se p; brk (map (show_stmt wc) th); brk (map (show_stmt wc) el)]
  | SInput c a b l => node wc "Input" c [se a; se b; svs l]
  | SLet c v e => node wc "Let" c [sv v; se e]
  | SList c a b => node wc "List" c [se a; se b]
  | SLoad c e => node wc "Load" c [se e]
  | SMid c v p l e => node wc "Mid" c [sv v; se p; se l; se e]
  | SNew c => node wc "New" c []
  | SNext c l => node wc "Next" c [svs l]
  | SOnGoto c e l => node wc "OnGoto" c [se e; ses l]
  | SOnGosub c e l => node wc "OnGosub" c [se e; ses l]
  | SPrint c l => node wc "Print" c [ses l]
  | SRead c l => node wc "Read" c [svs l]
  | SRenum c a b st => node wc "Renum" c [se a; se b; se st]
  | SRestore c e => node wc "Restore" c [se e]
  | SReturn c => node wc "Return" c []
  | SRun c e => node wc "Run" c [se e]
  | SSave c e => node wc "Save" c [se e]
  | SStop c => node wc "Stop" c []
  | SSwap c a b => node wc "Swap" c [sv a; sv b]
  | STroff c => node wc "Troff" c [] | STron c => node wc "Tron" c [] | SWend c => node wc "Wend" c []
  | SWhile c e => node wc "While" c [se e]
  end.

Definition show_error (wc : bool) (e : error) : str :=
  s2l "err " ++ dec_of_N (ecode e) ++ sp ++ show_lnum (eline e) ++
  (if wc then sp ++ dec_of_N (fst (ecol e)) ++ sp ++ dec_of_N (snd (ecol e)) else []).

Definition show_ast_res (wc : bool) (r : res (list stmt)) : str :=
  match r with
  | Ok l => s2l "ok " ++ brk (map (show_stmt wc) l)
  | Err e => show_error wc e
  | Panic => s2l "PANIC"
  | Hang => s2l "HANG"
  end.
