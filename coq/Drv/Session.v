(* Session interpreter for the L5 correspondence and the compile dump (L4). *)
From BL Require Import Base.Prelude Base.Floats Mach.Val Mach.Ops Mach.Func Mach.Var
     Lang.Token Lang.Lex Lang.Ast Lang.Parse Mach.Compile Mach.Listing Mach.Runtime
     Spec.Sem Drv.Show Drv.ShowLang.
From Coq Require Import String.
Local Open Scope N_scope.

Definition show_err_full (e : error) : str :=
  let c := error_column e in
  dec_of_N (ecode e) ++ sp ++ show_lnum (eline e) ++ sp ++ dec_of_N (fst c) ++ sp ++ dec_of_N (snd c).

Definition show_errs (l : list error) : str := 91 :: join [59] (map show_err_full l) ++ [93].

Definition show_event (e : event) : str :=
  match e with
  | EvErrors l => s2l "E:" ++ show_errs l
  | EvInput p caps => s2l "I:" ++ hex_of_str p ++ [58] ++ (if caps then [49] else [48])
  | EvPrint s => s2l "P:" ++ hex_of_str s
  | EvList s cols => s2l "L:" ++ hex_of_str s ++ [58] ++
                     91 :: join [44] (map (fun c => dec_of_N (fst c) ++ [45] ++ dec_of_N (snd c)) cols) ++ [93]
  | EvRunning => s2l "r"
  | EvStopped => s2l "S"
  | EvLoad s => s2l "LD:" ++ hex_of_str s
  | EvRun s => s2l "RN:" ++ hex_of_str s
  | EvSave s => s2l "SV:" ++ hex_of_str s
  | EvCls => s2l "C"
  | EvInkey => s2l "K"
  end.

Definition is_blocking (e : event) : bool :=
  match e with
  | EvStopped | EvInput _ _ | EvInkey | EvLoad _ | EvRun _ | EvSave _ => true
  | _ => false
  end.

(* Listing::load_str on a listing under construction *)
Definition load_str (ls : list (N * list token)) (s : str) : res (list (N * list token)) :=
  if 1024 <? utf8_len s then err E_LineBufferOverflow
  else
    do l <- line_new s;
    match snd l, fst l with
    | [], Some n => Ok (lines_remove ls n)
    | [], None => Ok ls
    | _, None => err E_DirectInFile
    | toks, Some n => Ok (lines_insert ls n toks)
    end.

Definition strip_cr (s : str) : str :=
  match rev s with 13 :: r => rev r | _ => s end.

(* BufRead::lines : split on \n, no final empty line *)
Definition file_lines (text : str) : list str :=
  let parts := split_on 10 text [] in
  map strip_cr (match rev parts with [] :: r => rev r | _ => parts end).

Definition load_file (text : str) : res (list (N * list token)) :=
  fold_left (fun acc l => do ls <- acc; load_str ls l) (file_lines text) (Ok []).

Definition listing_text (ls : list (N * list token)) : str :=
  flat_map (fun e => line_to_string (Some (fst e), snd e) ++ [10]) ls.

Section WithOracle.
Variable O : oracle.

(* call execute(q) until a blocking event; events other than Running are recorded;
   also returns the code of the last Errors event seen *)
Fixpoint run_until_ev (efuel : nat) (fuel : nat) (q : N) (r : rt) (acc : list str) (last : option N)
  : res (rt * list str * option N) :=
  (* fuel bounds the calls that used up their whole quantum (Running); efuel bounds all calls *)
  match efuel with
  | 0%nat => Ok (r, s2l "TIMEOUT" :: acc, last)
  | S ef =>
      do x <- rt_execute O r q;
      let '(r', e) := x in
      let last' := match e with EvErrors (e1 :: _) => Some (ecode e1) | _ => last end in
      match e with
      | EvRunning => match fuel with
                     | 0%nat => Ok (r', s2l "TIMEOUT" :: acc, last')
                     | S f => run_until_ev ef f q r' acc last'
                     end
      | _ => if is_blocking e then Ok (r', show_event e :: acc, last')
             else run_until_ev ef fuel q r' (show_event e :: acc) last'
      end
  end.
Definition run_until' (fuel : nat) (q : N) (r : rt) (acc : list str) (last : option N) :=
  run_until_ev 20000 fuel q r acc last.
Definition run_until (fuel : nat) (q : N) (r : rt) (acc : list str) : res (rt * list str) :=
  do x <- run_until' fuel q r acc None; Ok (fst x).

Definition call_cap (q : N) : nat := if q <=? 64 then 3000%nat else 100%nat.

Definition arg_of (call : str) : str := match call with _ :: _ :: r => r | _ => [] end.
Definition num_of (call : str) : N := match call with _ :: r => match parse_udec r with Some n => n | None => 0 end | [] => 0 end.

Definition do_call (r : rt) (last : option N) (call : str) : res (rt * list str * option N) :=
  let keep (x : res (rt * list str)) : res (rt * list str * option N) := do y <- x; Ok (y, last) in
  let c0 := match call with c :: _ => c | [] => 0 end in
  let rest := match call with _ :: t => t | [] => [] end in
  let after_colon := match rest with _ :: t => t | [] => [] end in
  if c0 =? 75 then                             (* K<q> : CONT, but only when the last run was stopped by ?BREAK *)
    match last with
    | Some 0 => do x <- rt_enter O r (s2l "CONT");
                (let q := match parse_udec rest with Some q => q | None => 5000 end in run_until' (call_cap q) q (fst x) [] None)
    | _ => Ok (r, [], last)
    end
  else if c0 =? 82 then run_until' (call_cap (num_of call)) (num_of call) r [] None          (* R<n> : until blocking *)
  else if c0 =? 69 then keep (do x <- rt_enter O r (str_of_hex after_colon); Ok (fst x, []))   (* E:<hex> *)
  else if c0 =? 88 then keep (do x <- rt_execute O r (num_of call); Ok (fst x, [show_event (snd x)]))  (* X<n> *)
  else if c0 =? 65 then                        (* A<q>:<hex> : answer a pending INPUT, then run *)
    match r_state r with
    | StInput | StInkey =>
        match split_on 58 rest [] with
        | [q; h] =>
            do x <- rt_enter O r (str_of_hex h);
            (let qq := match parse_udec q with Some n => n | None => 5000 end in run_until' (call_cap qq) qq (fst x) [] last)
        | _ => Ok (r, [s2l "?"], last)
        end
    | _ => Ok (r, [], last)
    end
  else if c0 =? 73 then Ok (rt_interrupt r, [], last)                    (* I *)
  else if c0 =? 71 then Ok (rt_get_listing r true, [], last)             (* G : snapshot held *)
  else if c0 =? 103 then Ok (rt_get_listing r false, [], last)           (* g : snapshot dropped at once *)
  else if c0 =? 68 then Ok (rt_drop_listing r, [], last)                 (* D : drop a held snapshot *)
  else if c0 =? 84 then Ok (r, [s2l "T:" ++ hex_of_str (listing_text (ls_lines (r_listing r)))], last)   (* T *)
  else if c0 =? 76 then                        (* L:<hex>:<run> *)
    match split_on 58 after_colon [] with
    | [h; runflag] =>
        match load_file (str_of_hex h) with
        | Ok ls => do r' <- rt_set_listing O r ls (str_eqb runflag [49]); Ok (r', [], last)
        | Err e => Ok (r, [s2l "LE:" ++ dec_of_N (ecode e)], last)
        | Panic => Panic
        | Hang => Hang
        end
    | _ => Ok (r, [s2l "?"], last)
    end
  else Ok (r, [s2l "?"], last).

(* state of the interpretation of a call list: None after the model itself failed *)
Definition call_step (st : option (rt * option N) * list str) (c : str) : option (rt * option N) * list str :=
  match st with
  | (None, acc) => (None, acc)
  | (Some (r, last), acc) =>
      match do_call r last c with
      | Ok (r', evs, last') => (Some (r', last'), evs ++ acc)
      | Err e => (None, s2l "MODEL-ERR" :: acc)
      | Panic => (None, s2l "PANIC" :: acc)
      | Hang => (None, s2l "HANG" :: acc)
      end
  end.

Definition run_session (calls : list str) : str :=
  join [124] (rev (snd (fold_left call_step calls (Some (rt_default, None), [])))).

End WithOracle.

(* ---------- L4 : compile dump ---------- *)
Definition show_op (op : opcode) : str :=
  match op with
  | OpLiteral v => s2l "LIT " ++ show_val v
  | OpPush s => s2l "PUSH " ++ hex_of_str s
  | OpPop s => s2l "POP " ++ hex_of_str s
  | OpPushArr s => s2l "PUSHARR " ++ hex_of_str s
  | OpPopArr s => s2l "POPARR " ++ hex_of_str s
  | OpDimArr s => s2l "DIMARR " ++ hex_of_str s
  | OpEraseArr s => s2l "ERASEARR " ++ hex_of_str s
  | OpIfNot a => s2l "IFNOT " ++ dec_of_N a
  | OpJump a => s2l "JUMP " ++ dec_of_N a
  | OpNext s => s2l "NEXT " ++ hex_of_str s
  | OpOn => s2l "ON" | OpReturn => s2l "RETURN" | OpClear => s2l "CLEAR" | OpCls => s2l "CLS"
  | OpCont => s2l "CONT"
  | OpDef s => s2l "DEF " ++ hex_of_str s
  | OpDefdbl => s2l "DEFDBL" | OpDefint => s2l "DEFINT" | OpDefsng => s2l "DEFSNG" | OpDefstr => s2l "DEFSTR"
  | OpDelete => s2l "DELETE" | OpEnd => s2l "END"
  | OpFn s => s2l "FN " ++ hex_of_str s
  | OpInput s => s2l "INPUT " ++ hex_of_str s
  | OpLetMid => s2l "LETMID" | OpList => s2l "LIST" | OpLoad => s2l "LOAD" | OpLoadRun => s2l "LOADRUN"
  | OpNew => s2l "NEW" | OpPrint => s2l "PRINT" | OpRead => s2l "READ" | OpRenum => s2l "RENUM"
  | OpRestore a => s2l "RESTORE " ++ dec_of_N a
  | OpSave => s2l "SAVE" | OpStop => s2l "STOP" | OpSwap => s2l "SWAP" | OpTroff => s2l "TROFF"
  | OpTron => s2l "TRON" | OpNeg => s2l "NEG" | OpNot => s2l "NOT"
  | OpBin b => s2l "BIN " ++ s2l (binop_name b)
  | OpBuiltin n => s2l "FUN " ++ hex_of_str n
  end.

(* lines: (number, source text) already sorted and distinct; optional direct line *)
Definition compile_dump (srcs : list str) (direct : option str) : str :=
  let step (acc : res program) (src : str) :=
    do p <- acc;
    do l <- line_new src;
    Ok (codegen_line p (fst l) (parse (fst l) (snd l))) in
  match fold_left step srcs (Ok program_empty) with
  | Ok p0 =>
      let p1 := match direct with
                | Some d => match line_new d with
                            | Ok l => codegen_line p0 None (parse None (snd l))
                            | _ => p0
                            end
                | None => p0
                end in
      let p := program_link p1 in
      let lk := pg_link p in
      let addrs := map N.of_nat (seq 0 (List.length (l_ops lk))) in
      s2l "ops=" ++ join [59] (map show_op (l_ops lk)) ++
      s2l " data=" ++ join [59] (map show_val (l_data lk)) ++
      s2l " lines=" ++ join [44] (map (fun a => show_lnum (line_number_for (l_syms lk) a)) addrs) ++
      s2l " direct=" ++ dec_of_N (pg_direct p) ++
      s2l " ierr=" ++ show_errs (pg_ind_errors p) ++
      s2l " derr=" ++ show_errs (pg_errors p)
  | _ => s2l "?"
  end.

(* ---------- the reference semantics as an oracle ---------- *)
Fixpoint merge_out (evs : list sevent) (cur : str) (acc : list str) : list str :=
  (* evs oldest first *)
  let flush := match cur with [] => acc | _ => (s2l "P:" ++ hex_of_str cur) :: acc end in
  match evs with
  | [] => rev flush
  | SePrint t :: r => merge_out r (cur ++ t) acc
  | SeInput p caps :: r => merge_out r [] ((s2l "I:" ++ hex_of_str p ++ [58] ++ (if caps then [49] else [48])) :: flush)
  | SeCls :: r => merge_out r [] (s2l "C" :: flush)
  end.

Definition show_halt (h : halt) : str :=
  match h with
  | HEnd => s2l "H:END"
  | HError c l => s2l "H:ERR " ++ dec_of_N c ++ sp ++ dec_of_N l
  | HNeedInput => s2l "H:NEEDINPUT"
  | HUndefined => s2l "H:UNDEF"
  | HFuel => s2l "H:FUEL"
  end.

(* srcs: program lines (sorted, distinct); flags: "1" = TRON before RUN; inputs: replies *)
Definition sem_case (O : oracle) (srcs : list str) (tron : bool) (inputs : list str) : str :=
  let parse_one (acc : option program_t) (src : str) : option program_t :=
    match acc with
    | None => None
    | Some p =>
        match line_new src with
        | Ok (Some n, toks) =>
            match parse (Some n) toks with
            | Ok l => Some (p ++ [(n, l)])
            | _ => None
            end
        | _ => None
        end
    end in
  match fold_left parse_one srcs (Some []) with
  | None => s2l "H:UNDEF"
  | Some prog =>
      let '(st, h) := sem_run O prog tron inputs 20000 in
      (* at the end the interpreter starts a new line if the cursor is not in column 0 *)
      let out := rev (s_out st) in
      let tail := match h with
                  | HEnd | HError _ _ => if 0 <? s_col st then [SePrint [10]] else []
                  | _ => []
                  end in
      join [124] (merge_out (out ++ tail) [] [] ++ [show_halt h])
  end.
