(* Case interpreter used by the extracted OCaml driver and by the in-kernel
   cross-check: one ASCII case line in, one canonical result line out. *)
From BL Require Import Base.Prelude Base.Floats Base.Decimal Mach.Val Mach.Ops Mach.Func Mach.Var Lang.Token Lang.Lex Lang.Ast Lang.Parse Mach.Compile Mach.Listing Mach.Runtime Spec.Sem Drv.Show Drv.ShowLang Drv.Session.
From Coq Require Import String.
Local Open Scope N_scope.

Definition dummy_oracle : oracle :=
  {| o_fn32 := fun _ x => x; o_fn64 := fun _ x => x;
     o_powi32 := fun x _ => x; o_powi64 := fun x _ => x;
     o_powf32 := fun x _ => x; o_powf64 := fun x _ => x;
     o_entropy := fun _ => 0; o_date := []; o_time := [] |}.

Definition is (name : str) (lit : string) : bool := str_eqb name (s2l lit).

Definition run_op2 (O : oracle) (name : str) (a b : val) : res val :=
  if is name "pow" then op_power O a b
  else if is name "mul" then op_multiply a b
  else if is name "div" then op_divide a b
  else if is name "divint" then op_divint a b
  else if is name "mod" then op_remainder a b
  else if is name "add" then op_sum a b
  else if is name "sub" then op_subtract a b
  else if is name "eq" then op_equal a b
  else if is name "ne" then op_not_equal a b
  else if is name "lt" then op_less a b
  else if is name "le" then op_less_equal a b
  else if is name "gt" then op_greater a b
  else if is name "ge" then op_greater_equal a b
  else if is name "and" then op_and a b
  else if is name "or" then op_or a b
  else if is name "xor" then op_xor a b
  else if is name "imp" then op_imp a b
  else if is name "eqv" then op_eqv a b
  else if is name "left" then fn_left a b
  else if is name "right" then fn_right a b
  else if is name "string" then fn_string a b
  else err 999.

Definition run_op1 (O : oracle) (name : str) (a : val) : res val :=
  if is name "neg" then op_negate a
  else if is name "not" then op_not a
  else if is name "cint" then fn_cint a
  else if is name "abs" then fn_abs a
  else if is name "asc" then fn_asc a
  else if is name "cdbl" then fn_cdbl a
  else if is name "chr" then fn_chr a
  else if is name "csng" then fn_csng a
  else if is name "fix" then fn_fix a
  else if is name "hex" then fn_hex a
  else if is name "int" then fn_int a
  else if is name "len" then fn_len a
  else if is name "oct" then fn_oct a
  else if is name "sgn" then fn_sgn a
  else if is name "spc" then fn_spc a
  else if is name "sqr" then fn_sqr a
  else if is name "str" then fn_str a
  else if is name "val" then fn_val a
  else if is name "fmt" then Ok (VStr (fmt_val a))
  else err 999.

Definition run_opn (O : oracle) (name : str) (args : list val) : res val :=
  if is name "instr" then fn_instr args
  else if is name "mid" then fn_mid args
  else err 999.

Definition line_text (num : option N) (ts : list token) : str :=
  match num with
  | Some n => dec_of_N n ++ [32] ++ tokens_str ts
  | None => tokens_str ts
  end.

Definition run_lex (src : str) : str :=
  match lex src with
  | Ok (num, ts) => show_lnum num ++ s2l "|" ++ show_tokens ts
  | Err _ => s2l "?" | Panic => s2l "PANIC" | Hang => s2l "HANG"
  end.
Definition run_relist (src : str) : str :=
  match lex src with
  | Ok (num, ts) => hex_of_str (line_text num ts)
  | Err _ => s2l "?" | Panic => s2l "PANIC" | Hang => s2l "HANG"
  end.
Definition run_ast (wc : bool) (src : str) : str :=
  match lex src with
  | Ok (num, ts) => show_ast_res wc (parse num ts)
  | Err _ => s2l "?" | Panic => s2l "PANIC" | Hang => s2l "HANG"
  end.

Definition run_case (O : oracle) (line : str) : str :=
  match fields line with
  | kind :: [] =>
      if is kind "lex" then run_lex [] else if is kind "relist" then run_relist []
      else if is kind "ast" then run_ast true [] else if is kind "astnc" then run_ast false []
      else s2l "?"
  | kind :: name :: [] =>
      if is kind "lex" then run_lex (str_of_hex name)
      else if is kind "relist" then run_relist (str_of_hex name)
      else if is kind "ast" then run_ast true (str_of_hex name)
      else if is kind "astnc" then run_ast false (str_of_hex name)
      else if is kind "session" then run_session O [name]
      else if is kind "compile" then compile_dump (map str_of_hex (split_on 44 name [])) None
      else
      if is kind "from" then show_val (val_from_str (str_of_hex name))
      else if is kind "pos" then show_res show_val (fn_pos (Z.to_N (parse_Z name)))
      else s2l "?"
  | kind :: name :: a :: [] =>
      if is kind "session" then run_session O [name; a] else
      if is kind "compile" then compile_dump (match name with [45] => [] | _ => map str_of_hex (split_on 44 name []) end) (Some (str_of_hex a)) else
      if is kind "op1" then show_res show_val (run_op1 O name (parse_val a))
      else if is kind "tab" then show_res show_val (fn_tab (Z.to_N (parse_Z name)) (parse_val a))
      else if is kind "opn" then show_res show_val (run_opn O name [parse_val a])
      else s2l "?"
  | kind :: name :: a :: b :: [] =>
      if is kind "session" then run_session O [name; a; b] else
      if is kind "sem" then sem_case O (map str_of_hex (split_on 44 name [])) (str_eqb a [49])
                                     (match b with [45] => [] | _ => map str_of_hex (split_on 44 b []) end) else
      if is kind "op2" then show_res show_val (run_op2 O name (parse_val a) (parse_val b))
      else if is kind "opn" then show_res show_val (run_opn O name [parse_val a; parse_val b])
      else s2l "?"
  | kind :: name :: rest =>
      if is kind "session" then run_session O (name :: rest) else
      if is kind "opn" then show_res show_val (run_opn O name (map parse_val rest)) else s2l "?"
  | _ => s2l "?"
  end.

Definition run_case_default := run_case dummy_oracle.
