(* Canonical text forms shared with the Rust harness (harness/src/main.rs).
   Everything is ASCII; strings are hex-encoded UTF-8. *)
From BL Require Import Base.Prelude Base.Floats Mach.Val.
From Coq Require Import String.
Local Open Scope N_scope.

Definition hexdig (n : N) : N := if n <? 10 then 48 + n else 87 + n.   (* lower case *)
Fixpoint hex_fixed (digits : nat) (n : N) (acc : str) : str :=
  match digits with
  | O => acc
  | S d => hex_fixed d (n / 16) (hexdig (n mod 16) :: acc)
  end.
Definition hex_byte (b : N) : str := hex_fixed 2 b [].
Definition hex_of_str (s : str) : str := flat_map hex_byte (utf8_enc s).

Definition unhexdig (c : N) : N :=
  if is_digit c then c - 48 else if (97 <=? c) && (c <=? 102) then c - 87
  else if (65 <=? c) && (c <=? 70) then c - 55 else 0.
Fixpoint unhex_bytes (s : str) : list N :=
  match s with
  | a :: b :: r => (unhexdig a * 16 + unhexdig b) :: unhex_bytes r
  | _ => []
  end.
Definition str_of_hex (s : str) : str := utf8_dec (unhex_bytes s).
Definition N_of_hex (s : str) : N := fold_left (fun a c => a * 16 + unhexdig c) s 0.

Definition show_val (v : val) : str :=
  match v with
  | VStr s => s2l "T:" ++ hex_of_str s
  | VSng b => if f32_is_nan b then s2l "S:NaN" else s2l "S:" ++ hex_fixed 8 (Z.to_N b) []
  | VDbl b => if f64_is_nan b then s2l "D:NaN" else s2l "D:" ++ hex_fixed 16 (Z.to_N b) []
  | VInt n => s2l "I:" ++ dec_of_Z n
  | VRet a => s2l "R:" ++ dec_of_N a
  | VNext a => s2l "X:" ++ dec_of_N a
  end.

Definition parse_Z (s : str) : Z :=
  match s with
  | c :: r => if c =? 45 then (- Z.of_N (match parse_udec r with Some n => n | None => 0 end))%Z
              else Z.of_N (match parse_udec s with Some n => n | None => 0 end)
  | [] => 0%Z
  end.

Definition parse_val (s : str) : val :=
  match s with
  | t :: _ :: r =>
      if t =? 84 then VStr (str_of_hex r)
      else if t =? 83 then VSng (Z.of_N (N_of_hex r))
      else if t =? 68 then VDbl (Z.of_N (N_of_hex r))
      else if t =? 73 then VInt (parse_Z r)
      else if t =? 82 then VRet (Z.to_N (parse_Z r))
      else VNext (Z.to_N (parse_Z r))
  | _ => VInt 0
  end.

Definition show_res {A} (f : A -> str) (r : res A) : str :=
  match r with
  | Ok a => s2l "ok " ++ f a
  | Err e => s2l "err " ++ dec_of_N (ecode e)
  | Panic => s2l "PANIC"
  | Hang => s2l "HANG"
  end.

(* split on a separator character *)
Fixpoint split_on (sep : N) (s : str) (cur : str) : list str :=
  match s with
  | [] => [rev cur]
  | c :: r => if c =? sep then rev cur :: split_on sep r [] else split_on sep r (c :: cur)
  end.
Definition fields (s : str) : list str := split_on 32 s [].
Definition join (sep : str) (l : list str) : str :=
  match l with
  | [] => []
  | x :: r => x ++ flat_map (fun y => sep ++ y) r
  end.
