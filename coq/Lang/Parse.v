(* src/lang/parse.rs : recursive descent with precedence climbing; columns are
   counted in characters of the listed text. *)
From BL Require Import Base.Prelude Base.Floats Base.Decimal Lang.Token Lang.Ast Mach.Func.
From Coq Require Import String.
Local Open Scope N_scope.

Record pst := mkP { p_toks : list token; p_peek : option token; p_rem : bool; p_cs : N; p_ce : N }.

Definition pcol (st : pst) : col := (p_cs st, p_ce st).

Definition is_rem_tok (t : token) : bool :=
  match t with TWord WRem1 | TWord WRem2 => true | _ => false end.

(* the body of BasicParser::next's loop *)
Fixpoint next_raw (toks : list token) (rem : bool) (ce : N) : option token * list token * bool * N * N :=
  match toks with
  | [] => (None, [], rem, ce, ce)
  | t :: r =>
      let rem' := rem || is_rem_tok t in
      if rem' then next_raw r rem' ce
      else
        let ce' := ce + lenN (token_str t) in
        match t with
        | TWs _ => next_raw r rem' ce'
        | _ => (Some t, r, rem', ce, ce')
        end
  end.

Definition p_next (st : pst) : option token * pst :=
  match p_peek st with
  | Some t => (Some t, mkP (p_toks st) None (p_rem st) (p_cs st) (p_ce st))
  | None =>
      let '(t, r, rem, cs, ce) := next_raw (p_toks st) (p_rem st) (p_ce st) in
      (t, mkP r None rem cs ce)
  end.

Definition p_peekt (st : pst) : option token * pst :=
  match p_peek st with
  | Some t => (Some t, st)
  | None =>
      let '(t, st') := p_next st in
      (t, mkP (p_toks st') t (p_rem st') (p_cs st') (p_ce st'))
  end.

Definition token_tag (t : token) : N :=
  match t with
  | TUnknown _ => 0 | TWs _ => 1
  | TLit (LSng _) => 2 | TLit (LDbl _) => 3 | TLit (LInt _) => 4 | TLit (LHex _) => 5
  | TLit (LOct _) => 6 | TLit (LStr _) => 7
  | TWord _ => 8 | TOp _ => 9
  | TIdent i => 10 + ident_tag i
  | TLParen => 20 | TRParen => 21 | TComma => 22 | TColon => 23 | TSemicolon => 24
  end.
Definition token_eqb (a b : token) : bool :=
  (token_tag a =? token_tag b) && str_eqb (token_str a) (token_str b)
  && match a, b with TWs n, TWs m => n =? m | _, _ => true end.

Definition P (A : Type) := pst -> res (A * pst).
Definition pret {A} (a : A) : P A := fun st => Ok (a, st).
Definition pbind {A B} (m : P A) (f : A -> P B) : P B :=
  fun st => match m st with
            | Ok (a, st') => f a st'
            | Err e => Err e
            | Panic => Panic
            | Hang => Hang
            end.
Notation "'pdo' x <~ m ;; k" := (pbind m (fun x => k)) (at level 200, x pattern, m at level 100, k at level 200, right associativity).
Definition pfail {A} (code : N) (c : col) : P A := fun _ => Err (mkErr code None c).
Definition pfail_here {A} (code : N) : P A := fun st => Err (mkErr code None (pcol st)).
Definition pnext : P (option token) := fun st => Ok (p_next st).
Definition ppeek : P (option token) := fun st => Ok (p_peekt st).
Definition pcolm : P col := fun st => Ok (pcol st, st).

Definition maybe (t : token) : P bool :=
  pdo pk <~ ppeek ;;
  match pk with
  | Some t' => if token_eqb t' t then (pdo _ <~ pnext ;; pret true) else pret false
  | None => pret false
  end.

Definition expect (t : token) : P unit :=
  pdo n <~ pnext ;;
  match n with
  | Some t' => if token_eqb t' t then pret tt else pfail_here E_Syntax
  | None => pfail_here E_Syntax
  end.

Definition at_end (pk : option token) : bool :=
  match pk with
  | None | Some TColon | Some (TWord WElse) => true
  | _ => false
  end.

Definition is_user_function (i : ident) : bool := starts_with (s2l "FN") (ident_str i).

(* ---------- literals ---------- *)
Definition numeric_text (s : str) : str :=
  strip_suffix_type (map (fun c => if c =? 68 then 69 else c) s).

Definition parse_literal (c : col) (l : literal) : res expr :=
  match l with
  | LHex s => match i16_from_str_radix s 16 with Some z => Ok (EInt c z) | None => err_col E_Overflow c end
  | LOct s => match i16_from_str_radix s 8 with Some z => Ok (EInt c z) | None => err_col E_Overflow c end
  | LSng s => match parse_f32 (numeric_text s) with Some b => Ok (ESng c b) | None => err_col E_TypeMismatch c end
  | LDbl s => match parse_f64 (numeric_text s) with Some b => Ok (EDbl c b) | None => err_col E_TypeMismatch c end
  | LInt s => match parse_i16 (numeric_text s) with Some z => Ok (EInt c z) | None => err_col E_TypeMismatch c end
  | LStr s => if 255 <? lenN s then err_col E_StringTooLong c else Ok (EStr c s)
  end.

Definition unary_prec (o : operator) : N :=
  match o with OPlus | OMinus => 12 | ONot => 6 | _ => 0 end.
Definition binary_prec (o : operator) : N :=
  match o with
  | OCaret => 13 | OMul | ODiv => 11 | ODivInt => 10 | OMod => 9 | OPlus | OMinus => 8
  | OEq | ONe | OLt | OLe | OGt | OGe => 7
  | OAnd => 5 | OOr => 4 | OXor => 3 | OImp => 2 | OEqv => 1
  | ONot => 0
  end.
Definition binop_of (o : operator) : option binop :=
  match o with
  | OCaret => Some BPow | OMul => Some BMul | ODiv => Some BDiv | ODivInt => Some BDivInt
  | OMod => Some BMod | OPlus => Some BAdd | OMinus => Some BSub | OEq => Some BEq | ONe => Some BNe
  | OLt => Some BLt | OLe => Some BLe | OGt => Some BGt | OGe => Some BGe | OAnd => Some BAnd
  | OOr => Some BOr | OXor => Some BXor | OImp => Some BImp | OEqv => Some BEqv | ONot => None
  end.

Definition varmap := list (ident * var).
Fixpoint vm_get (vm : varmap) (i : ident) : option var :=
  match vm with
  | [] => None
  | (k, v) :: r => if ident_eqb k i then Some v else vm_get r i
  end.

(* ---------- expressions ---------- *)
Fixpoint descend (fuel : nat) (vm : varmap) (prec : N) : P expr :=
  match fuel with
  | O => fun _ => Hang
  | S f =>
      pdo t <~ pnext ;;
      pdo lhs <~ (match t with
              | Some TLParen =>
                  pdo e <~ descend f vm 0 ;; pdo _ <~ expect TRParen ;; pret e
              | Some (TIdent id) =>
                  pdo c <~ pcolm ;;
                  pdo pk <~ ppeek ;;
                  match pk with
                  | Some TLParen =>
                      pdo _ <~ expect TLParen ;;
                      pdo closed <~ maybe TRParen ;;
                      pdo args <~ (if closed then pret [] else
                                 (pdo l <~ expr_list f vm ;; pdo _ <~ expect TRParen ;; pret l)) ;;
                      pdo c2 <~ pcolm ;;
                      pret (EArray (fst c, snd c2) id args)
                  | _ =>
                      if is_user_function id then pfail E_Syntax c
                      else match vm_get vm id with
                           | Some v => pret (expr_of_var v)
                           | None => pret (EUnary c id)
                           end
                  end
              | Some (TOp OPlus) => descend f vm 12
              | Some (TOp OMinus) => pdo c <~ pcolm ;; pdo e <~ descend f vm 12 ;; pret (ENeg c e)
              | Some (TOp ONot) => pdo c <~ pcolm ;; pdo e <~ descend f vm 6 ;; pret (ENot c e)
              | Some (TLit l) => pdo c <~ pcolm ;; (fun st => match parse_literal c l with
                                                         | Ok e => Ok (e, st) | Err e => Err e
                                                         | Panic => Panic | Hang => Hang end)
              | _ => pfail_here E_Syntax
              end) ;;
      climb f vm prec lhs
  end
with climb (fuel : nat) (vm : varmap) (prec : N) (lhs : expr) : P expr :=
  match fuel with
  | O => fun _ => Hang
  | S f =>
      pdo pk <~ ppeek ;;
      match pk with
      | Some (TOp o) =>
          let op_prec := binary_prec o in
          if op_prec <=? prec then pret lhs
          else
            pdo _ <~ pnext ;;
            pdo c <~ pcolm ;;
            pdo rhs <~ descend f vm op_prec ;;
            match binop_of o with
            | Some b => climb f vm prec (EBin c b lhs rhs)
            | None => pfail E_Internal (0, 0)
            end
      | _ => pret lhs
      end
  end
with expr_list (fuel : nat) (vm : varmap) : P (list expr) :=
  match fuel with
  | O => fun _ => Hang
  | S f =>
      pdo e <~ descend f vm 0 ;;
      pdo more <~ maybe TComma ;;
      if more then (pdo l <~ expr_list f vm ;; pret (e :: l)) else pret [e]
  end.

Definition expression (fuel : nat) : P expr := descend fuel [] 0.

(* ---------- shared pieces of statements ---------- *)
Definition expect_ident : P (col * ident) :=
  pdo t <~ pnext ;;
  match t with
  | Some (TIdent id) =>
      pdo c <~ pcolm ;;
      if is_user_function id then pfail E_Syntax c
      else pdo pk <~ ppeek ;;
           match pk with
           | Some TLParen => pfail E_Syntax c
           | _ => pret (c, id)
           end
  | _ => pfail_here E_Syntax
  end.

Fixpoint ident_list (fuel : nat) (expecting : bool) : P (list (col * ident)) :=
  match fuel with
  | O => fun _ => Hang
  | S f =>
      pdo pk <~ ppeek ;;
      if at_end pk && negb expecting then pret []
      else
        pdo i <~ expect_ident ;;
        pdo more <~ maybe TComma ;;
        if more then (pdo l <~ ident_list f true ;; pret (i :: l)) else pret [i]
  end.

Definition expect_var (fuel : nat) : P var :=
  pdo t <~ pnext ;;
  match t with
  | Some (TIdent id) =>
      pdo c <~ pcolm ;;
      if is_user_function id then pfail E_Syntax c
      else pdo pk <~ ppeek ;;
           match pk with
           | Some TLParen =>
               pdo _ <~ expect TLParen ;;
               pdo l <~ expr_list fuel [] ;;
               pdo _ <~ expect TRParen ;;
               pdo c2 <~ pcolm ;;
               pret (VArray (fst c, snd c2) id l)
           | _ => pret (VUnary c id)
           end
  | _ => pfail_here E_Syntax
  end.

Fixpoint var_list (fuel : nat) : P (list var) :=
  match fuel with
  | O => fun _ => Hang
  | S f =>
      pdo v <~ expect_var f ;;
      pdo more <~ maybe TComma ;;
      if more then (pdo l <~ var_list f ;; pret (v :: l)) else pret [v]
  end.

Definition maybe_line_number : P (option N) :=
  pdo pk <~ ppeek ;;
  match pk with
  | Some (TLit (LInt s)) | Some (TLit (LSng s)) | Some (TLit (LDbl s)) =>
      pdo _ <~ pnext ;;
      match parse_u16 s with
      | Some n => if n <=? 65529 then pret (Some n) else pfail_here E_UndefinedLine
      | None => pfail_here E_UndefinedLine
      end
  | _ => pret None
  end.

Definition lnum_expr (c : col) (n : N) : expr := ESng c (f32_of_Z (Z.of_N n)).

Definition expect_line_number : P expr :=
  pdo n <~ maybe_line_number ;;
  match n with
  | Some num => pdo c <~ pcolm ;; pret (lnum_expr c num)
  | None => pfail_here E_Syntax
  end.

Fixpoint line_number_list (fuel : nat) (expecting : bool) : P (list expr) :=
  match fuel with
  | O => fun _ => Hang
  | S f =>
      pdo pk <~ ppeek ;;
      if at_end pk && negb expecting then pret []
      else
        pdo e <~ expect_line_number ;;
        pdo more <~ maybe TComma ;;
        if more then (pdo l <~ line_number_list f true ;; pret (e :: l)) else pret [e]
  end.

Definition line_number_range : P (expr * expr) :=
  pdo c0 <~ pcolm ;;
  pdo f <~ maybe_line_number ;;
  pdo c1 <~ pcolm ;;
  let '(from_num, to_num0, from) :=
    match f with
    | Some n => (n, n, lnum_expr c1 n)
    | None => (0, 65529, lnum_expr (fst c1, fst c1) 0)
    end in
  pdo dash <~ maybe (TOp OMinus) ;;
  pdo r <~ (if dash then
          pdo t <~ maybe_line_number ;;
          pdo c2 <~ pcolm ;;
          match t with
          | Some n => pret (n, lnum_expr c2 n)
          | None => pret (65529, lnum_expr (fst c2, fst c2) 65529)
          end
        else
          pdo c2 <~ pcolm ;; pret (to_num0, lnum_expr (fst c2, fst c2) to_num0)) ;;
  let '(to_num, to) := r in
  pdo c3 <~ pcolm ;;
  if to_num <? from_num then pfail E_UndefinedLine (fst c0, snd c3) else pret (from, to).

Definition is_single_letter (i : ident) : bool :=
  match i with IPlain [_] => true | _ => false end.

Definition var_range : P (var * var) :=
  pdo fr <~ expect_ident ;;
  let '(from_col, from_ident) := fr in
  pdo dash <~ maybe (TOp OMinus) ;;
  pdo tr <~ (if dash then expect_ident else pret (from_col, from_ident)) ;;
  let '(to_col, to_ident) := tr in
  if negb (is_single_letter from_ident) then pfail E_Syntax from_col
  else if negb (is_single_letter to_ident) then pfail E_Syntax to_col
  else if str_ltb (ident_str to_ident) (ident_str from_ident) then pfail E_Syntax (fst from_col, snd to_col)
  else pret (VUnary from_col from_ident, VUnary to_col to_ident).

Fixpoint print_list (fuel : nat) (linefeed : bool) : P (list expr) :=
  match fuel with
  | O => fun _ => Hang
  | S f =>
      pdo pk <~ ppeek ;;
      if at_end pk then
        pdo c <~ pcolm ;;
        pret (if linefeed then [EStr (snd c, snd c) [c_nl]] else [])
      else match pk with
           | Some TSemicolon => pdo _ <~ pnext ;; print_list f false
           | Some TComma =>
               pdo _ <~ pnext ;;
               pdo c <~ pcolm ;;
               pdo l <~ print_list f false ;;
               pret (EArray c (IString (s2l "TAB")) [EInt c (-14)] :: l)
           | _ =>
               pdo e <~ expression f ;;
               pdo l <~ print_list f true ;;
               pret (e :: l)
           end
  end.

(* mangled parameter name: FNX.P with the parameter's own variant *)
Definition mangle (fn p : ident) : ident :=
  let s := ident_str fn ++ [c_dot] ++ ident_str p in
  match p with
  | IPlain _ => IPlain s | IString _ => IString s | ISingle _ => ISingle s
  | IDouble _ => IDouble s | IInteger _ => IInteger s
  end.

(* ---------- statements ---------- *)
Fixpoint skip_to_end (fuel : nat) : P unit :=
  match fuel with
  | O => fun _ => Hang
  | S f => pdo pk <~ ppeek ;; if at_end pk then pret tt else (pdo _ <~ pnext ;; skip_to_end f)
  end.

Definition renum_start (default : N) : P expr :=
  pdo comma <~ maybe TComma ;;
  if comma then (pdo c <~ pcolm ;; pret (lnum_expr c default))
  else
    pdo pk <~ ppeek ;;
    if at_end pk then (pdo c <~ pcolm ;; pret (lnum_expr (fst c, fst c) default))
    else (pdo ln <~ expect_line_number ;; pdo _ <~ maybe TComma ;; pret ln).

Fixpoint statement (fuel : nat) : P stmt :=
  match fuel with
  | O => fun _ => Hang
  | S f =>
      pdo pk <~ ppeek ;;
      match pk with
      | Some (TIdent _) => st_let f true
      | Some (TWord w) =>
          pdo _ <~ pnext ;;
          pdo c <~ pcolm ;;
          match w with
          | WClear => pdo _ <~ skip_to_end f ;; pret (SClear c)
          | WCls => pret (SCls c)
          | WCont => pret (SCont c)
          | WData => pdo l <~ expr_list f [] ;; pdo c2 <~ pcolm ;; pret (SData c2 l)
          | WDef =>
              pdo t <~ pnext ;;
              match t with
              | Some (TIdent fn) =>
                  pdo fc <~ pcolm ;;
                  if negb (is_user_function fn) then pfail E_Syntax fc
                  else
                    pdo _ <~ expect TLParen ;;
                    pdo ids <~ ident_list f false ;;
                    pdo _ <~ expect TRParen ;;
                    pdo _ <~ expect (TOp OEq) ;;
                    let params := map (fun ci => VUnary (fst ci) (mangle fn (snd ci))) ids in
                    let vm := rev (map (fun ci => (snd ci, VUnary (fst ci) (mangle fn (snd ci)))) ids) in
                    pdo e <~ descend f vm 0 ;;
                    pret (SDef c (VUnary fc fn) params e)
              | _ => pfail_here E_Syntax
              end
          | WDefdbl => pdo r <~ var_range ;; pdo c2 <~ pcolm ;; pret (SDefdbl c2 (fst r) (snd r))
          | WDefint => pdo r <~ var_range ;; pdo c2 <~ pcolm ;; pret (SDefint c2 (fst r) (snd r))
          | WDefsng => pdo r <~ var_range ;; pdo c2 <~ pcolm ;; pret (SDefsng c2 (fst r) (snd r))
          | WDefstr => pdo r <~ var_range ;; pdo c2 <~ pcolm ;; pret (SDefstr c2 (fst r) (snd r))
          | WDelete =>
              pdo r <~ line_number_range ;;
              (* a bare DELETE is refused; an explicit range such as "0-" is not *)
              match fst r, snd r with
              | ESng (a1, a2) _, ESng (b1, b2) _ =>
                  if (a1 =? a2) && (b1 =? b2) then pfail E_IllegalFunctionCall c
                  else pret (SDelete c (fst r) (snd r))
              | _, _ => pret (SDelete c (fst r) (snd r))
              end
          | WDim => pdo l <~ var_list f ;; pret (SDim c l)
          | WEnd => pret (SEnd c)
          | WErase =>
              pdo ids <~ ident_list f false ;;
              match ids with
              | [] => pfail E_Syntax (fst c, fst c)
              | _ => pret (SErase c (map (fun ci => VUnary (fst ci) (snd ci)) ids))
              end
          | WFor =>
              pdo iv <~ expect_ident ;;
              pdo _ <~ expect (TOp OEq) ;;
              pdo e1 <~ expression f ;;
              pdo _ <~ expect (TWord WTo) ;;
              pdo e2 <~ expression f ;;
              pdo has_step <~ maybe (TWord WStep) ;;
              pdo e3 <~ (if has_step then expression f
                     else (pdo c2 <~ pcolm ;; pret (EInt (snd c2, snd c2) 1))) ;;
              pret (SFor c (VUnary (fst iv) (snd iv)) e1 e2 e3)
          | WGosub => pdo e <~ expect_line_number ;; pret (SGosub c e)
          | WGoto => pdo e <~ expect_line_number ;; pret (SGoto c e)
          | WIf =>
              pdo p <~ expression f ;;
              pdo is_goto <~ maybe (TWord WGoto) ;;
              pdo th <~ (if is_goto then
                       (pdo gc <~ pcolm ;; pdo e <~ expect_line_number ;; pret [SGoto gc e])
                     else
                       pdo _ <~ expect (TWord WThen) ;;
                       pdo n <~ maybe_line_number ;;
                       match n with
                       | Some num => pdo c2 <~ pcolm ;; pret [SGoto c (lnum_expr c2 num)]
                       | None => statements f false
                       end) ;;
              pdo has_else <~ maybe (TWord WElse) ;;
              pdo el <~ (if has_else then
                       pdo n <~ maybe_line_number ;;
                       match n with
                       | Some num => pdo c2 <~ pcolm ;; pret [SGoto c (lnum_expr c2 num)]
                       | None => statements f false
                       end
                     else pret []) ;;
              pret (SIf c p th el)
          | WInput =>
              pdo pk1 <~ ppeek ;;
              pdo caps <~ (match pk1 with
                       | Some TComma => pdo _ <~ pnext ;; pdo c2 <~ pcolm ;; pret (EInt c2 0)
                       | _ => pdo c2 <~ pcolm ;; pret (EInt (fst c2, fst c2) (-1))
                       end) ;;
              pdo pk2 <~ ppeek ;;
              pdo pr <~ (match pk2 with
                     | Some (TLit (LStr s)) =>
                         pdo _ <~ pnext ;;
                         pdo pc <~ pcolm ;;
                         pdo pk3 <~ ppeek ;;
                         if at_end pk3 then pret (pc, s)
                         else match pk3 with
                              | Some TSemicolon => pdo _ <~ pnext ;; pret (pc, s)
                              | _ => pfail_here E_Syntax
                              end
                     | _ => pret ((snd c, snd c), [])
                     end) ;;
              pdo l <~ var_list f ;;
              pret (SInput c caps (EStr (fst pr) (snd pr)) l)
          | WLet => st_let f false
          | WList => pdo r <~ line_number_range ;; pret (SList c (fst r) (snd r))
          | WLoad => pdo e <~ expression f ;; pret (SLoad c e)
          | WNew => pret (SNew c)
          | WNext =>
              pdo ids <~ ident_list f false ;;
              match ids with
              | [] => pret (SNext c [VUnary (0, 0) (IPlain [])])
              | _ => pret (SNext c (map (fun ci => VUnary (fst ci) (snd ci)) ids))
              end
          | WOn =>
              pdo e <~ expression f ;;
              pdo t <~ pnext ;;
              match t with
              | Some (TWord WGoto) => pdo l <~ line_number_list f false ;; pret (SOnGoto c e l)
              | Some (TWord WGosub) => pdo l <~ line_number_list f false ;; pret (SOnGosub c e l)
              | _ => pfail_here E_Syntax
              end
          | WPrint => pdo l <~ print_list f true ;; pret (SPrint c l)
          | WRead => pdo l <~ var_list f ;; pret (SRead c l)
          | WRenum =>
              pdo a <~ renum_start 10 ;;
              pdo b <~ renum_start 0 ;;
              pdo pk1 <~ ppeek ;;
              pdo s <~ (if at_end pk1 then (pdo c2 <~ pcolm ;; pret (lnum_expr (fst c2, fst c2) 10))
                    else expect_line_number) ;;
              pret (SRenum c a b s)
          | WRestore =>
              pdo n <~ maybe_line_number ;;
              pdo c2 <~ pcolm ;;
              pret (SRestore c2 (ESng c2 (match n with
                                          | Some num => f32_of_Z (Z.of_N num)
                                          | None => f32_of_Z (-1) end)))
          | WReturn => pret (SReturn c)
          | WRun =>
              pdo pk1 <~ ppeek ;;
              match pk1 with
              | Some (TLit (LStr s)) => pdo _ <~ pnext ;; pdo c2 <~ pcolm ;; pret (SRun c (EStr c2 s))
              | _ =>
                  pdo n <~ maybe_line_number ;;
                  pdo c2 <~ pcolm ;;
                  match n with
                  | Some num => pret (SRun c (lnum_expr c2 num))
                  | None => pret (SRun c (ESng (fst c2, fst c2) (f32_of_Z (-1))))
                  end
              end
          | WSave => pdo e <~ expression f ;; pret (SSave c e)
          | WStop => pret (SStop c)
          | WSwap =>
              pdo l <~ var_list f ;;
              pdo c2 <~ pcolm ;;
              match l with
              | [v1; v2] => pret (SSwap c v2 v1)
              | _ => pfail E_Syntax (fst c, snd c2)
              end
          | WTroff => pret (STroff c)
          | WTron => pret (STron c)
          | WWend => pret (SWend c)
          | WWhile => pdo e <~ expression f ;; pret (SWhile c e)
          | WElse | WRem1 | WRem2 | WStep | WThen | WTo => pfail_here E_Syntax
          end
      | _ => pfail_here E_Syntax
      end
  end
with st_let (fuel : nat) (shortcut : bool) : P stmt :=
  match fuel with
  | O => fun _ => Hang
  | S f =>
      pdo c <~ pcolm ;;
      pdo pk <~ ppeek ;;
      let is_mid := match pk with
                    | Some (TIdent (IString s)) => str_eqb s (s2l "MID$")
                    | _ => false
                    end in
      if is_mid then
        pdo _ <~ pnext ;;
        pdo _ <~ expect TLParen ;;
        pdo v <~ expect_var f ;;
        pdo _ <~ expect TComma ;;
        pdo pos <~ expression f ;;
        pdo has_len <~ maybe TComma ;;
        pdo len <~ (if has_len then expression f
                else (pdo c2 <~ pcolm ;; pret (EInt (fst c2, fst c2) 32767))) ;;
        pdo _ <~ expect TRParen ;;
        pdo _ <~ expect (TOp OEq) ;;
        pdo e <~ expression f ;;
        pret (SMid c v pos len e)
      else
        pdo v <~ expect_var f ;;
        pdo t <~ pnext ;;
        match t with
        | Some (TOp OEq) => pdo e <~ expression f ;; pret (SLet c v e)
        | _ => if shortcut then pfail E_Syntax c else pfail_here E_Syntax
        end
  end
with statements (fuel : nat) (expect_colon : bool) : P (list stmt) :=
  match fuel with
  | O => fun _ => Hang
  | S f =>
      pdo pk <~ ppeek ;;
      match pk with
      | None | Some (TWord WElse) => pret []
      | Some TColon => pdo _ <~ pnext ;; statements f false
      | Some _ =>
          if expect_colon then pfail_here E_Syntax
          else pdo s <~ statement f ;; pdo l <~ statements f true ;; pret (s :: l)
      end
  end.

Definition parse_fuel (tokens : list token) : nat := 4 * List.length tokens + 16.

Definition parse (line : option N) (tokens : list token) : res (list stmt) :=
  let st0 := mkP tokens None false 0 0 in
  let '(pk, st1) := p_peekt st0 in
  let r :=
    match pk with
    | Some (TLit (LInt _)) | Some (TLit (LSng _)) | Some (TLit (LDbl _)) =>
        Err (mkErr E_UndefinedLine None (pcol st1))
    | _ => match statements (parse_fuel tokens) false st1 with
           | Ok (l, _) => Ok l
           | Err e => Err e
           | Panic => Panic
           | Hang => Hang
           end
    end in
  match r with
  | Err e => Err (in_line e line)
  | _ => r
  end.
