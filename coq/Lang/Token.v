(* src/lang/token.rs : tokens, their Display, keyword crunching. *)
From BL Require Import Base.Prelude.
From Coq Require Import String.
Local Open Scope N_scope.

Inductive literal := LSng (s : str) | LDbl (s : str) | LInt (s : str) | LHex (s : str) | LOct (s : str) | LStr (s : str).

Inductive word :=
| WClear | WCls | WCont | WData | WDef | WDefdbl | WDefint | WDefsng | WDefstr | WDelete | WDim
| WElse | WEnd | WErase | WFor | WGosub | WGoto | WIf | WInput | WLet | WList | WLoad | WNew | WNext
| WOn | WPrint | WRead | WRem1 | WRem2 | WRenum | WRestore | WReturn | WSave | WStep | WStop | WSwap
| WRun | WThen | WTo | WTroff | WTron | WWend | WWhile.

Inductive operator :=
| OCaret | OMul | ODiv | ODivInt | OMod | OPlus | OMinus | OEq | ONe | OLt | OLe | OGt | OGe
| ONot | OAnd | OOr | OXor | OImp | OEqv.

Inductive ident := IPlain (s : str) | IString (s : str) | ISingle (s : str) | IDouble (s : str) | IInteger (s : str).

Inductive token :=
| TUnknown (s : str) | TWs (n : N) | TLit (l : literal) | TWord (w : word) | TOp (o : operator)
| TIdent (i : ident) | TLParen | TRParen | TComma | TColon | TSemicolon.

Definition word_str (w : word) : str :=
  s2l (match w with
  | WClear => "CLEAR" | WCls => "CLS" | WCont => "CONT" | WData => "DATA" | WDef => "DEF"
  | WDefdbl => "DEFDBL" | WDefint => "DEFINT" | WDefsng => "DEFSNG" | WDefstr => "DEFSTR"
  | WDelete => "DELETE" | WDim => "DIM" | WElse => "ELSE" | WEnd => "END" | WErase => "ERASE"
  | WFor => "FOR" | WGosub => "GOSUB" | WGoto => "GOTO" | WIf => "IF" | WInput => "INPUT"
  | WLet => "LET" | WList => "LIST" | WLoad => "LOAD" | WNew => "NEW" | WNext => "NEXT"
  | WOn => "ON" | WPrint => "PRINT" | WRead => "READ" | WRem1 => "REM" | WRem2 => "'"
  | WRenum => "RENUM" | WRestore => "RESTORE" | WReturn => "RETURN" | WRun => "RUN"
  | WSave => "SAVE" | WStep => "STEP" | WStop => "STOP" | WSwap => "SWAP" | WThen => "THEN"
  | WTo => "TO" | WTroff => "TROFF" | WTron => "TRON" | WWend => "WEND" | WWhile => "WHILE"
  end)%string.

Definition op_str (o : operator) : str :=
  s2l (match o with
  | OCaret => "^" | OMul => "*" | ODiv => "/" | ODivInt => "\" | OMod => "MOD" | OPlus => "+"
  | OMinus => "-" | OEq => "=" | ONe => "<>" | OLt => "<" | OLe => "<=" | OGt => ">" | OGe => ">="
  | ONot => "NOT" | OAnd => "AND" | OOr => "OR" | OXor => "XOR" | OImp => "IMP" | OEqv => "EQV"
  end)%string.

Definition op_is_word (o : operator) : bool :=
  match o with
  | OMod | ONot | OAnd | OOr | OXor | OImp | OEqv => true
  | _ => false
  end.

Definition ident_str (i : ident) : str :=
  match i with IPlain s | IString s | ISingle s | IDouble s | IInteger s => s end.

Definition lit_str (l : literal) : str :=
  match l with
  | LSng s | LDbl s | LInt s => s
  | LHex s => s2l "&H" ++ s
  | LOct s => 38 :: s
  | LStr s => c_quote :: s ++ [c_quote]
  end.

Definition token_str (t : token) : str :=
  match t with
  | TUnknown s => s
  | TWs n => repeatN c_space n
  | TLit l => lit_str l
  | TWord w => word_str w
  | TOp o => op_str o
  | TIdent i => ident_str i
  | TLParen => [40] | TRParen => [41] | TComma => [44] | TColon => [58] | TSemicolon => [59]
  end.

Definition tokens_str (ts : list token) : str := flat_map token_str ts.

Definition is_word_tok (t : token) : bool :=
  match t with
  | TWord _ | TIdent _ | TLit _ => true
  | TOp o => op_is_word o
  | _ => false
  end.

(* the reserved-word table of Token::scan_alphabetic, in its order *)
Definition keyword_table : list (str * token) :=
  map (fun p => (s2l (fst p), snd p))
  [("RESTORE", TWord WRestore); ("DEFDBL", TWord WDefdbl); ("DEFINT", TWord WDefint);
   ("DEFSNG", TWord WDefsng); ("DEFSTR", TWord WDefstr); ("DELETE", TWord WDelete);
   ("RETURN", TWord WReturn); ("CLEAR", TWord WClear); ("ERASE", TWord WErase);
   ("GOSUB", TWord WGosub); ("INPUT", TWord WInput); ("PRINT", TWord WPrint);
   ("RENUM", TWord WRenum); ("TROFF", TWord WTroff); ("WHILE", TWord WWhile);
   ("CONT", TWord WCont); ("DATA", TWord WData); ("ELSE", TWord WElse); ("GOTO", TWord WGoto);
   ("NEXT", TWord WNext); ("LIST", TWord WList); ("LOAD", TWord WLoad); ("READ", TWord WRead);
   ("SAVE", TWord WSave); ("STEP", TWord WStep); ("STOP", TWord WStop); ("SWAP", TWord WSwap);
   ("THEN", TWord WThen); ("TRON", TWord WTron); ("WEND", TWord WWend); ("AND", TOp OAnd);
   ("CLS", TWord WCls); ("DEF", TWord WDef); ("DIM", TWord WDim); ("END", TWord WEnd);
   ("EQV", TOp OEqv); ("FOR", TWord WFor); ("IMP", TOp OImp); ("LET", TWord WLet);
   ("MOD", TOp OMod); ("NEW", TWord WNew); ("NOT", TOp ONot); ("REM", TWord WRem1);
   ("RUN", TWord WRun); ("XOR", TOp OXor); ("IF", TWord WIf); ("ON", TWord WOn);
   ("OR", TOp OOr); ("TO", TWord WTo)]%string.

(* leftmost occurrence over the whole table; among equal positions the first table entry *)
Fixpoint best_keyword (tbl : list (str * token)) (s : str) (best : option (N * N * token))
  : option (N * N * token) :=
  match tbl with
  | [] => best
  | (k, t) :: r =>
      let best' :=
        match find_sub k s with
        | Some i => match best with
                    | Some (bi, _, _) => if i <? bi then Some (i, lenN k, t) else best
                    | None => Some (i, lenN k, t)
                    end
        | None => best
        end in
      best_keyword r s best'
  end.

(* Token::scan_alphabetic: returns the tokens split off and the remaining text *)
Fixpoint scan_alphabetic (fuel : nat) (s : str) (acc : list token) : list token * str :=
  match fuel with
  | O => (rev acc, s)
  | S f =>
      match best_keyword keyword_table s None with
      | None => (rev acc, s)
      | Some (idx, len, tok) =>
          if idx =? 0 then scan_alphabetic f (skipnN len s) (tok :: acc)
          else scan_alphabetic f (skipnN (idx + len) s) (tok :: TIdent (IPlain (firstnN idx s)) :: acc)
      end
  end.

Definition match_minutia (c : N) : option token :=
  if c =? 40 then Some TLParen else if c =? 41 then Some TRParen
  else if c =? 44 then Some TComma else if c =? 58 then Some TColon
  else if c =? 59 then Some TSemicolon else if c =? 63 then Some (TWord WPrint)
  else if c =? 39 then Some (TWord WRem2) else if c =? 94 then Some (TOp OCaret)
  else if c =? 42 then Some (TOp OMul) else if c =? 47 then Some (TOp ODiv)
  else if c =? 92 then Some (TOp ODivInt) else if c =? 43 then Some (TOp OPlus)
  else if c =? 45 then Some (TOp OMinus) else if c =? 61 then Some (TOp OEq)
  else if c =? 60 then Some (TOp OLt) else if c =? 62 then Some (TOp OGt)
  else None.

(* decidable equalities used by the parser (`*t == token`) *)
Definition word_eqb (a b : word) : bool := str_eqb (word_str a) (word_str b).
Definition op_eqb (a b : operator) : bool := str_eqb (op_str a) (op_str b).
Definition ident_tag (i : ident) : N :=
  match i with IPlain _ => 0 | IString _ => 1 | ISingle _ => 2 | IDouble _ => 3 | IInteger _ => 4 end.
Definition ident_eqb (a b : ident) : bool :=
  (ident_tag a =? ident_tag b) && str_eqb (ident_str a) (ident_str b).
