(* src/lang/lex.rs : the scanner and its three post-passes. *)
From BL Require Import Base.Prelude Lang.Token Mach.Func.
From Coq Require Import String.
Local Open Scope N_scope.

Definition is_suffix_chr (c : N) : bool := (c =? 36) || (c =? 33) || (c =? 35) || (c =? 37).  (* $ ! # % *)

(* ---------- number() ----------
   Each iteration consumes one character; when a dangling exponent letter is
   pushed back the loop ends (before the fix of /repo commit 8079876 the loop
   could `continue` there and re-read the letter for ever: "PRINT 1EE"). *)
Fixpoint number_loop (cs : str) (s : str) (digits : N) (decimal expf : bool) {struct cs}
  : res (token * str) :=
  let finish (s : str) (digits : N) (decimal expf : bool) (rest : str) : res (token * str) :=
    let s' := rev s in
    if 7 <? digits then Ok (TLit (LDbl s'), rest)
    else if negb expf && negb decimal && (match parse_i16 s' with Some _ => true | None => false end)
         then Ok (TLit (LInt s'), rest)
    else Ok (TLit (LSng s'), rest) in
  match cs with
  | [] => finish s digits decimal expf []
  | ch0 :: rest =>
      let ch := if ch0 =? 101 then 69 else if ch0 =? 100 then 68 else ch0 in
      let s1 := ch :: s in
      let digits1 := if negb expf && is_digit ch then digits + 1 else digits in
      let decimal1 := if ch =? 46 then true else decimal in
      let digits2 := if ch =? 68 then digits1 + 8 else digits1 in
      if ch =? 33 then Ok (TLit (LSng (rev s1)), rest)
      else if ch =? 35 then Ok (TLit (LDbl (rev s1)), rest)
      else if ch =? 37 then Ok (TLit (LInt (rev s1)), rest)
      else
        match rest with
        | [] => finish s1 digits2 decimal1 expf rest
        | pk :: _ =>
            let is_e := (ch =? 69) || (ch =? 68) in
            if is_e && ((pk =? 43) || (pk =? 45)) then number_loop rest s1 digits2 decimal1 true
            else if is_e && negb (is_digit pk) then
              (* exp = false; s.pop(); push_front(ch); break -- the letter starts the next token *)
              finish s digits1 decimal1 false (ch :: rest)    (* the 8 digits credited for a D are taken back *)
            else
              let expf1 := if is_e then true else expf in
              if is_digit pk then number_loop rest s1 digits2 decimal1 expf1
              else if negb expf1 && negb decimal1 && (pk =? 46) then number_loop rest s1 digits2 decimal1 expf1
              else if negb expf1 && ((pk =? 69) || (pk =? 101) || (pk =? 68) || (pk =? 100))
                   then number_loop rest s1 digits2 decimal1 expf1
              else if (pk =? 33) || (pk =? 35) || (pk =? 37) then number_loop rest s1 digits2 decimal1 expf1
              else finish s1 digits2 decimal1 expf1 rest
        end
  end.

Definition lex_number (cs : str) : res (token * str) := number_loop cs [] 0 false false.

(* ---------- string() ---------- *)
Fixpoint string_loop (cs : str) (acc : str) : token * str :=
  match cs with
  | [] => (TLit (LStr (rev acc)), [])
  | c :: r => if c =? 34 then (TLit (LStr (rev acc)), r) else string_loop r (c :: acc)
  end.

(* ---------- whitespace() ---------- *)
Fixpoint ws_loop (cs : str) (n : N) : token * str :=
  match cs with
  | c :: r => if is_ws c then ws_loop r (n + 1) else (TWs n, cs)
  | [] => (TWs n, [])
  end.

(* ---------- radix() ---------- *)
Fixpoint radix_loop (cs : str) (hex : bool) (acc : str) : str * str :=
  match cs with
  | [] => (rev acc, [])
  | c0 :: r =>
      let c := to_upper c0 in
      if ((48 <=? c) && (c <=? 55)) || (hex && (((56 <=? c) && (c <=? 57)) || ((65 <=? c) && (c <=? 70))))
      then radix_loop r hex (c :: acc)
      else (rev acc, c :: r)
  end.
Definition lex_radix (cs : str) : token * str :=
  (* cs starts after the '&' *)
  match cs with
  | h :: r => if (h =? 72) || (h =? 104)
              then let '(s, rest) := radix_loop r true [] in (TLit (LHex s), rest)
              else let '(s, rest) := radix_loop cs false [] in (TLit (LOct s), rest)
  | [] => (TLit (LOct []), [])
  end.

(* ---------- minutia() ---------- *)
Fixpoint minutia_loop (cs : str) (acc : str) : token * str :=
  match cs with
  | [] => (TUnknown (rev acc), [])
  | c :: r =>
      let acc' := c :: acc in
      match r with
      | pk :: _ => if is_alpha pk || is_digit pk || is_ws pk then (TUnknown (rev acc'), r)
                   else minutia_loop r acc'
      | [] => (TUnknown (rev acc'), [])
      end
  end.
Definition lex_minutia (cs : str) : token * str :=
  match cs with
  | c :: r => match match_minutia c with
              | Some t => (t, r)
              | None => minutia_loop cs []
              end
  | [] => (TUnknown [], [])
  end.

(* ---------- alphabetic() ----------
   Returns every token the call leaves in `pending` (the first is the one
   returned to the caller, the rest are delivered by later next() calls). *)
Fixpoint alpha_loop (cs : str) (s : str) (digit : bool) (pend : list token) {struct cs}
  : list token * str :=
  match cs with
  | [] => (pend, [])
  | c0 :: rest =>
      let ch := to_upper c0 in
      let s1 := s ++ [ch] in
      let digit1 := digit || is_digit ch in
      if ch =? 36 then (pend ++ [TIdent (IString s1)], rest)
      else if ch =? 33 then (pend ++ [TIdent (ISingle s1)], rest)
      else if ch =? 35 then (pend ++ [TIdent (IDouble s1)], rest)
      else if ch =? 37 then (pend ++ [TIdent (IInteger s1)], rest)
      else
        let final :=
          let '(toks, s2) := scan_alphabetic (List.length s1) s1 [] in
          (pend ++ toks ++ (match s2 with [] => [] | _ => [TIdent (IPlain s2)] end), rest) in
        match rest with
        | pk :: _ =>
            if is_alpha pk then
              if digit1 then (pend ++ [TIdent (IPlain s1)], rest)
              else alpha_loop rest s1 digit1 pend
            else if is_digit pk || is_suffix_chr pk then
              let '(toks, s2) := scan_alphabetic (List.length s1) s1 [] in
              match s2 with
              | [] => (pend ++ toks, rest)
              | _ => alpha_loop rest s2 digit1 (pend ++ toks)
              end
            else final
        | [] => final
        end
  end.

(* ---------- the token iterator ---------- *)
Fixpoint lex_loop (fuel : nat) (cs : str) (acc : list token) : res (list token) :=
  match fuel with
  | O => Hang
  | S f =>
      match cs with
      | [] => Ok (rev acc)
      | pk :: r =>
          if is_ws pk then let '(t, rest) := ws_loop cs 0 in lex_loop f rest (t :: acc)
          else if is_digit pk || (pk =? 46) then
            do tr <- lex_number cs; let '(t, rest) := tr in lex_loop f rest (t :: acc)
          else if is_alpha pk then
            let '(toks, rest) := alpha_loop cs [] false [] in
            match toks with
            | TWord WRem1 :: more =>
                (* remark = true: pending tokens first, then the rest of the line verbatim *)
                Ok (rev acc ++ toks ++ (match rest with [] => [] | _ => [TUnknown rest] end))
            | _ => lex_loop f rest (rev toks ++ acc)
            end
          else if pk =? 34 then let '(t, rest) := string_loop r [] in lex_loop f rest (t :: acc)
          else if pk =? 38 then let '(t, rest) := lex_radix r in lex_loop f rest (t :: acc)
          else
            let '(t, rest) := lex_minutia cs in
            match t with
            | TWord WRem2 => Ok (rev acc ++ [t] ++ (match rest with [] => [] | _ => [TUnknown rest] end))
            | _ => lex_loop f rest (t :: acc)
            end
      end
  end.

(* ---------- post passes ---------- *)
Definition pp_trim_end (ts : list token) : list token :=
  let ts1 := match rev ts with TWs _ :: r => rev r | _ => ts end in
  match rev ts1 with
  | TUnknown s :: r => rev (TUnknown (trim_end s) :: r)
  | _ => ts1
  end.

Definition triple_at (a b c : token) : option token :=
  match b with
  | TWs _ =>
      match a, c with
      | TOp OLt, TOp OGt => Some (TOp ONe)
      | TOp OLt, TOp OEq => Some (TOp OLe)
      | TOp OEq, TOp OGt => Some (TOp OGe)
      | TOp OEq, TOp OLt => Some (TOp OLe)
      | TOp OGt, TOp OLt => Some (TOp ONe)
      | TOp OGt, TOp OEq => Some (TOp OGe)
      | TIdent (IPlain g), TWord WTo => if str_eqb g (s2l "GO") then Some (TWord WGoto) else None
      | TIdent (IPlain g), TIdent (IPlain sb) =>
          if str_eqb g (s2l "GO") && str_eqb sb (s2l "SUB") then Some (TWord WGosub) else None
      | _, _ => None
      end
  | _ => None
  end.

Fixpoint triple_locs (ts : list token) (i : N) : list (N * token) :=
  match ts with
  | a :: ((b :: c :: _) as r) =>
      match triple_at a b c with
      | Some t => (i, t) :: triple_locs r (i + 1)
      | None => triple_locs r (i + 1)
      end
  | _ => []
  end.

Definition splice {A} (l : list A) (i n : N) (x : A) : list A := firstnN i l ++ x :: skipnN (i + n) l.

(* `while let Some((index, token)) = locs.pop()`: last location first *)
Definition apply_locs (ts : list token) (locs : list (N * token)) (n : N) : list token :=
  fold_left (fun acc it => splice acc (fst it) n (snd it)) (rev locs) ts.

Definition pp_collapse_triples (ts : list token) : list token := apply_locs ts (triple_locs ts 0) 3.

Definition double_at (a b : token) : option token :=
  match a, b with
  | TOp OEq, TOp OGt => Some (TOp OGe)
  | TOp OEq, TOp OLt => Some (TOp OLe)
  | TOp OGt, TOp OEq => Some (TOp OGe)
  | TOp OLt, TOp OEq => Some (TOp OLe)
  | TOp OLt, TOp OGt => Some (TOp ONe)
  | TOp OGt, TOp OLt => Some (TOp ONe)
  | _, _ => None
  end.

(* after a match the next window is skipped *)
Fixpoint double_locs (fuel : nat) (ts : list token) (i : N) : list (N * token) :=
  match fuel with
  | O => []
  | S f =>
      match ts with
      | a :: ((b :: r2) as r) =>
          match double_at a b with
          | Some t => (i, t) :: double_locs f r2 (i + 2)
          | None => double_locs f r (i + 1)
          end
      | _ => []
      end
  end.
Definition pp_collapse_doubles (ts : list token) : list token :=
  apply_locs ts (double_locs (List.length ts) ts 0) 2.

Fixpoint pp_separate_words (ts : list token) : list token :=
  match ts with
  | a :: ((b :: _) as r) =>
      if is_word_tok a && is_word_tok b then a :: TWs 1 :: pp_separate_words r
      else a :: pp_separate_words r
  | _ => ts
  end.

(* ---------- lex() ---------- *)

(* scan of the line-number prefix: blanks, digits, stop at the first blank after a digit *)
Fixpoint prefix_len (cs : str) (seen_digit : bool) (n : N) : N :=
  match cs with
  | [] => n
  | c :: r =>
      if seen_digit && is_ws c then n
      else if is_digit c then prefix_len r true (n + 1)
      else if is_ws c then prefix_len r seen_digit (n + 1)
      else n
  end.

Definition split_line_number (src : str) : option N * str :=
  let p := prefix_len src false 0 in
  match parse_u16 (trim_start (firstnN p src)) with
  | Some num =>
      if num <=? 65529 then
        let rest := skipnN p src in
        (Some num, match rest with c :: r => if c =? 32 then r else rest | [] => rest end)
      else (None, src)
  | None => (None, src)
  end.

Definition lex (src : str) : res (option N * list token) :=
  let '(num, body) := split_line_number src in
  do ts <- lex_loop (S (List.length body)) body [];
  Ok (num, pp_separate_words (pp_collapse_doubles (pp_collapse_triples (pp_trim_end ts)))).
