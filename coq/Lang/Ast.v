(* src/lang/ast.rs.  Expression::Variable(Variable::Unary/Array) is flattened
   into the two constructors EUnary / EArray; `var` is the same pair of shapes
   where the grammar demands a variable. *)
From BL Require Import Base.Prelude Lang.Token.

Definition col := (N * N)%type.   (* character range [start, end) in the listed line *)

Inductive binop :=
| BPow | BMul | BDiv | BDivInt | BMod | BAdd | BSub | BEq | BNe | BLt | BLe | BGt | BGe
| BAnd | BOr | BXor | BImp | BEqv.

Inductive expr :=
| EUnary (c : col) (i : ident)
| EArray (c : col) (i : ident) (args : list expr)
| ESng (c : col) (bits : Z)
| EDbl (c : col) (bits : Z)
| EInt (c : col) (n : Z)
| EStr (c : col) (s : str)
| ENeg (c : col) (e : expr)
| ENot (c : col) (e : expr)
| EBin (c : col) (o : binop) (l r : expr).

Inductive var :=
| VUnary (c : col) (i : ident)
| VArray (c : col) (i : ident) (args : list expr).

Definition expr_of_var (v : var) : expr :=
  match v with VUnary c i => EUnary c i | VArray c i a => EArray c i a end.

Inductive stmt :=
| SClear (c : col) | SCls (c : col) | SCont (c : col)
| SData (c : col) (l : list expr)
| SDef (c : col) (f : var) (params : list var) (body : expr)
| SDefdbl (c : col) (a b : var) | SDefint (c : col) (a b : var)
| SDefsng (c : col) (a b : var) | SDefstr (c : col) (a b : var)
| SDelete (c : col) (a b : expr)
| SDim (c : col) (l : list var)
| SEnd (c : col)
| SErase (c : col) (l : list var)
| SFor (c : col) (v : var) (from to step : expr)
| SGosub (c : col) (e : expr) | SGoto (c : col) (e : expr)
| SIf (c : col) (p : expr) (th el : list stmt)
| SInput (c : col) (caps prompt : expr) (l : list var)
| SLet (c : col) (v : var) (e : expr)
| SList (c : col) (a b : expr)
| SLoad (c : col) (e : expr)
| SMid (c : col) (v : var) (pos len e : expr)
| SNew (c : col)
| SNext (c : col) (l : list var)
| SOnGoto (c : col) (e : expr) (l : list expr)
| SOnGosub (c : col) (e : expr) (l : list expr)
| SPrint (c : col) (l : list expr)
| SRead (c : col) (l : list var)
| SRenum (c : col) (a b s : expr)
| SRestore (c : col) (e : expr)
| SReturn (c : col)
| SRun (c : col) (e : expr)
| SSave (c : col) (e : expr)
| SStop (c : col)
| SSwap (c : col) (a b : var)
| STroff (c : col) | STron (c : col) | SWend (c : col)
| SWhile (c : col) (e : expr).
