// L5 sessions and the L4 compile dump (mirrors coq/Drv/Session.v).
use crate::canon::*;
use crate::lang::*;
use basic::lang::{Error, Line};
use basic::mach::{Event, Listing, Opcode, Program, Runtime};

fn show_err_full(e: &Error) -> String {
    let c = e.column();
    format!("{} {} {} {}", error_code(e), show_lnum(e.line_number()), c.start, c.end)
}

fn show_errs(l: &[Error]) -> String {
    format!("[{}]", l.iter().map(show_err_full).collect::<Vec<_>>().join(";"))
}

pub fn show_event(e: &Event) -> String {
    match e {
        Event::Errors(l) => format!("E:{}", show_errs(l)),
        Event::Input(p, caps) => format!("I:{}:{}", hex_of_str(p), if *caps { 1 } else { 0 }),
        Event::Print(s) => format!("P:{}", hex_of_str(s)),
        Event::List((s, cols)) => format!(
            "L:{}:[{}]",
            hex_of_str(s),
            cols.iter().map(|c| format!("{}-{}", c.start, c.end)).collect::<Vec<_>>().join(",")
        ),
        Event::Running => "r".into(),
        Event::Stopped => "S".into(),
        Event::Load(s) => format!("LD:{}", hex_of_str(s)),
        Event::Run(s) => format!("RN:{}", hex_of_str(s)),
        Event::Save(s) => format!("SV:{}", hex_of_str(s)),
        Event::Cls => "C".into(),
        Event::Inkey => "K".into(),
    }
}

fn is_blocking(e: &Event) -> bool {
    matches!(
        e,
        Event::Stopped | Event::Input(..) | Event::Inkey | Event::Load(_) | Event::Run(_) | Event::Save(_)
    )
}

/// term::load2 without patch mode: every line through Listing::load_str, first error aborts.
fn load_file(text: &str) -> Result<Listing, Error> {
    let mut listing = Listing::default();
    for line in text.lines() {
        listing.load_str(line)?;
    }
    Ok(listing)
}

pub fn run_session(calls: &[&str]) -> String {
    let mut rt = Runtime::default();
    let mut out: Vec<String> = vec![];
    let mut held: Vec<Listing> = vec![];
    let mut waiting_input = false;
    let mut last_err: Option<u16> = None;
    for call in calls {
        let c = call.as_bytes()[0];
        match c {
            b'E' => {
                rt.enter(&str_of_hex(&call[2..]));
                waiting_input = false;
            }
            b'X' => {
                let n: usize = call[1..].parse().unwrap();
                let e = rt.execute(n);
                waiting_input = matches!(e, Event::Input(..) | Event::Inkey);
                out.push(show_event(&e));
            }
            b'R' | b'A' | b'K' => {
                let n: usize = if c == b'R' {
                    last_err = None;
                    call[1..].parse().unwrap()
                } else if c == b'K' {
                    // CONT, but only when the last run was stopped by ?BREAK (STOP or interrupt)
                    if last_err != Some(0) {
                        continue;
                    }
                    rt.enter("CONT");
                    last_err = None;
                    call[1..].parse().unwrap_or(5000)
                } else {
                    if !waiting_input {
                        continue;
                    }
                    let parts: Vec<&str> = call[1..].split(':').collect();
                    rt.enter(&str_of_hex(parts[1]));
                    parts[0].parse().unwrap_or(5000)
                };
                let mut done = false;
                waiting_input = false;
                // `cap` bounds the calls that used up their whole quantum; 20000 bounds all calls
                let cap = if n <= 64 { 3000 } else { 100 };
                let mut running = 0;
                for _ in 0..20000 {
                    let e = rt.execute(n);
                    if let Event::Running = e {
                        running += 1;
                        if running > cap {
                            break;
                        }
                        continue;
                    }
                    if let Event::Errors(errs) = &e {
                        if let Some(first) = errs.first() {
                            last_err = Some(error_code(first));
                        }
                    }
                    out.push(show_event(&e));
                    if is_blocking(&e) {
                        done = true;
                        waiting_input = matches!(e, Event::Input(..) | Event::Inkey);
                        break;
                    }
                }
                if !done {
                    out.push("TIMEOUT".into());
                }
            }
            b'I' => {
                // the interrupt ends a pending INPUT / INKEY$ wait: a later reply call is skipped on both sides
                rt.interrupt();
                waiting_input = false;
            }
            b'G' => held.push(rt.get_listing()),
            b'g' => {
                let _ = rt.get_listing();
            }
            b'D' => {
                held.pop();
            }
            b'T' => {
                let l = rt.get_listing();
                let mut s = String::new();
                for line in l.lines() {
                    s.push_str(&line.to_string());
                    s.push('\n');
                }
                out.push(format!("T:{}", hex_of_str(&s)));
            }
            b'L' => {
                let parts: Vec<&str> = call[2..].split(':').collect();
                match load_file(&str_of_hex(parts[0])) {
                    Ok(listing) => {
                        rt.set_listing(listing, parts[1] == "1");
                        waiting_input = false;
                    }
                    Err(e) => out.push(format!("LE:{}", error_code(&e))),
                }
            }
            _ => out.push("?".into()),
        }
    }
    out.join("|")
}

fn fun(name: &str) -> String {
    format!("FUN {}", hex_of_str(name))
}

pub fn show_op(op: &Opcode) -> String {
    use Opcode::*;
    match op {
        Literal(v) => format!("LIT {}", show_val(v)),
        Push(s) => format!("PUSH {}", hex_of_str(s)),
        Pop(s) => format!("POP {}", hex_of_str(s)),
        PushArr(s) => format!("PUSHARR {}", hex_of_str(s)),
        PopArr(s) => format!("POPARR {}", hex_of_str(s)),
        DimArr(s) => format!("DIMARR {}", hex_of_str(s)),
        EraseArr(s) => format!("ERASEARR {}", hex_of_str(s)),
        IfNot(a) => format!("IFNOT {}", a),
        Jump(a) => format!("JUMP {}", a),
        Next(s) => format!("NEXT {}", hex_of_str(s)),
        On => "ON".into(),
        Return => "RETURN".into(),
        Clear => "CLEAR".into(),
        Cls => "CLS".into(),
        Cont => "CONT".into(),
        Def(s) => format!("DEF {}", hex_of_str(s)),
        Defdbl => "DEFDBL".into(),
        Defint => "DEFINT".into(),
        Defsng => "DEFSNG".into(),
        Defstr => "DEFSTR".into(),
        Delete => "DELETE".into(),
        End => "END".into(),
        Fn(s) => format!("FN {}", hex_of_str(s)),
        Input(s) => format!("INPUT {}", hex_of_str(s)),
        LetMid => "LETMID".into(),
        List => "LIST".into(),
        Load => "LOAD".into(),
        LoadRun => "LOADRUN".into(),
        New => "NEW".into(),
        Print => "PRINT".into(),
        Read => "READ".into(),
        Renum => "RENUM".into(),
        Restore(a) => format!("RESTORE {}", a),
        Save => "SAVE".into(),
        Stop => "STOP".into(),
        Swap => "SWAP".into(),
        Troff => "TROFF".into(),
        Tron => "TRON".into(),
        Neg => "NEG".into(),
        Not => "NOT".into(),
        Pow => "BIN pow".into(),
        Mul => "BIN mul".into(),
        Div => "BIN div".into(),
        DivInt => "BIN divint".into(),
        Mod => "BIN mod".into(),
        Add => "BIN add".into(),
        Sub => "BIN sub".into(),
        Eq => "BIN eq".into(),
        NotEq => "BIN ne".into(),
        Lt => "BIN lt".into(),
        LtEq => "BIN le".into(),
        Gt => "BIN gt".into(),
        GtEq => "BIN ge".into(),
        And => "BIN and".into(),
        Or => "BIN or".into(),
        Xor => "BIN xor".into(),
        Imp => "BIN imp".into(),
        Eqv => "BIN eqv".into(),
        Abs => fun("ABS"),
        Asc => fun("ASC"),
        Atn => fun("ATN"),
        Cdbl => fun("CDBL"),
        Chr => fun("CHR$"),
        Cint => fun("CINT"),
        Cos => fun("COS"),
        Csng => fun("CSNG"),
        Date => fun("DATE$"),
        Exp => fun("EXP"),
        Fix => fun("FIX"),
        Hex => fun("HEX$"),
        Inkey => fun("INKEY$"),
        Instr => fun("INSTR"),
        Int => fun("INT"),
        Left => fun("LEFT$"),
        Len => fun("LEN"),
        Log => fun("LOG"),
        Mid => fun("MID$"),
        Oct => fun("OCT$"),
        Pos => fun("POS"),
        Right => fun("RIGHT$"),
        Rnd => fun("RND"),
        Sgn => fun("SGN"),
        Sin => fun("SIN"),
        Spc => fun("SPC"),
        Sqr => fun("SQR"),
        Str => fun("STR$"),
        String => fun("STRING$"),
        Tab => fun("TAB"),
        Tan => fun("TAN"),
        Time => fun("TIME$"),
        Val => fun("VAL"),
    }
}

pub fn compile_dump(srcs: &[String], direct: Option<String>) -> String {
    let lines: Vec<Line> = srcs.iter().map(|s| Line::new(s)).collect();
    let mut p = Program::default();
    p.codegen(lines.iter());
    if let Some(d) = &direct {
        let l = Line::new(d);
        p.codegen(&l);
    }
    let (da, ierr, derr) = p.link();
    let mut ops: Vec<String> = vec![];
    let mut lns: Vec<String> = vec![];
    let mut addr = 0;
    while let Some(op) = p.get(addr) {
        ops.push(show_op(&op));
        lns.push(show_lnum(p.line_number_for(addr)));
        addr += 1;
    }
    let mut data: Vec<String> = vec![];
    p.restore_data(0);
    while let Ok(v) = p.read_data() {
        data.push(show_val(&v));
    }
    format!(
        "ops={} data={} lines={} direct={} ierr={} derr={}",
        ops.join(";"),
        data.join(";"),
        lns.join(","),
        da,
        show_errs(&ierr),
        show_errs(&derr)
    )
}
