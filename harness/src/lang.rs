// Canonical text of tokens, ASTs and errors (mirrors coq/Drv/ShowLang.v).
use crate::canon::*;
use basic::lang::ast::{Expression, Ident, Statement, Variable};
use basic::lang::token::{self, Literal, Token};
use basic::lang::{Column, Error, LineNumber};

pub fn show_lnum(n: LineNumber) -> String {
    match n {
        Some(k) => format!("{}", k),
        None => "-".into(),
    }
}

fn show_tident(i: &token::Ident) -> String {
    use token::Ident::*;
    match i {
        Plain(s) => format!("P{}", hex_of_str(s)),
        String(s) => format!("T{}", hex_of_str(s)),
        Single(s) => format!("S{}", hex_of_str(s)),
        Double(s) => format!("D{}", hex_of_str(s)),
        Integer(s) => format!("I{}", hex_of_str(s)),
    }
}

pub fn show_token(t: &Token) -> String {
    match t {
        Token::Unknown(s) => format!("U:{}", hex_of_str(s)),
        Token::Whitespace(n) => format!("W:{}", n),
        Token::Literal(Literal::Single(s)) => format!("LS:{}", hex_of_str(s)),
        Token::Literal(Literal::Double(s)) => format!("LD:{}", hex_of_str(s)),
        Token::Literal(Literal::Integer(s)) => format!("LI:{}", hex_of_str(s)),
        Token::Literal(Literal::Hex(s)) => format!("LH:{}", hex_of_str(s)),
        Token::Literal(Literal::Octal(s)) => format!("LO:{}", hex_of_str(s)),
        Token::Literal(Literal::String(s)) => format!("LT:{}", hex_of_str(s)),
        Token::Word(w) => format!("K:{}", hex_of_str(&w.to_string())),
        Token::Operator(o) => format!("O:{}", hex_of_str(&o.to_string())),
        Token::Ident(i) => format!("I{}", show_tident(i)),
        Token::LParen => "LP".into(),
        Token::RParen => "RP".into(),
        Token::Comma => "CM".into(),
        Token::Colon => "CL".into(),
        Token::Semicolon => "SC".into(),
    }
}

pub fn show_tokens(ts: &[Token]) -> String {
    ts.iter().map(show_token).collect::<Vec<_>>().join(" ")
}

fn col(wc: bool, c: &Column) -> String {
    if wc {
        format!(" {} {}", c.start, c.end)
    } else {
        String::new()
    }
}

fn show_ident(i: &Ident) -> String {
    match i {
        Ident::Plain(s) => format!("P{}", hex_of_str(s)),
        Ident::String(s) => format!("T{}", hex_of_str(s)),
        Ident::Single(s) => format!("S{}", hex_of_str(s)),
        Ident::Double(s) => format!("D{}", hex_of_str(s)),
        Ident::Integer(s) => format!("I{}", hex_of_str(s)),
    }
}

fn brk(l: Vec<String>) -> String {
    format!("[{}]", l.join(" "))
}

pub fn show_var(wc: bool, v: &Variable) -> String {
    match v {
        Variable::Unary(c, i) => format!("(u{} {})", col(wc, c), show_ident(i)),
        Variable::Array(c, i, args) => format!(
            "(a{} {} {})",
            col(wc, c),
            show_ident(i),
            brk(args.iter().map(|e| show_expr(wc, e)).collect())
        ),
    }
}

pub fn show_expr(wc: bool, e: &Expression) -> String {
    use Expression::*;
    let bin = |name: &str, c: &Column, l: &Expression, r: &Expression| {
        format!("({}{} {} {})", name, col(wc, c), show_expr(wc, l), show_expr(wc, r))
    };
    match e {
        Variable(v) => show_var(wc, v),
        Single(c, f) => format!("(s{} {:08x})", col(wc, c), f.to_bits()),
        Double(c, f) => format!("(d{} {:016x})", col(wc, c), f.to_bits()),
        Integer(c, n) => format!("(i{} {})", col(wc, c), n),
        String(c, s) => format!("(t{} {})", col(wc, c), hex_of_str(s)),
        Negation(c, x) => format!("(neg{} {})", col(wc, c), show_expr(wc, x)),
        Not(c, x) => format!("(not{} {})", col(wc, c), show_expr(wc, x)),
        Power(c, l, r) => bin("pow", c, l, r),
        Multiply(c, l, r) => bin("mul", c, l, r),
        Divide(c, l, r) => bin("div", c, l, r),
        DivideInt(c, l, r) => bin("divint", c, l, r),
        Modulo(c, l, r) => bin("mod", c, l, r),
        Add(c, l, r) => bin("add", c, l, r),
        Subtract(c, l, r) => bin("sub", c, l, r),
        Equal(c, l, r) => bin("eq", c, l, r),
        NotEqual(c, l, r) => bin("ne", c, l, r),
        Less(c, l, r) => bin("lt", c, l, r),
        LessEqual(c, l, r) => bin("le", c, l, r),
        Greater(c, l, r) => bin("gt", c, l, r),
        GreaterEqual(c, l, r) => bin("ge", c, l, r),
        And(c, l, r) => bin("and", c, l, r),
        Or(c, l, r) => bin("or", c, l, r),
        Xor(c, l, r) => bin("xor", c, l, r),
        Imp(c, l, r) => bin("imp", c, l, r),
        Eqv(c, l, r) => bin("eqv", c, l, r),
    }
}

fn node(wc: bool, name: &str, c: &Column, parts: Vec<String>) -> String {
    let mut s = format!("({}{}", name, col(wc, c));
    for p in parts {
        s.push(' ');
        s.push_str(&p);
    }
    s.push(')');
    s
}

pub fn show_stmt(wc: bool, s: &Statement) -> String {
    use Statement::*;
    let se = |e: &Expression| show_expr(wc, e);
    let sv = |v: &Variable| show_var(wc, v);
    let ses = |l: &Vec<Expression>| brk(l.iter().map(|e| show_expr(wc, e)).collect());
    let svs = |l: &Vec<Variable>| brk(l.iter().map(|v| show_var(wc, v)).collect());
    let sts = |l: &Vec<Statement>| brk(l.iter().map(|x| show_stmt(wc, x)).collect());
    match s {
        Clear(c) => node(wc, "Clear", c, vec![]),
        Cls(c) => node(wc, "Cls", c, vec![]),
        Cont(c) => node(wc, "Cont", c, vec![]),
        Data(c, l) => node(wc, "Data", c, vec![ses(l)]),
        Def(c, f, ps, b) => node(wc, "Def", c, vec![sv(f), svs(ps), se(b)]),
        Defdbl(c, a, b) => node(wc, "Defdbl", c, vec![sv(a), sv(b)]),
        Defint(c, a, b) => node(wc, "Defint", c, vec![sv(a), sv(b)]),
        Defsng(c, a, b) => node(wc, "Defsng", c, vec![sv(a), sv(b)]),
        Defstr(c, a, b) => node(wc, "Defstr", c, vec![sv(a), sv(b)]),
        Delete(c, a, b) => node(wc, "Delete", c, vec![se(a), se(b)]),
        Dim(c, l) => node(wc, "Dim", c, vec![svs(l)]),
        End(c) => node(wc, "End", c, vec![]),
        Erase(c, l) => node(wc, "Erase", c, vec![svs(l)]),
        For(c, v, a, b, st) => node(wc, "For", c, vec![sv(v), se(a), se(b), se(st)]),
        Gosub(c, e) => node(wc, "Gosub", c, vec![se(e)]),
        Goto(c, e) => node(wc, "Goto", c, vec![se(e)]),
        If(c, p, th, el) => node(wc, "If", c, vec![se(p), sts(th), sts(el)]),
        Input(c, a, b, l) => node(wc, "Input", c, vec![se(a), se(b), svs(l)]),
        Let(c, v, e) => node(wc, "Let", c, vec![sv(v), se(e)]),
        List(c, a, b) => node(wc, "List", c, vec![se(a), se(b)]),
        Load(c, e) => node(wc, "Load", c, vec![se(e)]),
        Mid(c, v, p, l, e) => node(wc, "Mid", c, vec![sv(v), se(p), se(l), se(e)]),
        New(c) => node(wc, "New", c, vec![]),
        Next(c, l) => node(wc, "Next", c, vec![svs(l)]),
        OnGoto(c, e, l) => node(wc, "OnGoto", c, vec![se(e), ses(l)]),
        OnGosub(c, e, l) => node(wc, "OnGosub", c, vec![se(e), ses(l)]),
        Print(c, l) => node(wc, "Print", c, vec![ses(l)]),
        Read(c, l) => node(wc, "Read", c, vec![svs(l)]),
        Renum(c, a, b, st) => node(wc, "Renum", c, vec![se(a), se(b), se(st)]),
        Restore(c, e) => node(wc, "Restore", c, vec![se(e)]),
        Return(c) => node(wc, "Return", c, vec![]),
        Run(c, e) => node(wc, "Run", c, vec![se(e)]),
        Save(c, e) => node(wc, "Save", c, vec![se(e)]),
        Stop(c) => node(wc, "Stop", c, vec![]),
        Swap(c, a, b) => node(wc, "Swap", c, vec![sv(a), sv(b)]),
        Troff(c) => node(wc, "Troff", c, vec![]),
        Tron(c) => node(wc, "Tron", c, vec![]),
        Wend(c) => node(wc, "Wend", c, vec![]),
        While(c, e) => node(wc, "While", c, vec![se(e)]),
    }
}

/// The raw (un-rebased) column: Error::column() adds the line-number prefix.
pub fn raw_column(e: &Error) -> Column {
    let c = e.column();
    match e.line_number() {
        Some(n) => {
            let off = n.to_string().len() + 1;
            (c.start - off)..(c.end - off)
        }
        None => c,
    }
}

pub fn show_error(wc: bool, e: &Error) -> String {
    let c = raw_column(e);
    if wc {
        format!("err {} {} {} {}", error_code(e), show_lnum(e.line_number()), c.start, c.end)
    } else {
        format!("err {} {}", error_code(e), show_lnum(e.line_number()))
    }
}

pub fn show_ast_res(wc: bool, r: &Result<Vec<Statement>, Error>) -> String {
    match r {
        Ok(l) => format!("ok {}", brk(l.iter().map(|s| show_stmt(wc, s)).collect())),
        Err(e) => show_error(wc, e),
    }
}
