// Correspondence harness: runs case lines against the real crate (public API only)
// and prints the canonical result forms of coq/Drv/Show.v.
use basic::mach::{Function, Operation, Stack, Val};
use std::io::{BufRead, Write};
use std::panic::{catch_unwind, AssertUnwindSafe};

mod canon;
mod lang;
mod session;
use canon::*;
use lang::*;

fn run_op2(name: &str, a: Val, b: Val) -> Result<Val, basic::lang::Error> {
    match name {
        "pow" => Operation::power(a, b),
        "mul" => Operation::multiply(a, b),
        "div" => Operation::divide(a, b),
        "divint" => Operation::divint(a, b),
        "mod" => Operation::remainder(a, b),
        "add" => Operation::sum(a, b),
        "sub" => Operation::subtract(a, b),
        "eq" => Operation::equal(a, b),
        "ne" => Operation::not_equal(a, b),
        "lt" => Operation::less(a, b),
        "le" => Operation::less_equal(a, b),
        "gt" => Operation::greater(a, b),
        "ge" => Operation::greater_equal(a, b),
        "and" => Operation::and(a, b),
        "or" => Operation::or(a, b),
        "xor" => Operation::xor(a, b),
        "imp" => Operation::imp(a, b),
        "eqv" => Operation::eqv(a, b),
        "left" => Function::left(a, b),
        "right" => Function::right(a, b),
        "string" => Function::string(a, b),
        _ => panic!("unknown op2 {}", name),
    }
}

fn run_op1(name: &str, a: Val) -> Result<Val, basic::lang::Error> {
    match name {
        "neg" => Operation::negate(a),
        "not" => Operation::not(a),
        "cint" => Function::cint(a),
        "abs" => Function::abs(a),
        "asc" => Function::asc(a),
        "cdbl" => Function::cdbl(a),
        "chr" => Function::chr(a),
        "csng" => Function::csng(a),
        "fix" => Function::fix(a),
        "hex" => Function::hex(a),
        "int" => Function::int(a),
        "len" => Function::len(a),
        "oct" => Function::oct(a),
        "sgn" => Function::sgn(a),
        "spc" => Function::spc(a),
        "sqr" => Function::sqr(a),
        "str" => Function::str(a),
        "val" => Function::val(a),
        "fmt" => Ok(Val::String(format!("{}", a).into())),
        _ => panic!("unknown op1 {}", name),
    }
}

fn run_opn(name: &str, args: Vec<Val>) -> Result<Val, basic::lang::Error> {
    let mut st: Stack<Val> = Stack::new("HARNESS");
    for a in args {
        st.push(a)?;
    }
    match name {
        "instr" => Function::instr(st),
        "mid" => Function::mid(st),
        _ => panic!("unknown opn {}", name),
    }
}

fn run_case(line: &str) -> String {
    let f: Vec<&str> = line.split(' ').collect();
    let arg1 = || if f.len() > 1 { str_of_hex(f[1]) } else { String::new() };
    match f[0] {
        "lex" => {
            let (n, ts) = basic::lang::lex(&arg1());
            format!("{}|{}", show_lnum(n), show_tokens(&ts))
        }
        "relist" => hex_of_str(&basic::lang::Line::new(&arg1()).to_string()),
        "ast" => show_ast_res(true, &basic::lang::Line::new(&arg1()).ast()),
        "astnc" => show_ast_res(false, &basic::lang::Line::new(&arg1()).ast()),
        "session" => session::run_session(&f[1..]),
        "compile" => {
            let srcs: Vec<String> = if f[1] == "-" {
                vec![]
            } else {
                f[1].split(',').map(str_of_hex).collect()
            };
            let direct = if f.len() > 2 { Some(str_of_hex(f[2])) } else { None };
            session::compile_dump(&srcs, direct)
        }
        "op1" => show_res(run_op1(f[1], parse_val(f[2]))),
        "op2" => show_res(run_op2(f[1], parse_val(f[2]), parse_val(f[3]))),
        "opn" => show_res(run_opn(f[1], f[2..].iter().map(|s| parse_val(s)).collect())),
        "tab" => show_res(Function::tab(f[1].parse().unwrap(), parse_val(f[2]))),
        "pos" => show_res(Function::pos(f[1].parse().unwrap())),
        "from" => show_val(&Val::from(str_of_hex(f[1]).as_str())),
        _ => "?".to_string(),
    }
}

fn main() {
    std::panic::set_hook(Box::new(|_| {}));
    let args: Vec<String> = std::env::args().collect();
    let reader: Box<dyn BufRead> = if args.len() > 1 {
        Box::new(std::io::BufReader::new(std::fs::File::open(&args[1]).unwrap()))
    } else {
        Box::new(std::io::BufReader::new(std::io::stdin()))
    };
    let lines: std::sync::Arc<Vec<String>> =
        std::sync::Arc::new(reader.lines().map(|l| l.unwrap()).collect());
    let stdout = std::io::stdout();
    let mut out = std::io::BufWriter::new(stdout.lock());
    // Watchdog: cases run on a worker thread; a case that does not answer within the
    // limit is reported as HANG, its thread is abandoned, and a fresh worker continues.
    let limit = std::time::Duration::from_millis(
        std::env::var("BLH_CASE_MS").ok().and_then(|s| s.parse().ok()).unwrap_or(3000),
    );
    let mut next = 0usize;
    let mut hangs = 0usize;
    while next < lines.len() {
        let (tx, rx) = std::sync::mpsc::channel::<(usize, String)>();
        let ls = lines.clone();
        let from = next;
        std::thread::Builder::new()
            .stack_size(std::env::var("BLH_STACK_MB").ok().and_then(|s| s.parse::<usize>().ok()).unwrap_or(8) << 20)
            .spawn(move || {
                for i in from..ls.len() {
                    let r = catch_unwind(AssertUnwindSafe(|| run_case(&ls[i])));
                    let s = match r {
                        Ok(s) => s,
                        Err(_) => "PANIC".to_string(),
                    };
                    if tx.send((i, s)).is_err() {
                        return;
                    }
                }
            })
            .unwrap();
        loop {
            if next >= lines.len() {
                break;
            }
            match rx.recv_timeout(limit) {
                Ok((_, s)) => {
                    writeln!(out, "{}", s).unwrap();
                    next += 1;
                }
                Err(_) => {
                    writeln!(out, "HANG").unwrap();
                    out.flush().unwrap();
                    next += 1;
                    hangs += 1;
                    break;
                }
            }
        }
        if hangs >= 12 {
            // too many spinning threads: stop here, the caller records the rest as SKIPPED
            break;
        }
    }
    out.flush().unwrap();
    std::process::exit(0);
}
