// Correspondence harness: runs case lines against the real crate (public API only)
// and prints the canonical result forms of coq/Drv/Show.v.
use basic::mach::{Function, Operation, Stack, Val};
use std::io::{BufRead, Write};
use std::panic::{catch_unwind, AssertUnwindSafe};

mod canon;
use canon::*;

fn run_op2(name: &str, a: Val, b: Val) -> Result<Val, basic::lang::Error> {
    match name {
        "pow" => Operation::power(a, b),
        "mul" => Operation::multiply(a, b),
        "div" => Operation::divide(a, b),
        "divint" => Operation::divint(a, b),
        "mod" => Operation::remainder(a, b),
        "add" => Operation::sum(a, b),
        "sub" => Operation::subtract(a, b),
        "eq" => Operation::equal(a, b),
        "ne" => Operation::not_equal(a, b),
        "lt" => Operation::less(a, b),
        "le" => Operation::less_equal(a, b),
        "gt" => Operation::greater(a, b),
        "ge" => Operation::greater_equal(a, b),
        "and" => Operation::and(a, b),
        "or" => Operation::or(a, b),
        "xor" => Operation::xor(a, b),
        "imp" => Operation::imp(a, b),
        "eqv" => Operation::eqv(a, b),
        "left" => Function::left(a, b),
        "right" => Function::right(a, b),
        "string" => Function::string(a, b),
        _ => panic!("unknown op2 {}", name),
    }
}

fn run_op1(name: &str, a: Val) -> Result<Val, basic::lang::Error> {
    match name {
        "neg" => Operation::negate(a),
        "not" => Operation::not(a),
        "cint" => Function::cint(a),
        "abs" => Function::abs(a),
        "asc" => Function::asc(a),
        "cdbl" => Function::cdbl(a),
        "chr" => Function::chr(a),
        "csng" => Function::csng(a),
        "fix" => Function::fix(a),
        "hex" => Function::hex(a),
        "int" => Function::int(a),
        "len" => Function::len(a),
        "oct" => Function::oct(a),
        "sgn" => Function::sgn(a),
        "spc" => Function::spc(a),
        "sqr" => Function::sqr(a),
        "str" => Function::str(a),
        "val" => Function::val(a),
        "fmt" => Ok(Val::String(format!("{}", a).into())),
        _ => panic!("unknown op1 {}", name),
    }
}

fn run_opn(name: &str, args: Vec<Val>) -> Result<Val, basic::lang::Error> {
    let mut st: Stack<Val> = Stack::new("HARNESS");
    for a in args {
        st.push(a)?;
    }
    match name {
        "instr" => Function::instr(st),
        "mid" => Function::mid(st),
        _ => panic!("unknown opn {}", name),
    }
}

fn run_case(line: &str) -> String {
    let f: Vec<&str> = line.split(' ').collect();
    match f[0] {
        "op1" => show_res(run_op1(f[1], parse_val(f[2]))),
        "op2" => show_res(run_op2(f[1], parse_val(f[2]), parse_val(f[3]))),
        "opn" => show_res(run_opn(f[1], f[2..].iter().map(|s| parse_val(s)).collect())),
        "tab" => show_res(Function::tab(f[1].parse().unwrap(), parse_val(f[2]))),
        "pos" => show_res(Function::pos(f[1].parse().unwrap())),
        "from" => show_val(&Val::from(str_of_hex(f[1]).as_str())),
        _ => "?".to_string(),
    }
}

fn main() {
    std::panic::set_hook(Box::new(|_| {}));
    let args: Vec<String> = std::env::args().collect();
    let reader: Box<dyn BufRead> = if args.len() > 1 {
        Box::new(std::io::BufReader::new(std::fs::File::open(&args[1]).unwrap()))
    } else {
        Box::new(std::io::BufReader::new(std::io::stdin()))
    };
    let stdout = std::io::stdout();
    let mut out = std::io::BufWriter::new(stdout.lock());
    for line in reader.lines() {
        let line = line.unwrap();
        let r = catch_unwind(AssertUnwindSafe(|| run_case(&line)));
        match r {
            Ok(s) => writeln!(out, "{}", s).unwrap(),
            Err(_) => writeln!(out, "PANIC").unwrap(),
        }
        // one line per case, flushed: a hang or abort loses nothing already decided
        out.flush().unwrap();
    }
}
