// Canonical text forms (must agree with coq/Drv/Show.v).
use basic::lang::Error;
use basic::mach::Val;

pub fn hex_of_str(s: &str) -> String {
    s.bytes().map(|b| format!("{:02x}", b)).collect()
}

pub fn str_of_hex(h: &str) -> String {
    let bytes: Vec<u8> = (0..h.len() / 2)
        .map(|i| u8::from_str_radix(&h[2 * i..2 * i + 2], 16).unwrap())
        .collect();
    String::from_utf8(bytes).unwrap()
}

pub fn show_val(v: &Val) -> String {
    match v {
        Val::String(s) => format!("T:{}", hex_of_str(s)),
        Val::Single(f) => {
            if f.is_nan() {
                "S:NaN".into()
            } else {
                format!("S:{:08x}", f.to_bits())
            }
        }
        Val::Double(f) => {
            if f.is_nan() {
                "D:NaN".into()
            } else {
                format!("D:{:016x}", f.to_bits())
            }
        }
        Val::Integer(n) => format!("I:{}", n),
        Val::Return(a) => format!("R:{}", a),
        Val::Next(a) => format!("X:{}", a),
    }
}

pub fn parse_val(s: &str) -> Val {
    let (t, r) = s.split_at(2);
    match t {
        "T:" => Val::String(str_of_hex(r).into()),
        "S:" => Val::Single(f32::from_bits(u32::from_str_radix(r, 16).unwrap())),
        "D:" => Val::Double(f64::from_bits(u64::from_str_radix(r, 16).unwrap())),
        "I:" => Val::Integer(r.parse().unwrap()),
        "R:" => Val::Return(r.parse().unwrap()),
        _ => Val::Next(r.parse().unwrap()),
    }
}

/// The numeric error code is private; recover it from the Display text.
pub fn error_code(e: &Error) -> u16 {
    let s = e.to_string();
    const TABLE: &[(&str, u16)] = &[
        ("?BREAK", 0),
        ("?NEXT WITHOUT FOR", 1),
        ("?SYNTAX ERROR", 2),
        ("?RETURN WITHOUT GOSUB", 3),
        ("?OUT OF DATA", 4),
        ("?ILLEGAL FUNCTION CALL", 5),
        ("?OVERFLOW", 6),
        ("?OUT OF MEMORY", 7),
        ("?UNDEFINED LINE", 8),
        ("?SUBSCRIPT OUT OF RANGE", 9),
        ("?REDIMENSIONED ARRAY", 10),
        ("?DIVISION BY ZERO", 11),
        ("?ILLEGAL DIRECT", 12),
        ("?TYPE MISMATCH", 13),
        ("?OUT OF STRING SPACE", 14),
        ("?STRING TOO LONG", 15),
        ("?CAN'T CONTINUE", 17),
        ("?UNDEFINED USER FUNCTION", 18),
        ("?REDO FROM START", 21),
        ("?LINE BUFFER OVERFLOW", 23),
        ("?FOR WITHOUT NEXT", 26),
        ("?WHILE WITHOUT WEND", 29),
        ("?WEND WITHOUT WHILE", 30),
        ("?INTERNAL ERROR", 51),
        ("?FILE NOT FOUND", 53),
        ("?FILE ALREADY EXISTS", 58),
        ("?BAD FILE NAME", 64),
        ("?DIRECT STATEMENT IN FILE", 66),
    ];
    for (p, c) in TABLE {
        if s.starts_with(p) {
            return *c;
        }
    }
    9999
}

pub fn show_res(r: Result<Val, Error>) -> String {
    match r {
        Ok(v) => format!("ok {}", show_val(&v)),
        Err(e) => format!("err {}", error_code(&e)),
    }
}
