(* Trusted glue: bytes <-> Model.n lists, line-oriented I/O. Nothing else. *)

let rec pos_of_int (i : int) : Model.positive =
  if i = 1 then Model.XH
  else if i land 1 = 0 then Model.XO (pos_of_int (i lsr 1))
  else Model.XI (pos_of_int (i lsr 1))
let n_of_int i = if i = 0 then Model.N0 else Model.Npos (pos_of_int i)
let rec int_of_pos = function
  | Model.XH -> 1
  | Model.XO p -> 2 * int_of_pos p
  | Model.XI p -> 2 * int_of_pos p + 1
let int_of_n = function Model.N0 -> 0 | Model.Npos p -> int_of_pos p

let list_of_string (s : string) =
  let rec go i acc = if i < 0 then acc else go (i - 1) (n_of_int (Char.code s.[i]) :: acc) in
  go (String.length s - 1) []
let string_of_list l =
  let b = Buffer.create 256 in
  List.iter (fun c -> Buffer.add_char b (Char.chr ((int_of_n c) land 255))) l;
  Buffer.contents b

let () =
  (* events are lists of boxed numbers: a long transcript is a large live heap, and the default collector
     settings then spend most of the time re-scanning it *)
  Gc.set { (Gc.get ()) with Gc.space_overhead = 400; Gc.minor_heap_size = 1048576 };
  let ic = if Array.length Sys.argv > 1 then open_in Sys.argv.(1) else stdin in
  let out = Buffer.create 65536 in
  (try
     while true do
       let line = input_line ic in
       let r = try string_of_list (Model.run_case_default (list_of_string line))
               with Stack_overflow -> "MODEL-STACK-OVERFLOW" in
       Buffer.add_string out r; Buffer.add_char out '\n';
       if Buffer.length out > 60000 then (print_string (Buffer.contents out); Buffer.clear out)
     done
   with End_of_file -> ());
  print_string (Buffer.contents out)
